// replay for property C02
// refuted obligation (Kani harness): algorithm::kalman::verif::c02_p_steer_frequency_clamped  [/verif/kani/ntp_proto/algorithm/kalman/mod.rs]
// failed checks: assertion failed: f >= -max && f <= max @ /verif/kani/ntp_proto/algorithm/kalman/mod.rs:288
// re-run natively against the real code:  /verif/check C02 --replay /verif/replays/C02-c02_p_steer_frequency_clamped.rs
//meta {"property": "C02", "crate_dir": "ntp-proto", "harness": "algorithm::kalman::verif::c02_p_steer_frequency_clamped", "harness_file": "/verif/kani/ntp_proto/algorithm/kalman/mod.rs", "features": [], "transform": true, "c_ffi": false}
// native replay: not-run
/// Test generated for harness `algorithm::kalman::verif::c02_p_steer_frequency_clamped` 
///
/// Check for `assertion`: "assertion failed: f >= -max && f <= max"
///
/// # Warning
///
/// Concrete playback tests combined with stubs or contracts is highly
/// experimental, and subject to change.
///
/// The original harness has stubs which are not applied to this test.
/// This may cause a mismatch of non-deterministic values if the stub
/// creates any non-deterministic value.
/// The execution path may also differ, which can be used to refine the stub
/// logic.

#[test]
fn kani_concrete_playback_c02_p_steer_frequency_clamped_10136427516557616968() {
    let concrete_vals: Vec<Vec<u8>> = vec![
        // 18446744073709551615ul
        vec![255, 255, 255, 255, 255, 255, 255, 255],
        // 0
        vec![0],
        // 1
        vec![1],
        // 9223372036854775807
        vec![255, 255, 255, 255, 255, 255, 255, 127],
        // 1
        vec![1],
        // 9223372036854775807
        vec![255, 255, 255, 255, 255, 255, 255, 127],
        // 1
        vec![1],
        // 9223372036854775807
        vec![255, 255, 255, 255, 255, 255, 255, 127],
        // 1
        vec![1],
        // 9223372036854775807
        vec![255, 255, 255, 255, 255, 255, 255, 127],
        // 255
        vec![255],
        // 1
        vec![1],
        // 9223372036854775807
        vec![255, 255, 255, 255, 255, 255, 255, 127],
        // -5.703701e+91
        vec![0, 0, 0, 0, 0, 0, 252, 210],
        // -NaN
        vec![255, 255, 255, 255, 255, 255, 255, 255],
        // 1
        vec![1],
        // 9.550245e+307
        vec![0, 0, 0, 0, 0, 0, 225, 127],
        // -8.988466e+307
        vec![0, 0, 0, 4, 0, 0, 224, 255],
        // 255
        vec![255],
        // 255
        vec![255],
        // 255
        vec![255],
        // 255
        vec![255],
        // 255
        vec![255],
        // 255
        vec![255],
        // 255
        vec![255],
        // 255
        vec![255],
    ];
    kani::concrete_playback_run(concrete_vals, c02_p_steer_frequency_clamped);
}

/* native run output:
error: unexpected argument '--no-assertion-reach-checks' found

  tip: to pass '--no-assertion-reach-checks' as a value, use '-- --no-assertion-reach-checks'

Usage: cargo-kani playback --unstable <UNSTABLE_FEATURE> [-- [TEST_ARGS]...]

For more information, try '--help'.

*/
