// replay for property C12
// refuted obligation (Kani harness): source::verif::c12_b_incoming_contract_plain_v5  [/verif/kani/ntp_proto/source.rs]
// failed checks: rust_dealloc must be called on an object whose allocated size matches its layout @ /root/.kani/kani-0.68.0/library/kani/kani_lib.c:85; assertion failed: after.have_deny @ /verif/kani/ntp_proto/source.rs:1021; assertion failed: rm1 >= last_poll as i16 @ /verif/kani/ntp_proto/source.rs:1005; assertion failed: rm1 == core::cmp::max(core::cmp::min(rm0 + 1, max), last_poll as i16) @ /verif/kani/ntp_proto/source.rs:1007
// re-run natively against the real code:  /verif/check C12 --replay /verif/replays/C12-c12_b_incoming_contract_plain_v5.rs
//meta {"property": "C12", "crate_dir": "ntp-proto", "harness": "source::verif::c12_b_incoming_contract_plain_v5", "harness_file": "/verif/kani/ntp_proto/source.rs", "features": [], "transform": true, "c_ffi": true}
// native replay: passed-natively
/// Test generated for harness `source::verif::c12_b_incoming_contract_plain_v5` 
///
/// Check for `cover`: "V5 answer to a V4 source ignored"
///
/// # Warning
///
/// Concrete playback tests combined with stubs or contracts is highly
/// experimental, and subject to change.
///
/// The original harness has stubs which are not applied to this test.
/// This may cause a mismatch of non-deterministic values if the stub
/// creates any non-deterministic value.
/// The execution path may also differ, which can be used to refine the stub
/// logic.

#[test]
fn kani_concrete_playback_c12_b_incoming_contract_plain_v5_4829321611347356294() {
    let concrete_vals: Vec<Vec<u8>> = vec![
        // 1
        vec![1],
        // 131
        vec![131],
        // 133
        vec![133],
        // 0
        vec![0],
        // -1
        vec![255],
        // 0
        vec![0],
        // 7
        vec![7, 0, 0, 0, 0, 0, 0, 0],
        // 0
        vec![0, 0, 0, 0, 0, 0, 0, 0],
        // 0
        vec![0, 0, 0, 0],
        // 0ul
        vec![0, 0, 0, 0, 0, 0, 0, 0],
        // 9584013442050686975ul
        vec![255, 255, 255, 127, 114, 65, 1, 133],
        // 18446744073709551615ul
        vec![255, 255, 255, 255, 255, 255, 255, 255],
        // 0ul
        vec![0, 0, 0, 0, 0, 0, 0, 0],
        // 128
        vec![128],
        // 0
        vec![0],
        // 0
        vec![0],
        // 0
        vec![0],
        // 1
        vec![1],
        // 255
        vec![255],
        // 255
        vec![255],
        // 255
        vec![255],
        // 255
        vec![255],
        // 0
        vec![0],
        // 0
        vec![0],
        // 0
        vec![0],
        // 0
        vec![0],
        // 0
        vec![0],
        // 1
        vec![1],
        // 9583943075453992959ul
        vec![255, 255, 255, 255, 114, 1, 1, 133],
        // 0
        vec![0],
        // 0
        vec![0],
        // 0
        vec![0],
        // 0
        vec![0],
        // 0
        vec![0],
        // 0
        vec![0, 0],
        // 254
        vec![254],
        // 255
        vec![255],
        // 1
        vec![1],
        // 255
        vec![255],
        // 4294967295
        vec![255, 255, 255, 255],
        // 0
        vec![0, 0, 0, 0],
        // 1
        vec![1],
        // 0ul
        vec![0, 0, 0, 0, 0, 0, 0, 0],
        // 127
        vec![127],
        // 0
        vec![0],
        // 3
        vec![3],
        // 0
        vec![0],
        // 0
        vec![0],
        // 0ul
        vec![0, 0, 0, 0, 0, 0, 0, 0],
        // 0ul
        vec![0, 0, 0, 0, 0, 0, 0, 0],
        // 18446744073709551615ul
        vec![255, 255, 255, 255, 255, 255, 255, 255],
    ];
    kani::concrete_playback_run(concrete_vals, c12_b_incoming_contract_plain_v5);
}

/* native run output:
8901c66e86e93cd/out -L dependency=/verif/build/playback-x/x86_64-unknown-linux-gnu/debug/build/tokio-rustls/54d8ca3c8a7af86e/out -L dependency=/verif/build/playback-x/x86_64-unknown-linux-gnu/debug/build/tracing/5bb07173bbfece25/out -L dependency=/verif/build/playback-x/x86_64-unknown-linux-gnu/debug/build/tracing-core/8462334772d35f33/out -L dependency=/verif/build/playback-x/x86_64-unknown-linux-gnu/debug/build/typenum/4ef28bbd38ede6dd/out -L dependency=/verif/build/playback-x/x86_64-unknown-linux-gnu/debug/build/untrusted/a010c55f4c939ac1/out -L dependency=/verif/build/playback-x/x86_64-unknown-linux-gnu/debug/build/zerocopy/efa2c208243efb84/out -L dependency=/verif/build/playback-x/x86_64-unknown-linux-gnu/debug/build/zeroize/4444842b71a295a1/out -L dependency=/verif/build/playback-x/x86_64-unknown-linux-gnu/debug/build/zmij/91739b33de1678fe/out -L dependency=/verif/build/playback-x/debug/build/ntp-proto/674f468bfdacaeac/out -C embed-bitcode=no --cfg 'feature="aws-lc"' --cfg 'feature="default"' --cfg 'feature="rustcrypto"' --cfg 'feature="verif-xrepo"' --check-cfg 'cfg(docsrs,test)' --check-cfg 'cfg(feature, values("__internal-api", "__internal-fuzz", "__internal-test", "arbitrary", "aws-lc", "default", "openssl", "openssl-vendored", "rustcrypto", "verif-xrepo"))' --error-format human` (exit status: 1)
note: test exited abnormally; to see the full output pass --no-capture to the harness.
error: /root/.kani/kani-0.68.0/toolchain/bin/cargo exited with status exit status: 1

*/
