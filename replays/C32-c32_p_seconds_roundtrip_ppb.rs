// replay for property C32
// refuted obligation (Kani harness): time_types::verif::c32_p_seconds_roundtrip_ppb  [/verif/kani/ntp_proto/time_types.rs]
// failed checks: assertion failed: diff <= bound @ /verif/kani/ntp_proto/time_types.rs:235
// re-run natively against the real code:  /verif/check C32 --replay /verif/replays/C32-c32_p_seconds_roundtrip_ppb.rs
//meta {"property": "C32", "crate_dir": "ntp-proto", "harness": "time_types::verif::c32_p_seconds_roundtrip_ppb", "harness_file": "/verif/kani/ntp_proto/time_types.rs", "features": []}
// native replay: reproduced
/// Test generated for harness `time_types::verif::c32_p_seconds_roundtrip_ppb` 
///
/// Check for `assertion`: "assertion failed: diff <= bound"

#[test]
fn kani_concrete_playback_c32_p_seconds_roundtrip_ppb_16063189742410709488() {
    let concrete_vals: Vec<Vec<u8>> = vec![
        // -383429551
        vec![81, 84, 37, 233, 255, 255, 255, 255],
    ];
    kani::concrete_playback_run(concrete_vals, c32_p_seconds_roundtrip_ppb);
}

/* native run output:
panicked at /verif/kani/ntp_proto/time_types.rs:235:5:
assertion failed: diff <= bound
*/
