// replay for property C40
// refuted obligation (Kani harness on mechanically extracted functions, unit c40_sock_sample): c40_p_sample_validated
// failed checks: assertion failed: s.offset.is_finite() @ /verif/build/kextract/c40_sock_sample.rs:78
//meta {"property": "C40", "extract_unit": "c40_sock_sample", "harness": "c40_p_sample_validated"}
// native replay (extracted text compiled natively): reproduced
/// Test generated for harness `c40_p_sample_validated` 
///
/// Check for `assertion`: "assertion failed: s.offset.is_finite()"

#[test]
fn kani_concrete_playback_c40_p_sample_validated_5738376960052175898() {
    let concrete_vals: Vec<Vec<u8>> = vec![
        // 0
        vec![0],
        // 0
        vec![0],
        // 0
        vec![0],
        // 0
        vec![0],
        // 0
        vec![0],
        // 0
        vec![0],
        // 0
        vec![0],
        // 0
        vec![0],
        // 0
        vec![0],
        // 0
        vec![0],
        // 0
        vec![0],
        // 0
        vec![0],
        // 0
        vec![0],
        // 0
        vec![0],
        // 0
        vec![0],
        // 0
        vec![0],
        // 1
        vec![1],
        // 0
        vec![0],
        // 0
        vec![0],
        // 0
        vec![0],
        // 0
        vec![0],
        // 0
        vec![0],
        // 240
        vec![240],
        // 127
        vec![127],
        // 0
        vec![0],
        // 0
        vec![0],
        // 0
        vec![0],
        // 0
        vec![0],
        // 0
        vec![0],
        // 0
        vec![0],
        // 64
        vec![64],
        // 0
        vec![0],
        // 0
        vec![0],
        // 0
        vec![0],
        // 0
        vec![0],
        // 0
        vec![0],
        // 75
        vec![75],
        // 67
        vec![67],
        // 79
        vec![79],
        // 83
        vec![83],
        // 1
        vec![1],
        // 40ul
        vec![40, 0, 0, 0, 0, 0, 0, 0],
    ];
    kani::concrete_playback_run(concrete_vals, c40_p_sample_validated);
}

/* native run output:
panicked at /verif/build/kextract/c40_sock_sample_playback.rs:78:13:
assertion failed: s.offset.is_finite()
*/
