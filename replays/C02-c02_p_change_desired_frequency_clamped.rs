// replay for property C02
// refuted obligation (Kani harness): algorithm::kalman::verif::c02_p_change_desired_frequency_clamped  [/verif/kani/ntp_proto/algorithm/kalman/mod.rs]
// failed checks: assertion failed: FREQS.load(Relaxed) == 1 && f >= -max && f <= max @ /verif/kani/ntp_proto/algorithm/kalman/mod.rs:308
// re-run natively against the real code:  /verif/check C02 --replay /verif/replays/C02-c02_p_change_desired_frequency_clamped.rs
//meta {"property": "C02", "crate_dir": "ntp-proto", "harness": "algorithm::kalman::verif::c02_p_change_desired_frequency_clamped", "harness_file": "/verif/kani/ntp_proto/algorithm/kalman/mod.rs", "features": [], "transform": true, "c_ffi": false}
// native replay: reproduced
/// Test generated for harness `algorithm::kalman::verif::c02_p_change_desired_frequency_clamped` 
///
/// Check for `assertion`: "assertion failed: FREQS.load(Relaxed) == 1 && f >= -max && f <= max"
///
/// # Warning
///
/// Concrete playback tests combined with stubs or contracts is highly
/// experimental, and subject to change.
///
/// The original harness has stubs which are not applied to this test.
/// This may cause a mismatch of non-deterministic values if the stub
/// creates any non-deterministic value.
/// The execution path may also differ, which can be used to refine the stub
/// logic.

#[test]
fn kani_concrete_playback_c02_p_change_desired_frequency_clamped_6607746124697282843() {
    let concrete_vals: Vec<Vec<u8>> = vec![
        // 18446744073709551615ul
        vec![255, 255, 255, 255, 255, 255, 255, 255],
        // 0
        vec![0],
        // 0
        vec![0],
        // 0
        vec![0],
        // 0
        vec![0],
        // 0
        vec![0],
        // 255
        vec![255],
        // 1
        vec![1],
        // 9223372036854775807
        vec![255, 255, 255, 255, 255, 255, 255, 127],
        // 8.988466e+307
        vec![0, 0, 0, 0, 0, 0, 224, 127],
        // -1.779950e-307
        vec![0, 0, 0, 2, 128, 255, 63, 128],
        // 1
        vec![1],
        // 5.832898e-303
        vec![0, 0, 0, 0, 0, 0, 48, 1],
        // 1.412394e-310
        vec![128, 43, 0, 248, 255, 25, 0, 0],
        // 7.828783e-295
        vec![120, 5, 0, 0, 0, 0, 224, 2],
        // 255
        vec![255],
        // 255
        vec![255],
        // 255
        vec![255],
        // 255
        vec![255],
        // 255
        vec![255],
        // 255
        vec![255],
        // 255
        vec![255],
        // 255
        vec![255],
    ];
    kani::concrete_playback_run(concrete_vals, c02_p_change_desired_frequency_clamped);
}

/* native run output:
panicked at /verif/kani/ntp_proto/algorithm/kalman/mod.rs:308:9:
assertion failed: FREQS.load(Relaxed) == 1 && f >= -max && f <= max
*/
