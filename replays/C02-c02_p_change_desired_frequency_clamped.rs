// replay for property C02
// refuted obligation (Kani harness): algorithm::kalman::verif::c02_p_change_desired_frequency_clamped  [/verif/kani/ntp_proto/algorithm/kalman/mod.rs]
// failed checks: NaN on division @ ntp-proto/src/algorithm/kalman/mod.rs:336
// re-run natively against the real code:  /verif/check C02 --replay /verif/replays/C02-c02_p_change_desired_frequency_clamped.rs
//meta {"property": "C02", "crate_dir": "ntp-proto", "harness": "algorithm::kalman::verif::c02_p_change_desired_frequency_clamped", "harness_file": "/verif/kani/ntp_proto/algorithm/kalman/mod.rs", "features": [], "transform": true, "c_ffi": false}
// native replay: passed-natively
/// Test generated for harness `algorithm::kalman::verif::c02_p_change_desired_frequency_clamped` 
///
/// Check for `cover`: "reachable"
///
/// # Warning
///
/// Concrete playback tests combined with stubs or contracts is highly
/// experimental, and subject to change.
///
/// The original harness has stubs which are not applied to this test.
/// This may cause a mismatch of non-deterministic values if the stub
/// creates any non-deterministic value.
/// The execution path may also differ, which can be used to refine the stub
/// logic.

#[test]
fn kani_concrete_playback_c02_p_change_desired_frequency_clamped_15151962456582636779() {
    let concrete_vals: Vec<Vec<u8>> = vec![
        // 18446744073709551615ul
        vec![255, 255, 255, 255, 255, 255, 255, 255],
        // 0
        vec![0],
        // 0
        vec![0],
        // 0
        vec![0],
        // 0
        vec![0],
        // 0
        vec![0],
        // 255
        vec![255],
        // 1
        vec![1],
        // 9223372036854775807
        vec![255, 255, 255, 255, 255, 255, 255, 127],
        // -1
        vec![0, 0, 0, 0, 0, 0, 240, 191],
        // 5.626892e-270
        vec![255, 191, 255, 255, 255, 199, 7, 8],
        // 1
        vec![1],
        // 1
        vec![1, 0, 0, 0, 0, 0, 240, 63],
        // 5.678650e-270
        vec![10, 192, 255, 255, 255, 255, 7, 8],
        // 5.175853e-272
        vec![255, 255, 255, 255, 255, 255, 155, 7],
        // 255
        vec![255],
        // 255
        vec![255],
        // 255
        vec![255],
        // 255
        vec![255],
        // 255
        vec![255],
        // 255
        vec![255],
        // 255
        vec![255],
        // 255
        vec![255],
    ];
    kani::concrete_playback_run(concrete_vals, c02_p_change_desired_frequency_clamped);
}

/* native run output:
/x86_64-unknown-linux-gnu/debug/build/tokio/08901c66e86e93cd/out -L dependency=/verif/build/playback-x/x86_64-unknown-linux-gnu/debug/build/tokio-rustls/54d8ca3c8a7af86e/out -L dependency=/verif/build/playback-x/x86_64-unknown-linux-gnu/debug/build/tracing/5bb07173bbfece25/out -L dependency=/verif/build/playback-x/x86_64-unknown-linux-gnu/debug/build/tracing-core/8462334772d35f33/out -L dependency=/verif/build/playback-x/x86_64-unknown-linux-gnu/debug/build/typenum/4ef28bbd38ede6dd/out -L dependency=/verif/build/playback-x/x86_64-unknown-linux-gnu/debug/build/untrusted/a010c55f4c939ac1/out -L dependency=/verif/build/playback-x/x86_64-unknown-linux-gnu/debug/build/zerocopy/efa2c208243efb84/out -L dependency=/verif/build/playback-x/x86_64-unknown-linux-gnu/debug/build/zeroize/4444842b71a295a1/out -L dependency=/verif/build/playback-x/x86_64-unknown-linux-gnu/debug/build/zmij/91739b33de1678fe/out -L dependency=/verif/build/playback-x/debug/build/ntp-proto/674f468bfdacaeac/out -C embed-bitcode=no --cfg 'feature="aws-lc"' --cfg 'feature="default"' --cfg 'feature="rustcrypto"' --check-cfg 'cfg(docsrs,test)' --check-cfg 'cfg(feature, values("__internal-api", "__internal-fuzz", "__internal-test", "arbitrary", "aws-lc", "default", "openssl", "openssl-vendored", "rustcrypto"))' --error-format human` (exit status: 1)
note: test exited abnormally; to see the full output pass --no-capture to the harness.
error: /root/.kani/kani-0.68.0/toolchain/bin/cargo exited with status exit status: 1

*/
