// replay for property C05
// refuted obligation (Kani harness): algorithm::verif::c05_p_two_way_on_wire_formulas  [/verif/kani/ntp_proto/algorithm/mod.rs]
// failed checks: assertion failed: OFFSET.load(Relaxed) == want_offset @ /verif/kani/ntp_proto/algorithm/mod.rs:116; assertion failed: DELAY.load(Relaxed) == want_delay @ /verif/kani/ntp_proto/algorithm/mod.rs:117
// re-run natively against the real code:  /verif/check C05 --replay /verif/replays/C05-c05_p_two_way_on_wire_formulas.rs
//meta {"property": "C05", "crate_dir": "ntp-proto", "harness": "algorithm::verif::c05_p_two_way_on_wire_formulas", "harness_file": "/verif/kani/ntp_proto/algorithm/mod.rs", "features": [], "transform": true, "c_ffi": false}
// native replay: not-run
/// Test generated for harness `algorithm::verif::c05_p_two_way_on_wire_formulas` 
///
/// Check for `assertion`: "assertion failed: OFFSET.load(Relaxed) == want_offset"

#[test]
fn kani_concrete_playback_c05_p_two_way_on_wire_formulas_13357800676279066213() {
    let concrete_vals: Vec<Vec<u8>> = vec![
        // 8070450532247928831ul
        vec![255, 255, 255, 255, 255, 255, 255, 111],
        // 1152921504606846975
        vec![255, 255, 255, 255, 255, 255, 255, 15],
        // -9214364837600034816
        vec![0, 0, 0, 0, 0, 0, 32, 128],
        // 1152921504875282433
        vec![1, 0, 0, 16, 0, 0, 0, 16],
        // -1
        vec![255],
        // -1
        vec![255],
    ];
    kani::concrete_playback_run(concrete_vals, c05_p_two_way_on_wire_formulas);
}

/* native run output:
error: unexpected argument '--no-assertion-reach-checks' found

  tip: to pass '--no-assertion-reach-checks' as a value, use '-- --no-assertion-reach-checks'

Usage: cargo-kani playback --unstable <UNSTABLE_FEATURE> [-- [TEST_ARGS]...]

For more information, try '--help'.

*/
