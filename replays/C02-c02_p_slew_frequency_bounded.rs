// replay for property C02
// refuted obligation (Kani harness): algorithm::kalman::verif::c02_p_slew_frequency_bounded  [/verif/kani/ntp_proto/algorithm/kalman/mod.rs]
// failed checks: NaN on division @ ntp-proto/src/algorithm/kalman/mod.rs:336
// re-run natively against the real code:  /verif/check C02 --replay /verif/replays/C02-c02_p_slew_frequency_bounded.rs
//meta {"property": "C02", "crate_dir": "ntp-proto", "harness": "algorithm::kalman::verif::c02_p_slew_frequency_bounded", "harness_file": "/verif/kani/ntp_proto/algorithm/kalman/mod.rs", "features": [], "transform": true, "c_ffi": false}
// native replay: passed-natively
/// Test generated for harness `algorithm::kalman::verif::c02_p_slew_frequency_bounded` 
///
/// Check for `cover`: "maximum slew reachable"
///
/// # Warning
///
/// Concrete playback tests combined with stubs or contracts is highly
/// experimental, and subject to change.
///
/// The original harness has stubs which are not applied to this test.
/// This may cause a mismatch of non-deterministic values if the stub
/// creates any non-deterministic value.
/// The execution path may also differ, which can be used to refine the stub
/// logic.

#[test]
fn kani_concrete_playback_c02_p_slew_frequency_bounded_7327199677937447183() {
    let concrete_vals: Vec<Vec<u8>> = vec![
        // 0ul
        vec![0, 0, 0, 0, 0, 0, 0, 0],
        // 0
        vec![0],
        // 0
        vec![0],
        // 0
        vec![0],
        // 0
        vec![0],
        // 0
        vec![0],
        // 0
        vec![0],
        // 0
        vec![0],
        // 9222809209382440337
        vec![145, 13, 113, 132, 28, 0, 254, 127],
        // -1
        vec![0, 0, 0, 0, 0, 0, 240, 191],
        // 0
        vec![0, 0, 0, 0, 0, 0, 0, 0],
        // 0
        vec![0],
        // -0
        vec![0, 0, 0, 0, 0, 0, 0, 128],
        // 0.999512
        vec![224, 7, 240, 255, 255, 251, 239, 63],
        // 0.031243
        vec![249, 38, 239, 184, 55, 254, 159, 63],
        // 1.310435e+5
        vec![249, 38, 239, 184, 55, 254, 255, 64],
        // 1.310435e+5
        vec![249, 38, 239, 184, 55, 254, 255, 64],
        // 1
        vec![0, 0, 0, 0, 0, 0, 240, 63],
        // 0
        vec![0],
        // 0
        vec![0],
        // 0
        vec![0],
        // 0
        vec![0],
        // 0
        vec![0],
        // 0
        vec![0],
        // 0
        vec![0],
        // 0
        vec![0],
    ];
    kani::concrete_playback_run(concrete_vals, c02_p_slew_frequency_bounded);
}

/* native run output:
/x86_64-unknown-linux-gnu/debug/build/tokio/08901c66e86e93cd/out -L dependency=/verif/build/playback-x/x86_64-unknown-linux-gnu/debug/build/tokio-rustls/54d8ca3c8a7af86e/out -L dependency=/verif/build/playback-x/x86_64-unknown-linux-gnu/debug/build/tracing/5bb07173bbfece25/out -L dependency=/verif/build/playback-x/x86_64-unknown-linux-gnu/debug/build/tracing-core/8462334772d35f33/out -L dependency=/verif/build/playback-x/x86_64-unknown-linux-gnu/debug/build/typenum/4ef28bbd38ede6dd/out -L dependency=/verif/build/playback-x/x86_64-unknown-linux-gnu/debug/build/untrusted/a010c55f4c939ac1/out -L dependency=/verif/build/playback-x/x86_64-unknown-linux-gnu/debug/build/zerocopy/efa2c208243efb84/out -L dependency=/verif/build/playback-x/x86_64-unknown-linux-gnu/debug/build/zeroize/4444842b71a295a1/out -L dependency=/verif/build/playback-x/x86_64-unknown-linux-gnu/debug/build/zmij/91739b33de1678fe/out -L dependency=/verif/build/playback-x/debug/build/ntp-proto/674f468bfdacaeac/out -C embed-bitcode=no --cfg 'feature="aws-lc"' --cfg 'feature="default"' --cfg 'feature="rustcrypto"' --check-cfg 'cfg(docsrs,test)' --check-cfg 'cfg(feature, values("__internal-api", "__internal-fuzz", "__internal-test", "arbitrary", "aws-lc", "default", "openssl", "openssl-vendored", "rustcrypto"))' --error-format human` (exit status: 1)
note: test exited abnormally; to see the full output pass --no-capture to the harness.
error: /root/.kani/kani-0.68.0/toolchain/bin/cargo exited with status exit status: 1

*/
