// replay for property C02
// refuted obligation (Kani harness): algorithm::kalman::verif::c02_p_slew_frequency_bounded  [/verif/kani/ntp_proto/algorithm/kalman/mod.rs]
// failed checks: assertion failed: c.desired_freq.abs() <= slew_max @ /verif/kani/ntp_proto/algorithm/kalman/mod.rs:340
// re-run natively against the real code:  /verif/check C02 --replay /verif/replays/C02-c02_p_slew_frequency_bounded.rs
//meta {"property": "C02", "crate_dir": "ntp-proto", "harness": "algorithm::kalman::verif::c02_p_slew_frequency_bounded", "harness_file": "/verif/kani/ntp_proto/algorithm/kalman/mod.rs", "features": [], "transform": true, "c_ffi": false}
// native replay: not-run
/// Test generated for harness `algorithm::kalman::verif::c02_p_slew_frequency_bounded` 
///
/// Check for `assertion`: "assertion failed: c.desired_freq.abs() <= slew_max"
///
/// # Warning
///
/// Concrete playback tests combined with stubs or contracts is highly
/// experimental, and subject to change.
///
/// The original harness has stubs which are not applied to this test.
/// This may cause a mismatch of non-deterministic values if the stub
/// creates any non-deterministic value.
/// The execution path may also differ, which can be used to refine the stub
/// logic.

#[test]
fn kani_concrete_playback_c02_p_slew_frequency_bounded_1585874029959834143() {
    let concrete_vals: Vec<Vec<u8>> = vec![
        // 0ul
        vec![0, 0, 0, 0, 0, 0, 0, 0],
        // 0
        vec![0],
        // 0
        vec![0],
        // 0
        vec![0],
        // 0
        vec![0],
        // 0
        vec![0],
        // 0
        vec![0],
        // 0
        vec![0],
        // 9223372036854775796
        vec![244, 255, 255, 255, 255, 255, 255, 127],
        // 1.735121e+307
        vec![64, 255, 2, 233, 124, 181, 184, 127],
        // 0
        vec![0, 0, 0, 0, 0, 0, 0, 0],
        // 1
        vec![1],
        // 5.467208
        vec![115, 56, 126, 226, 107, 222, 21, 64],
        // 0.004407
        vec![32, 15, 146, 191, 154, 12, 114, 63],
        // 0.013951
        vec![137, 139, 108, 224, 110, 146, 140, 63],
        // 7.864320e+5
        vec![255, 255, 255, 255, 255, 255, 39, 65],
        // -0.022714
        vec![71, 63, 211, 100, 59, 66, 151, 191],
        // 0.628078
        vec![68, 35, 239, 0, 54, 25, 228, 63],
        // 0
        vec![0],
        // 0
        vec![0],
        // 0
        vec![0],
        // 0
        vec![0],
        // 0
        vec![0],
        // 0
        vec![0],
        // 0
        vec![0],
        // 0
        vec![0],
    ];
    kani::concrete_playback_run(concrete_vals, c02_p_slew_frequency_bounded);
}

/* native run output:
error: unexpected argument '--no-assertion-reach-checks' found

  tip: to pass '--no-assertion-reach-checks' as a value, use '-- --no-assertion-reach-checks'

Usage: cargo-kani playback --unstable <UNSTABLE_FEATURE> [-- [TEST_ARGS]...]

For more information, try '--help'.

*/
