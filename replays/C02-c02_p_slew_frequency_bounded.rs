// replay for property C02
// refuted obligation (Kani harness): algorithm::kalman::verif::c02_p_slew_frequency_bounded  [/verif/kani/ntp_proto/algorithm/kalman/mod.rs]
// failed checks: assertion failed: c.desired_freq.abs() <= slew_max @ /verif/kani/ntp_proto/algorithm/kalman/mod.rs:340
// re-run natively against the real code:  /verif/check C02 --replay /verif/replays/C02-c02_p_slew_frequency_bounded.rs
//meta {"property": "C02", "crate_dir": "ntp-proto", "harness": "algorithm::kalman::verif::c02_p_slew_frequency_bounded", "harness_file": "/verif/kani/ntp_proto/algorithm/kalman/mod.rs", "features": [], "transform": true, "c_ffi": false}
// native replay: reproduced
/// Test generated for harness `algorithm::kalman::verif::c02_p_slew_frequency_bounded` 
///
/// Check for `assertion`: "assertion failed: c.desired_freq.abs() <= slew_max"
///
/// # Warning
///
/// Concrete playback tests combined with stubs or contracts is highly
/// experimental, and subject to change.
///
/// The original harness has stubs which are not applied to this test.
/// This may cause a mismatch of non-deterministic values if the stub
/// creates any non-deterministic value.
/// The execution path may also differ, which can be used to refine the stub
/// logic.

#[test]
fn kani_concrete_playback_c02_p_slew_frequency_bounded_3757720160861792211() {
    let concrete_vals: Vec<Vec<u8>> = vec![
        // 0ul
        vec![0, 0, 0, 0, 0, 0, 0, 0],
        // 0
        vec![0],
        // 0
        vec![0],
        // 0
        vec![0],
        // 1
        vec![1],
        // 4611686018427387904
        vec![0, 0, 0, 0, 0, 0, 0, 64],
        // 0
        vec![0],
        // 0
        vec![0],
        // 0
        vec![0],
        // 9223372036819407117
        vec![13, 81, 228, 253, 255, 255, 255, 127],
        // -1.340781e+154
        vec![0, 0, 0, 0, 0, 0, 240, 223],
        // 0
        vec![0, 0, 0, 0, 0, 0, 0, 0],
        // 0
        vec![0],
        // 2.001953
        vec![1, 0, 0, 0, 0, 4, 0, 64],
        // 0.25
        vec![255, 255, 255, 255, 255, 255, 207, 63],
        // 0.001111
        vec![179, 23, 198, 64, 77, 50, 82, 63],
        // 0.131759
        vec![83, 210, 255, 126, 119, 221, 192, 63],
        // -0.008235
        vec![83, 210, 255, 126, 119, 221, 128, 191],
        // 1
        vec![0, 0, 0, 0, 0, 0, 240, 63],
        // 0
        vec![0],
        // 0
        vec![0],
        // 0
        vec![0],
        // 0
        vec![0],
        // 0
        vec![0],
        // 0
        vec![0],
        // 0
        vec![0],
        // 0
        vec![0],
    ];
    kani::concrete_playback_run(concrete_vals, c02_p_slew_frequency_bounded);
}

/* native run output:
panicked at /verif/kani/ntp_proto/algorithm/kalman/mod.rs:340:9:
assertion failed: c.desired_freq.abs() <= slew_max
*/
