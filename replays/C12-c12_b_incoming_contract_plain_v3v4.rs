// replay for property C12
// refuted obligation (Kani harness): source::verif::c12_b_incoming_contract_plain_v3v4  [/verif/kani/ntp_proto/source.rs]
// failed checks: rust_dealloc must be called on an object whose allocated size matches its layout @ /root/.kani/kani-0.68.0/library/kani/kani_lib.c:85; attempt to compute `unchecked_mul` which would overflow @ /home/runner/.rustup/toolchains/nightly-2026-08-21-x86_64-unknown-linux-gnu/lib/rustlib/src/rust/library/core/src/num/uint_macros.rs:1401; free argument must be NULL or valid pointer @ /root/.kani/kani-0.68.0/library/kani/kani_lib.c:87; free argument must be dynamic object @ /root/.kani/kani-0.68.0/library/kani/kani_lib.c:87
// re-run natively against the real code:  /verif/check C12 --replay /verif/replays/C12-c12_b_incoming_contract_plain_v3v4.rs
//meta {"property": "C12", "crate_dir": "ntp-proto", "harness": "source::verif::c12_b_incoming_contract_plain_v3v4", "harness_file": "/verif/kani/ntp_proto/source.rs", "features": [], "transform": true, "c_ffi": true}
// native replay: reproduced
/// Test generated for harness `source::verif::c12_b_incoming_contract_plain_v3v4` 
///
/// Check for `assertion`: "rust_dealloc must be called on an object whose allocated size matches its layout"
///
/// # Warning
///
/// Concrete playback tests combined with stubs or contracts is highly
/// experimental, and subject to change.
///
/// The original harness has stubs which are not applied to this test.
/// This may cause a mismatch of non-deterministic values if the stub
/// creates any non-deterministic value.
/// The execution path may also differ, which can be used to refine the stub
/// logic.

#[test]
fn kani_concrete_playback_c12_b_incoming_contract_plain_v3v4_6829660354714348006() {
    let concrete_vals: Vec<Vec<u8>> = vec![
        // 0
        vec![0],
        // 1
        vec![1],
        // 128
        vec![128],
        // 132
        vec![132],
        // 9
        vec![9],
        // 0
        vec![0],
        // 0
        vec![0],
        // 0
        vec![0, 0, 0, 0, 0, 0, 0, 0],
        // 0
        vec![0, 0, 0, 0, 0, 0, 0, 0],
        // 1093
        vec![69, 4, 0, 0],
        // 5644224422711805524ul
        vec![84, 70, 82, 68, 53, 80, 84, 78],
        // 0ul
        vec![0, 0, 0, 0, 0, 0, 0, 0],
        // 0ul
        vec![0, 0, 0, 0, 0, 0, 0, 0],
        // 0ul
        vec![0, 0, 0, 0, 0, 0, 0, 0],
        // 128
        vec![128],
        // 0
        vec![0],
        // 0
        vec![0],
        // 0
        vec![0],
        // 0
        vec![0],
        // 0
        vec![0],
        // 0
        vec![0],
        // 0
        vec![0],
        // 0
        vec![0],
        // 0
        vec![0],
        // 0
        vec![0],
        // 0
        vec![0],
        // 0
        vec![0],
        // 1
        vec![1],
        // 1
        vec![1],
        // 0ul
        vec![0, 0, 0, 0, 0, 0, 0, 0],
        // 0
        vec![0],
        // 0
        vec![0],
        // 0
        vec![0],
        // 0
        vec![0],
        // 0
        vec![0],
        // 0
        vec![0, 0],
        // 128
        vec![128],
        // 254
        vec![254],
        // 0
        vec![0],
        // 9
        vec![9],
        // 1093
        vec![69, 4, 0, 0],
        // 0
        vec![0, 0, 0, 0],
        // 1
        vec![1],
        // 0ul
        vec![0, 0, 0, 0, 0, 0, 0, 0],
        // 190
        vec![190],
        // 0
        vec![0],
        // 192
        vec![192],
        // 0
        vec![0],
        // 0
        vec![0],
        // 0ul
        vec![0, 0, 0, 0, 0, 0, 0, 0],
        // 1ul
        vec![1, 0, 0, 0, 0, 0, 0, 0],
        // 9223372036854775808ul
        vec![0, 0, 0, 0, 0, 0, 0, 128],
    ];
    kani::concrete_playback_run(concrete_vals, c12_b_incoming_contract_plain_v3v4);
}

/* native run output:
panicked at /verif/kani/ntp_proto/source.rs:963:9:
assertion failed: meas == 2
*/
