// replay for property C01
// refuted obligation (Kani harness): algorithm::kalman::verif::c01_p_check_offset_steer_contract  [/verif/kani/ntp_proto/algorithm/kalman/mod.rs]
// failed checks: assertion failed: spec_within(&sc.startup_step_panic_threshold, x) @ /verif/kani/ntp_proto/algorithm/kalman/mod.rs:178; assertion failed: spec_within(&sc.single_step_panic_threshold, x) @ /verif/kani/ntp_proto/algorithm/kalman/mod.rs:181; assertion failed: raw(c.timedata.accumulated_steps) == before_acc.saturating_add(abs) @ /verif/kani/ntp_proto/algorithm/kalman/mod.rs:183
// re-run natively against the real code:  /verif/check C01 --replay /verif/replays/C01-c01_p_check_offset_steer_contract.rs
//meta {"property": "C01", "crate_dir": "ntp-proto", "harness": "algorithm::kalman::verif::c01_p_check_offset_steer_contract", "harness_file": "/verif/kani/ntp_proto/algorithm/kalman/mod.rs", "features": [], "transform": true, "c_ffi": false}
// native replay: reproduced
/// Test generated for harness `algorithm::kalman::verif::c01_p_check_offset_steer_contract` 
///
/// Check for `assertion`: "assertion failed: spec_within(&sc.startup_step_panic_threshold, x)"
///
/// # Warning
///
/// Concrete playback tests combined with stubs or contracts is highly
/// experimental, and subject to change.
///
/// The original harness has stubs which are not applied to this test.
/// This may cause a mismatch of non-deterministic values if the stub
/// creates any non-deterministic value.
/// The execution path may also differ, which can be used to refine the stub
/// logic.

#[test]
fn kani_concrete_playback_c01_p_check_offset_steer_contract_16126345006959093442() {
    let concrete_vals: Vec<Vec<u8>> = vec![
        // 18446744073709551615ul
        vec![255, 255, 255, 255, 255, 255, 255, 255],
        // 1
        vec![1],
        // 9223372036854775807
        vec![255, 255, 255, 255, 255, 255, 255, 127],
        // 1
        vec![1],
        // 9223372036854775807
        vec![255, 255, 255, 255, 255, 255, 255, 127],
        // 1
        vec![1],
        // 9223372036854775807
        vec![255, 255, 255, 255, 255, 255, 255, 127],
        // 1
        vec![1],
        // 9223372036854775807
        vec![255, 255, 255, 255, 255, 255, 255, 127],
        // 1
        vec![1],
        // 9223372036854775806
        vec![254, 255, 255, 255, 255, 255, 255, 127],
        // 255
        vec![255],
        // 1
        vec![1],
        // 9223372036854775807
        vec![255, 255, 255, 255, 255, 255, 255, 127],
        // -1
        vec![255, 255, 255, 255, 255, 255, 255, 255],
        // -NaN
        vec![255, 255, 255, 255, 255, 255, 255, 255],
        // -NaN
        vec![255, 255, 255, 255, 255, 255, 255, 255],
        // 1
        vec![1],
        // -1.797693e+308
        vec![255, 255, 255, 255, 255, 255, 239, 255],
        // -1
        vec![255, 255, 255, 255, 255, 255, 255, 255],
        // -9223372036854775808
        vec![0, 0, 0, 0, 0, 0, 0, 128],
    ];
    kani::concrete_playback_run(concrete_vals, c01_p_check_offset_steer_contract);
}

/* native run output:
panicked at library/kani/src/concrete_playback.rs:66:5:
assertion `left == right` failed: Expected 1 bytes in the following det vals vec
*/
