// replay for property C01
// refuted obligation (Kani harness): algorithm::kalman::verif::c01_p_check_offset_steer_contract  [/verif/kani/ntp_proto/algorithm/kalman/mod.rs]
// failed checks: assertion failed: spec_within(&sc.single_step_panic_threshold, x) @ /verif/kani/ntp_proto/algorithm/kalman/mod.rs:183
// re-run natively against the real code:  /verif/check C01 --replay /verif/replays/C01-c01_p_check_offset_steer_contract.rs
//meta {"property": "C01", "crate_dir": "ntp-proto", "harness": "algorithm::kalman::verif::c01_p_check_offset_steer_contract", "harness_file": "/verif/kani/ntp_proto/algorithm/kalman/mod.rs", "features": [], "transform": true, "c_ffi": false}
// native replay: not-run
/// Test generated for harness `algorithm::kalman::verif::c01_p_check_offset_steer_contract` 
///
/// Check for `assertion`: "assertion failed: spec_within(&sc.single_step_panic_threshold, x)"
///
/// # Warning
///
/// Concrete playback tests combined with stubs or contracts is highly
/// experimental, and subject to change.
///
/// The original harness has stubs which are not applied to this test.
/// This may cause a mismatch of non-deterministic values if the stub
/// creates any non-deterministic value.
/// The execution path may also differ, which can be used to refine the stub
/// logic.

#[test]
fn kani_concrete_playback_c01_p_check_offset_steer_contract_6737306818882209016() {
    let concrete_vals: Vec<Vec<u8>> = vec![
        // 18446744073709551615ul
        vec![255, 255, 255, 255, 255, 255, 255, 255],
        // 0
        vec![0],
        // 1
        vec![1],
        // 0
        vec![0, 0, 0, 0, 0, 0, 0, 0],
        // 0
        vec![0],
        // 0
        vec![0],
        // 0
        vec![0],
        // 255
        vec![255],
        // 1
        vec![1],
        // 4611686018427387902
        vec![254, 255, 255, 255, 255, 255, 255, 63],
        // -1
        vec![255, 255, 255, 255, 255, 255, 255, 255],
        // -NaN
        vec![255, 255, 255, 255, 255, 255, 255, 255],
        // -NaN
        vec![255, 255, 255, 255, 255, 255, 255, 255],
        // 0
        vec![0],
        // -1.797693e+308
        vec![255, 255, 255, 255, 255, 255, 239, 255],
        // -9223372036854775808
        vec![0, 0, 0, 0, 0, 0, 0, 128],
    ];
    kani::concrete_playback_run(concrete_vals, c01_p_check_offset_steer_contract);
}

/* native run output:
error: unexpected argument '--no-assertion-reach-checks' found

  tip: to pass '--no-assertion-reach-checks' as a value, use '-- --no-assertion-reach-checks'

Usage: cargo-kani playback --unstable <UNSTABLE_FEATURE> [-- [TEST_ARGS]...]

For more information, try '--help'.

*/
