// replay for property C43
// refuted obligation (Kani harness): verif::c43_b_steer_1clock_freq_within_max  [/verif/kani/statime_algo/lib.rs]
// failed checks: This is a placeholder message; Kani doesn't support message formatted at runtime @ /verif/kani/statime_algo/lib.rs:258
// re-run natively against the real code:  /verif/check C43 --replay /verif/replays/C43-c43_b_steer_1clock_freq_within_max.rs
//meta {"property": "C43", "crate_dir": "statime-algo", "harness": "verif::c43_b_steer_1clock_freq_within_max", "harness_file": "/verif/kani/statime_algo/lib.rs", "features": [], "transform": false, "c_ffi": false}
// native replay: reproduced
/// Test generated for harness `verif::c43_b_steer_1clock_freq_within_max` 
///
/// Check for `assertion`: "This is a placeholder message; Kani doesn't support message formatted at runtime"
///
/// # Warning
///
/// Concrete playback tests combined with stubs or contracts is highly
/// experimental, and subject to change.
///
/// The original harness has stubs which are not applied to this test.
/// This may cause a mismatch of non-deterministic values if the stub
/// creates any non-deterministic value.
/// The execution path may also differ, which can be used to refine the stub
/// logic.

#[test]
fn kani_concrete_playback_c43_b_steer_1clock_freq_within_max_5142212113211848426() {
    let concrete_vals: Vec<Vec<u8>> = vec![
        // 0ul
        vec![0, 0, 0, 0, 0, 0, 0, 0],
        // 0ul
        vec![0, 0, 0, 0, 0, 0, 0, 0],
        // 2.801397e-265
        vec![0, 0, 0, 0, 226, 16, 2, 9],
        // 170141191066566261232238082161075290112
        vec![0, 0, 0, 0, 0, 0, 128, 0, 0, 0, 160, 0, 96, 0, 0, 128],
        // 2.716155e-312
        vec![0, 0, 0, 0, 128, 0, 0, 0],
        // -inf
        vec![0, 0, 0, 0, 0, 0, 240, 255],
        // 0
        vec![0, 0, 0, 0, 0, 0, 0, 0],
        // -0
        vec![0, 0, 0, 0, 0, 0, 0, 128],
        // -inf
        vec![0, 0, 0, 0, 0, 0, 240, 255],
        // -inf
        vec![0, 0, 0, 0, 0, 0, 240, 255],
        // 0
        vec![0, 0, 0, 0, 0, 0, 0, 0],
        // 0
        vec![0, 0, 0, 0, 0, 0, 0, 0],
        // 0
        vec![0, 0, 0, 0, 0, 0, 0, 0],
        // 0
        vec![0, 0, 0, 0, 0, 0, 0, 0],
        // 0
        vec![0, 0, 0, 0, 0, 0, 0, 0],
        // 0
        vec![0, 0, 0, 0, 0, 0, 0, 0],
        // 0ul
        vec![0, 0, 0, 0, 0, 0, 0, 0],
    ];
    kani::concrete_playback_run(concrete_vals, c43_b_steer_1clock_freq_within_max);
}

/* native run output:
panicked at /verif/kani/statime_algo/lib.rs:258:5:
set_frequency argument within [-max, max]
*/
