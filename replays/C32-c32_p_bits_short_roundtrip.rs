// replay for property C32
// refuted obligation (Kani harness): time_types::verif::c32_p_bits_short_roundtrip  [/verif/kani/ntp_proto/time_types.rs]
// failed checks: assertion failed: d.to_bits_short() == x @ /verif/kani/ntp_proto/time_types.rs:253; assertion failed: r.duration <= a.duration && a.duration - r.duration < (1 << 16) @ /verif/kani/ntp_proto/time_types.rs:258
// re-run natively against the real code:  /verif/check C32 --replay /verif/replays/C32-c32_p_bits_short_roundtrip.rs
//meta {"property": "C32", "crate_dir": "ntp-proto", "harness": "time_types::verif::c32_p_bits_short_roundtrip", "harness_file": "/verif/kani/ntp_proto/time_types.rs", "features": [], "transform": false, "c_ffi": false}
// native replay: reproduced
/// Test generated for harness `time_types::verif::c32_p_bits_short_roundtrip` 
///
/// Check for `assertion`: "assertion failed: d.to_bits_short() == x"

#[test]
fn kani_concrete_playback_c32_p_bits_short_roundtrip_8249711031028404510() {
    let concrete_vals: Vec<Vec<u8>> = vec![
        // 255
        vec![255],
        // 255
        vec![255],
        // 255
        vec![255],
        // 255
        vec![255],
    ];
    kani::concrete_playback_run(concrete_vals, c32_p_bits_short_roundtrip);
}

/* native run output:
panicked at /verif/kani/ntp_proto/time_types.rs:253:5:
assertion failed: d.to_bits_short() == x
*/
