// replay for property C05
// refuted obligation (Kani harness): algorithm::verif::c05_p_one_way_offset  [/verif/kani/ntp_proto/algorithm/mod.rs]
// failed checks: assertion failed: OFFSET.load(Relaxed) == d @ /verif/kani/ntp_proto/algorithm/mod.rs:143
// re-run natively against the real code:  /verif/check C05 --replay /verif/replays/C05-c05_p_one_way_offset.rs
//meta {"property": "C05", "crate_dir": "ntp-proto", "harness": "algorithm::verif::c05_p_one_way_offset", "harness_file": "/verif/kani/ntp_proto/algorithm/mod.rs", "features": [], "transform": true, "c_ffi": false}
// native replay: not-run
/// Test generated for harness `algorithm::verif::c05_p_one_way_offset` 
///
/// Check for `assertion`: "assertion failed: OFFSET.load(Relaxed) == d"

#[test]
fn kani_concrete_playback_c05_p_one_way_offset_2609461261433029768() {
    let concrete_vals: Vec<Vec<u8>> = vec![
        // 17293822568028962816ul
        vec![0, 0, 0, 192, 255, 255, 255, 239],
        // -8075235527860551683
        vec![253, 255, 65, 100, 18, 0, 239, 143],
        // -1
        vec![255],
    ];
    kani::concrete_playback_run(concrete_vals, c05_p_one_way_offset);
}

/* native run output:
error: unexpected argument '--no-assertion-reach-checks' found

  tip: to pass '--no-assertion-reach-checks' as a value, use '-- --no-assertion-reach-checks'

Usage: cargo-kani playback --unstable <UNSTABLE_FEATURE> [-- [TEST_ARGS]...]

For more information, try '--help'.

*/
