// replay for property C05
// refuted obligation (Kani harness): algorithm::verif::c05_p_one_way_offset  [/verif/kani/ntp_proto/algorithm/mod.rs]
// failed checks: assertion failed: OFFSET.load(Relaxed) == d @ /verif/kani/ntp_proto/algorithm/mod.rs:143
// re-run natively against the real code:  /verif/check C05 --replay /verif/replays/C05-c05_p_one_way_offset.rs
//meta {"property": "C05", "crate_dir": "ntp-proto", "harness": "algorithm::verif::c05_p_one_way_offset", "harness_file": "/verif/kani/ntp_proto/algorithm/mod.rs", "features": [], "transform": true, "c_ffi": false}
// native replay: not-run
/// Test generated for harness `algorithm::verif::c05_p_one_way_offset` 
///
/// Check for `assertion`: "assertion failed: OFFSET.load(Relaxed) == d"

#[test]
fn kani_concrete_playback_c05_p_one_way_offset_4225645913328204607() {
    let concrete_vals: Vec<Vec<u8>> = vec![
        // 2305843009213693952ul
        vec![0, 0, 0, 0, 0, 0, 0, 32],
        // 6917529027641081858
        vec![2, 0, 0, 0, 0, 0, 0, 96],
        // -1
        vec![255],
    ];
    kani::concrete_playback_run(concrete_vals, c05_p_one_way_offset);
}

/* native run output:
new(10, 1, 2, 3)));
    | --------------------------------------------------------------------------------------------------- in this macro invocation
    |
    = note: `#[warn(unused_comparisons)]` on by default
    = note: this warning originates in the macro `from_str_harness` (in Nightly builds, run with -Z macro-backtrace for more info)

warning: comparison is useless due to type limits
   --> /verif/kani/ntp_proto/ipfilter.rs:213:34
    |
213 |                       assert!(m >= $lo && m <= $hi);
    |  __________________________________^
214 | |                     assert!(sn.mask as u16 == m - $sub);
215 | |                     assert!(sn.addr == $want);
216 | |                 }
217 | |                 Err(_) => { assert!(m < $lo || m > $hi) }
    | |_______________________________________^
...
224 |   from_str_harness!(c31_tb_from_str_v4, "10.1.2.3", 0, 32, 0, IpAddr::V4(Ipv4Addr::new(10, 1, 2, 3)));
    |   --------------------------------------------------------------------------------------------------- in this macro invocation
    |
    = note: this warning originates in the macro `from_str_harness` (in Nightly builds, run with -Z macro-backtrace for more info)

warning: comparison is useless due to type limits
   --> /verif/kani/ntp_proto/ipfilter.rs:213:29
    |
213 |                     assert!(m >= $lo && m <= $hi);
    |                             ^^^^^^^^
...
225 | from_str_harness!(c31_tb_from_str_v6, "2001:db8::1", 0, 128, 0, IpAddr::V6(Ipv6Addr::new(0x2001, 0xdb8, 0, 0, 0, 0, 0, 1)));
    | --------------------------------------------------------------------------------------------------------------------------- in this macro invocation
    |
    = note: this warning originates in the macro `from_str_harness` (in Nightly builds, run with -Z macro-backtrace for more info)

warning: comparison is useless due to type limits
   --> /verif/kani/ntp_proto/ipfilter.rs:213:34
    |
213 |                       assert!(m >= $lo && m <= $hi);
    |  __________________________________^
214 | |                     assert!(sn.mask as u16 == m - $sub);
215 | |                     assert!(sn.addr == $want);
216 | |                 }
217 | |                 Err(_) => { assert!(m < $lo || m > $hi) }
    | |_______________________________________^
...
225 |   from_str_harness!(c31_tb_from_str_v6, "2001:db8::1", 0, 128, 0, IpAddr::V6(Ipv6Addr::new(0x2001, 0xdb8, 0, 0, 0, 0, 0, 1)));
    |   --------------------------------------------------------------------------------------------------------------------------- in this macro invocation
    |
    = note: this warning originates in the macro `from_str_harness` (in Nightly builds, run with -Z macro-backtrace for more info)

warning: `ntp-proto` (lib) generated 5 warnings
For more information about this error, try `rustc --explain E0428`.
error: could not compile `ntp-proto` (lib test) due to 1 previous error
error: /root/.kani/kani-0.68.0/toolchain/bin/cargo exited with status exit status: 101

*/
