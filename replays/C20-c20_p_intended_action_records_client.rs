// replay for property C20
// refuted obligation (Kani harness): server::verif::c20_p_intended_action_records_client  [/verif/kani/ntp_proto/server.rs]
// failed checks: This is a placeholder message; Kani doesn't support message formatted at runtime @ /home/runner/.rustup/toolchains/nightly-2026-08-21-x86_64-unknown-linux-gnu/lib/rustlib/src/rust/library/core/src/result.rs:1871
// re-run natively against the real code:  /verif/check C20 --replay /verif/replays/C20-c20_p_intended_action_records_client.rs
//meta {"property": "C20", "crate_dir": "ntp-proto", "harness": "server::verif::c20_p_intended_action_records_client", "harness_file": "/verif/kani/ntp_proto/server.rs", "features": [], "transform": true, "c_ffi": true}
// native replay: not-run
/// Test generated for harness `server::verif::c20_p_intended_action_records_client` 
///
/// Check for `assertion`: "This is a placeholder message; Kani doesn't support message formatted at runtime"
///
/// # Warning
///
/// Concrete playback tests combined with stubs or contracts is highly
/// experimental, and subject to change.
///
/// The original harness has stubs which are not applied to this test.
/// This may cause a mismatch of non-deterministic values if the stub
/// creates any non-deterministic value.
/// The execution path may also differ, which can be used to refine the stub
/// logic.

#[test]
fn kani_concrete_playback_c20_p_intended_action_records_client_3609172026672185660() {
    let concrete_vals: Vec<Vec<u8>> = vec![
        // 3ul
        vec![3, 0, 0, 0, 0, 0, 0, 0],
        // 5
        vec![5],
        // 5
        vec![5],
        // 5
        vec![5],
        // 1
        vec![1],
        // 0
        vec![0],
        // 0
        vec![0],
        // 999999999
        vec![255, 201, 154, 59],
        // 18446744073709551615ul
        vec![255, 255, 255, 255, 255, 255, 255, 255],
        // 18446744073709551615ul
        vec![255, 255, 255, 255, 255, 255, 255, 255],
    ];
    kani::concrete_playback_run(concrete_vals, c20_p_intended_action_records_client);
}

/* native run output:
error: unexpected argument '--no-assertion-reach-checks' found

  tip: to pass '--no-assertion-reach-checks' as a value, use '-- --no-assertion-reach-checks'

Usage: cargo-kani playback --unstable <UNSTABLE_FEATURE> [-- [TEST_ARGS]...]

For more information, try '--help'.

*/
