// replay for property C32
// refuted obligation (Kani harness): time_types::verif::c32_p_ptp_dur_div_i64  [/verif/kani/statime_base/time_types.rs]
// failed checks: attempt to divide with overflow @ statime-base/src/time_types.rs:248
// re-run natively against the real code:  /verif/check C32 --replay /verif/replays/C32-c32_p_ptp_dur_div_i64.rs
//meta {"property": "C32", "crate_dir": "statime-base", "harness": "time_types::verif::c32_p_ptp_dur_div_i64", "harness_file": "/verif/kani/statime_base/time_types.rs", "features": [], "transform": false, "c_ffi": false}
// native replay: passed-natively
/// Test generated for harness `time_types::verif::c32_p_ptp_dur_div_i64` 
///
/// Check for `cover`: "reachable"

#[test]
fn kani_concrete_playback_c32_p_ptp_dur_div_i64_7036751285337837071() {
    let concrete_vals: Vec<Vec<u8>> = vec![
        // 0
        vec![0, 0, 0, 0, 0, 0, 0, 0, 0, 0, 0, 0, 0, 0, 0, 0],
        // -1
        vec![255, 255, 255, 255, 255, 255, 255, 255],
    ];
    kani::concrete_playback_run(concrete_vals, c32_p_ptp_dur_div_i64);
}

/* native run output:
warning: use of an unstable feature
 --> <crate attribute>:1:12
  |
1 | #![feature(register_tool)]
  |            ^^^^^^^^^^^^^
  |
  = note: requested on the command line with `--force-warn unstable-features`

warning: `statime-base` (lib) generated 1 warning
   Compiling statime-base v2.0.0-alpha.20260715 (/repo/statime-base)
warning: `statime-base` (lib test) generated 1 warning (1 duplicate)
    Finished `test` profile [unoptimized + debuginfo] target(s) in 0.72s
     Running unittests src/lib.rs (/verif/build/playback/x86_64-unknown-linux-gnu/debug/build/statime-base/c9bc5351fd78dd8c/out/statime_base-c9bc5351fd78dd8c)

running 1 test
test time_types::verif::replay::kani_concrete_playback_c32_p_ptp_dur_div_i64_7036751285337837071 ... ok

test result: ok. 1 passed; 0 failed; 0 ignored; 0 measured; 9 filtered out; finished in 0.00s

   Doc-tests statime_base

running 0 tests

test result: ok. 0 passed; 0 failed; 0 ignored; 0 measured; 1 filtered out; finished in 0.00s


*/
