// replay for property C04
// refuted obligation (Kani harness): algorithm::kalman::verif::c04_b_update_clock_applies_vote_or_keeps_previous  [/verif/kani/ntp_proto/algorithm/kalman/mod.rs]
// failed checks: assertion failed: LEAPS.load(Relaxed) == 0 @ /verif/kani/ntp_proto/algorithm/kalman/mod.rs:570
// re-run natively against the real code:  /verif/check C04 --replay /verif/replays/C04-c04_b_update_clock_applies_vote_or_keeps_previous.rs
//meta {"property": "C04", "crate_dir": "ntp-proto", "harness": "algorithm::kalman::verif::c04_b_update_clock_applies_vote_or_keeps_previous", "harness_file": "/verif/kani/ntp_proto/algorithm/kalman/mod.rs", "features": [], "transform": true, "c_ffi": false}
// native replay: reproduced
/// Test generated for harness `algorithm::kalman::verif::c04_b_update_clock_applies_vote_or_keeps_previous` 
///
/// Check for `assertion`: "assertion failed: LEAPS.load(Relaxed) == 0"
///
/// # Warning
///
/// Concrete playback tests combined with stubs or contracts is highly
/// experimental, and subject to change.
///
/// The original harness has stubs which are not applied to this test.
/// This may cause a mismatch of non-deterministic values if the stub
/// creates any non-deterministic value.
/// The execution path may also differ, which can be used to refine the stub
/// logic.

#[test]
fn kani_concrete_playback_c04_b_update_clock_applies_vote_or_keeps_previous_4372463077288387748() {
    let concrete_vals: Vec<Vec<u8>> = vec![
        // 0
        vec![0],
        // 0
        vec![0],
        // 0
        vec![0],
        // 0
        vec![0],
        // 0
        vec![0],
        // 0
        vec![0],
        // 0
        vec![0],
        // 0
        vec![0],
        // 0ul
        vec![0, 0, 0, 0, 0, 0, 0, 0],
        // 0
        vec![0],
        // 0
        vec![0],
        // 0
        vec![0],
        // 0
        vec![0],
        // 0
        vec![0],
        // 0
        vec![0],
        // 0
        vec![0],
        // 4611686018423092928
        vec![192, 118, 190, 255, 255, 255, 255, 63],
        // -1
        vec![0, 0, 0, 0, 0, 0, 240, 191],
        // 0
        vec![0, 0, 0, 0, 0, 0, 0, 0],
        // 1
        vec![1],
        // 1
        vec![1],
        // 1
        vec![1],
        // 0
        vec![0, 0, 0, 0, 0, 0, 0, 0],
        // -0
        vec![0, 0, 0, 0, 0, 0, 0, 128],
        // +NaN
        vec![254, 255, 255, 0, 192, 0, 240, 127],
        // 0
        vec![0, 0, 0, 0, 0, 0, 0, 0],
        // 0
        vec![0, 0, 0, 0, 0, 0, 0, 0],
        // 0
        vec![0, 0, 0, 0, 0, 0, 0, 0],
        // 0
        vec![0, 0, 0, 0, 0, 0, 0, 0],
        // 2.247116e+307
        vec![0, 0, 0, 0, 0, 0, 192, 127],
        // -NaN
        vec![0, 0, 0, 0, 0, 0, 241, 255],
        // 0
        vec![0],
        // 0
        vec![0, 0, 0, 0, 0, 0, 0, 0],
        // 0
        vec![0, 0, 0, 0, 0, 0, 0, 0],
        // 160
        vec![160],
        // 255
        vec![255],
        // 0
        vec![0, 0, 0, 0, 0, 0, 0, 0],
    ];
    kani::concrete_playback_run(concrete_vals, c04_b_update_clock_applies_vote_or_keeps_previous);
}

/* native run output:
panicked at /verif/kani/ntp_proto/algorithm/kalman/mod.rs:576:9:
assertion failed: !c.in_startup
*/
