// replay for property C32
// refuted obligation (Kani harness): time_types::verif::c32_p_ptp_dur_div_i32  [/verif/kani/statime_base/time_types.rs]
// failed checks: attempt to divide with overflow @ statime-base/src/time_types.rs:248
// re-run natively against the real code:  /verif/check C32 --replay /verif/replays/C32-c32_p_ptp_dur_div_i32.rs
//meta {"property": "C32", "crate_dir": "statime-base", "harness": "time_types::verif::c32_p_ptp_dur_div_i32", "harness_file": "/verif/kani/statime_base/time_types.rs", "features": [], "transform": false, "c_ffi": false}
// native replay: not-run
/// Test generated for harness `time_types::verif::c32_p_ptp_dur_div_i32` 
///
/// Check for `cover`: "reachable"

#[test]
fn kani_concrete_playback_c32_p_ptp_dur_div_i32_18231731928065092960() {
    let concrete_vals: Vec<Vec<u8>> = vec![
        // 0
        vec![0, 0, 0, 0, 0, 0, 0, 0, 0, 0, 0, 0, 0, 0, 0, 0],
        // 1073741824
        vec![0, 0, 0, 64],
    ];
    kani::concrete_playback_run(concrete_vals, c32_p_ptp_dur_div_i32);
}

/* native run output:
error: unexpected argument '--no-assertion-reach-checks' found

  tip: to pass '--no-assertion-reach-checks' as a value, use '-- --no-assertion-reach-checks'

Usage: cargo-kani playback --unstable <UNSTABLE_FEATURE> [-- [TEST_ARGS]...]

For more information, try '--help'.

*/
