// replay for property C32
// refuted obligation (Kani harness): time_types::verif::c32_p_ptp_dur_div_i16  [/verif/kani/statime_base/time_types.rs]
// failed checks: attempt to divide with overflow @ statime-base/src/time_types.rs:248
// re-run natively against the real code:  /verif/check C32 --replay /verif/replays/C32-c32_p_ptp_dur_div_i16.rs
//meta {"property": "C32", "crate_dir": "statime-base", "harness": "time_types::verif::c32_p_ptp_dur_div_i16", "harness_file": "/verif/kani/statime_base/time_types.rs", "features": [], "transform": false, "c_ffi": false}
// native replay: not-run
/// Test generated for harness `time_types::verif::c32_p_ptp_dur_div_i16` 
///
/// Check for `assertion`: "attempt to divide with overflow"

#[test]
fn kani_concrete_playback_c32_p_ptp_dur_div_i16_11484954772115337367() {
    let concrete_vals: Vec<Vec<u8>> = vec![
        // -170141183460469231731687303715884105728
        vec![0, 0, 0, 0, 0, 0, 0, 0, 0, 0, 0, 0, 0, 0, 0, 128],
        // -1
        vec![255, 255],
    ];
    kani::concrete_playback_run(concrete_vals, c32_p_ptp_dur_div_i16);
}

/* native run output:
   Compiling statime-base v2.0.0-alpha.20260715 (/repo/statime-base)
error: cannot find macro `vec` in this scope
   --> /verif/build/replay-inc-21921/statime_base__time_types.rs:7:39
    |
  7 |     let concrete_vals: Vec<Vec<u8>> = vec![
    |                                       ^^^
    |
help: consider importing this macro
   --> /verif/kani/statime_base/time_types.rs:146:5
    |
146 +     use std::vec;
    |

error[E0425]: cannot find type `Vec` in this scope
   --> /verif/build/replay-inc-21921/statime_base__time_types.rs:7:24
    |
  7 |     let concrete_vals: Vec<Vec<u8>> = vec![
    |                        ^^^ not found in this scope
    |
help: consider importing this struct
   --> /verif/kani/statime_base/time_types.rs:146:5
    |
146 +     use std::vec::Vec;
    |

error[E0425]: cannot find type `Vec` in this scope
   --> /verif/build/replay-inc-21921/statime_base__time_types.rs:7:28
    |
  7 |     let concrete_vals: Vec<Vec<u8>> = vec![
    |                            ^^^ not found in this scope
    |
help: consider importing this struct
   --> /verif/kani/statime_base/time_types.rs:146:5
    |
146 +     use std::vec::Vec;
    |

warning: use of an unstable feature
 --> <crate attribute>:1:12
  |
1 | #![feature(register_tool)]
  |            ^^^^^^^^^^^^^
  |
  = note: requested on the command line with `--force-warn unstable-features`

For more information about this error, try `rustc --explain E0425`.
error: could not compile `statime-base` (lib test) due to 3 previous errors
warning: build failed, waiting for other jobs to finish...
warning: `statime-base` (lib) generated 1 warning
error: /root/.kani/kani-0.68.0/toolchain/bin/cargo exited with status exit status: 101

*/
