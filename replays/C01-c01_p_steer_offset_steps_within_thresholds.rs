// replay for property C01
// refuted obligation (Kani harness): algorithm::kalman::verif::c01_p_steer_offset_steps_within_thresholds  [/verif/kani/ntp_proto/algorithm/kalman/mod.rs]
// failed checks: assertion failed: x == raw(NtpDuration::from_seconds(change)) @ /verif/kani/ntp_proto/algorithm/kalman/mod.rs:215; assertion failed: spec_within(&sc.startup_step_panic_threshold, x) @ /verif/kani/ntp_proto/algorithm/kalman/mod.rs:217; assertion failed: spec_within(&sc.single_step_panic_threshold, x) @ /verif/kani/ntp_proto/algorithm/kalman/mod.rs:219; assertion failed: raw(c.timedata.accumulated_steps) == before_acc.saturating_add(abs) @ /verif/kani/ntp_proto/algorithm/kalman/mod.rs:221
// re-run natively against the real code:  /verif/check C01 --replay /verif/replays/C01-c01_p_steer_offset_steps_within_thresholds.rs
//meta {"property": "C01", "crate_dir": "ntp-proto", "harness": "algorithm::kalman::verif::c01_p_steer_offset_steps_within_thresholds", "harness_file": "/verif/kani/ntp_proto/algorithm/kalman/mod.rs", "features": [], "transform": true, "c_ffi": false}
// native replay: reproduced
/// Test generated for harness `algorithm::kalman::verif::c01_p_steer_offset_steps_within_thresholds` 
///
/// Check for `assertion`: "assertion failed: x == raw(NtpDuration::from_seconds(change))"
///
/// # Warning
///
/// Concrete playback tests combined with stubs or contracts is highly
/// experimental, and subject to change.
///
/// The original harness has stubs which are not applied to this test.
/// This may cause a mismatch of non-deterministic values if the stub
/// creates any non-deterministic value.
/// The execution path may also differ, which can be used to refine the stub
/// logic.

#[test]
fn kani_concrete_playback_c01_p_steer_offset_steps_within_thresholds_4531164498276055575() {
    let concrete_vals: Vec<Vec<u8>> = vec![
        // 0ul
        vec![0, 0, 0, 0, 0, 0, 0, 0],
        // 1
        vec![1],
        // 144115188075855871
        vec![255, 255, 255, 255, 255, 255, 255, 1],
        // 0
        vec![0],
        // 1
        vec![1],
        // 9223372036854775807
        vec![255, 255, 255, 255, 255, 255, 255, 127],
        // 0
        vec![0],
        // 1
        vec![1],
        // 9223372036854775807
        vec![255, 255, 255, 255, 255, 255, 255, 127],
        // 0
        vec![0],
        // 0
        vec![0],
        // 9223372036854775807
        vec![255, 255, 255, 255, 255, 255, 255, 127],
        // 0
        vec![0, 0, 0, 0, 0, 0, 0, 0],
        // -1.404448e+306
        vec![255, 255, 255, 255, 255, 255, 127, 255],
        // 3.893879e-308
        vec![255, 255, 127, 0, 0, 0, 28, 0],
        // 1
        vec![1],
        // 4.450148e-308
        vec![255, 255, 255, 255, 255, 255, 31, 0],
        // 1.780059e-307
        vec![255, 255, 255, 190, 255, 255, 63, 0],
        // -1.911324e-298
        vec![0, 0, 6, 0, 0, 0, 32, 130],
        // -1
        vec![255, 255, 255, 255, 255, 255, 255, 255],
        // 0
        vec![0, 0, 0, 0, 0, 0, 0, 0],
        // 0
        vec![0],
        // 0
        vec![0],
        // 0
        vec![0],
        // 0
        vec![0],
        // 0
        vec![0],
        // 0
        vec![0],
        // 0
        vec![0],
        // 0
        vec![0],
        // 1
        vec![1, 0, 0, 0, 0, 0, 0, 0],
    ];
    kani::concrete_playback_run(concrete_vals, c01_p_steer_offset_steps_within_thresholds);
}

/* native run output:
panicked at library/kani/src/concrete_playback.rs:66:5:
assertion `left == right` failed: Expected 1 bytes in the following det vals vec
*/
