// replay for property C01
// refuted obligation (Kani harness): algorithm::kalman::verif::c01_p_steer_offset_steps_within_thresholds  [/verif/kani/ntp_proto/algorithm/kalman/mod.rs]
// failed checks: assertion failed: spec_within(&sc.single_step_panic_threshold, x) @ /verif/kani/ntp_proto/algorithm/kalman/mod.rs:222
// re-run natively against the real code:  /verif/check C01 --replay /verif/replays/C01-c01_p_steer_offset_steps_within_thresholds.rs
//meta {"property": "C01", "crate_dir": "ntp-proto", "harness": "algorithm::kalman::verif::c01_p_steer_offset_steps_within_thresholds", "harness_file": "/verif/kani/ntp_proto/algorithm/kalman/mod.rs", "features": [], "transform": true, "c_ffi": false}
// native replay: not-run
/// Test generated for harness `algorithm::kalman::verif::c01_p_steer_offset_steps_within_thresholds` 
///
/// Check for `assertion`: "assertion failed: spec_within(&sc.single_step_panic_threshold, x)"
///
/// # Warning
///
/// Concrete playback tests combined with stubs or contracts is highly
/// experimental, and subject to change.
///
/// The original harness has stubs which are not applied to this test.
/// This may cause a mismatch of non-deterministic values if the stub
/// creates any non-deterministic value.
/// The execution path may also differ, which can be used to refine the stub
/// logic.

#[test]
fn kani_concrete_playback_c01_p_steer_offset_steps_within_thresholds_3639576329169415144() {
    let concrete_vals: Vec<Vec<u8>> = vec![
        // 0ul
        vec![0, 0, 0, 0, 0, 0, 0, 0],
        // 0
        vec![0],
        // 1
        vec![1],
        // 0
        vec![0, 0, 0, 0, 0, 0, 0, 0],
        // 0
        vec![0],
        // 0
        vec![0],
        // 0
        vec![0],
        // 0
        vec![0],
        // 0
        vec![0],
        // 0
        vec![0, 0, 0, 0, 0, 0, 0, 0],
        // 0
        vec![0, 0, 0, 0, 0, 0, 0, 0],
        // -9
        vec![5, 0, 0, 0, 0, 0, 34, 192],
        // 7.458341e-155
        vec![0, 0, 0, 0, 0, 0, 240, 31],
        // 0
        vec![0],
        // 2.172924e-311
        vec![255, 255, 255, 255, 255, 3, 0, 0],
        // -4.019910e-310
        vec![240, 239, 3, 2, 0, 74, 0, 128],
        // -3.940201e+115
        vec![0, 0, 0, 0, 0, 0, 240, 215],
        // -9223372036854775808
        vec![0, 0, 0, 0, 0, 0, 0, 128],
        // 0
        vec![0],
        // 0
        vec![0],
        // 0
        vec![0],
        // 0
        vec![0],
        // 0
        vec![0],
        // 0
        vec![0],
        // 0
        vec![0],
        // 0
        vec![0],
    ];
    kani::concrete_playback_run(concrete_vals, c01_p_steer_offset_steps_within_thresholds);
}

/* native run output:
error: unexpected argument '--no-assertion-reach-checks' found

  tip: to pass '--no-assertion-reach-checks' as a value, use '-- --no-assertion-reach-checks'

Usage: cargo-kani playback --unstable <UNSTABLE_FEATURE> [-- [TEST_ARGS]...]

For more information, try '--help'.

*/
