// Field-level constructors / observers for packet types, used by the harnesses of source.rs
// (C07-C13): see `FromParts` / `Parts` in common.rs. No harness in this file.
use super::super::*;
use crate::verif_common::{EfLists, FromParts, Parts, V3V4Parts};

impl FromParts<V3V4Parts> for NtpHeaderV3V4 {
    fn from_parts(p: V3V4Parts) -> Self {
        NtpHeaderV3V4 {
            leap: p.leap,
            mode: p.mode,
            stratum: p.stratum,
            poll: p.poll,
            precision: p.precision,
            root_delay: p.root_delay,
            root_dispersion: p.root_dispersion,
            reference_id: p.reference_id,
            reference_timestamp: p.reference_timestamp,
            origin_timestamp: p.origin_timestamp,
            receive_timestamp: p.receive_timestamp,
            transmit_timestamp: p.transmit_timestamp,
        }
    }
}
impl Parts<V3V4Parts> for NtpHeaderV3V4 {
    fn parts(&self) -> V3V4Parts {
        V3V4Parts {
            leap: self.leap,
            mode: self.mode,
            stratum: self.stratum,
            poll: self.poll,
            precision: self.precision,
            root_delay: self.root_delay,
            root_dispersion: self.root_dispersion,
            reference_id: self.reference_id,
            reference_timestamp: self.reference_timestamp,
            origin_timestamp: self.origin_timestamp,
            receive_timestamp: self.receive_timestamp,
            transmit_timestamp: self.transmit_timestamp,
        }
    }
}
/// a decoded packet = header + the three extension-field lists (the MAC is never read by source.rs)
impl FromParts<(NtpHeader, EfLists)> for NtpPacket<'static> {
    fn from_parts(p: (NtpHeader, EfLists)) -> Self {
        let (header, (authenticated, encrypted, untrusted)) = p;
        NtpPacket { header, efdata: ExtensionFieldData { authenticated, encrypted, untrusted }, mac: None }
    }
}
/// (#authenticated, #encrypted, #untrusted)
impl Parts<(usize, usize, usize)> for NtpPacket<'_> {
    fn parts(&self) -> (usize, usize, usize) {
        (self.efdata.authenticated.len(), self.efdata.encrypted.len(), self.efdata.untrusted.len())
    }
}
impl FromParts<(NtpTimestamp, Option<[u8; 32]>)> for RequestIdentifier {
    fn from_parts(p: (NtpTimestamp, Option<[u8; 32]>)) -> Self {
        RequestIdentifier { expected_origin_timestamp: p.0, uid: p.1 }
    }
}
impl Parts<(NtpTimestamp, Option<[u8; 32]>)> for RequestIdentifier {
    fn parts(&self) -> (NtpTimestamp, Option<[u8; 32]>) {
        (self.expected_origin_timestamp, self.uid)
    }
}
