// Contract harnesses for ntp-proto/src/packet/v5/server_reference_id.rs (child module: sees private items).
// Property C34: NTPv5 Bloom filters are transferred faithfully; no false negatives.
#![allow(unused_imports)]
use super::*;

// field-level constructors/observers used by the source.rs / system.rs harnesses (see common.rs FromParts/Parts)
#[path = "source_parts.rs"]
mod source_parts;

// ---------------------------------------------------------------- RemoteBloomFilter

// Type invariant established by `new` and preserved by every method (checked below):
// chunk divides 512, is a multiple of 4, 4 <= chunk <= 512; next_to_request < 512 and chunk-aligned;
// an outstanding request is always for the chunk at next_to_request.
fn wf(r: &RemoteBloomFilter) -> bool {
    r.chunk_size >= 4
        && r.chunk_size <= 512
        && r.chunk_size % 4 == 0
        && 512 % r.chunk_size == 0
        && r.next_to_request < 512
        && r.next_to_request % r.chunk_size == 0
        && match r.last_requested {
            Some((off, _)) => off == r.next_to_request,
            None => true,
        }
}

fn any_wf() -> RemoteBloomFilter {
    any_wf_chunk(kani::any())
}

// same, with the chunk size fixed by the caller (the copy in handle_response then has a constant
// length, which CBMC needs; the eight harness instances cover every size that `new` accepts)
fn any_wf_chunk(chunk: u16) -> RemoteBloomFilter {
    let r = RemoteBloomFilter {
        filter: BloomFilter(kani::any()),
        chunk_size: chunk,
        last_requested: if kani::any() { Some((kani::any(), NtpClientCookie(kani::any()))) } else { None },
        next_to_request: kani::any(),
        is_filled: kani::any(),
    };
    kani::assume(wf(&r));
    r
}

// new: accepted exactly for chunk sizes that are multiples of 4, in 4..=512 and divide 512; the
// fresh filter is empty, nothing outstanding, not filled, invariant holds. Every u16.
#[kani::proof]
fn c34_p_new() {
    let c: u16 = kani::any();
    let ok = c % 4 == 0 && c >= 4 && c <= 512 && 512 % c == 0;
    match RemoteBloomFilter::new(c) {
        Some(r) => {
            assert!(ok);
            assert!(wf(&r));
            assert!(r.chunk_size == c && r.next_to_request == 0 && !r.is_filled && r.last_requested.is_none());
            let i: usize = kani::any();
            kani::assume(i < 512);
            assert!(r.filter.0[i] == 0);
            assert!(r.full_filter().is_none());
        }
        None => { assert!(!ok) }
    }
    kani::cover!(ok && c == 512, "512 accepted");
    kani::cover!(ok && c == 4, "4 accepted");
    kani::cover!(!ok && c % 4 == 0 && c < 512 && c > 0, "non-divisor rejected");
}

// next_request: for every state satisfying the invariant the `expect` is unreachable (no panic);
// the request is for (chunk_size, next_to_request); the only state change is recording the
// outstanding request with the given cookie; invariant preserved.
#[kani::proof]
fn c34_p_next_request() {
    let mut r = any_wf();
    let cookie = NtpClientCookie(kani::any());
    let (chunk, next, filled, before) = (r.chunk_size, r.next_to_request, r.is_filled, r.filter);
    let req = r.next_request(cookie);
    assert!(req.payload_len() == chunk && req.offset() == next);
    assert!(req.offset() as usize + req.payload_len() as usize <= 512);
    assert!(r.last_requested == Some((next, cookie)));
    assert!(r.chunk_size == chunk && r.next_to_request == next && r.is_filled == filled);
    let i: usize = kani::any();
    kani::assume(i < 512);
    assert!(r.filter.0[i] == before.0[i]);
    assert!(wf(&r));
    kani::cover!(next == 508 && chunk == 4, "last small chunk reachable");
}

// handle_response: accepted exactly when a request is outstanding, the cookie matches and the
// answer has exactly chunk_size bytes; then exactly filter[offset..offset+chunk] is overwritten
// with the answer, the cursor advances by one chunk (mod 512), nothing is outstanding any more,
// is_filled is set exactly when the cursor wrapped; otherwise NOTHING changes. Every invariant
// state, every cookie, every answer of every length 0..=512 (also lengths not multiple of 4).
fn handle_response_contract(chunk_size: u16) {
    let mut r = any_wf_chunk(chunk_size);
    let cookie = NtpClientCookie(kani::any());
    let buf: [u8; 512] = kani::any();
    let len: usize = kani::any();
    kani::assume(len <= 512);
    let resp = ReferenceIdResponse::decode(&buf[..len]);
    let (chunk, next, filled, before, outstanding) = (r.chunk_size, r.next_to_request, r.is_filled, r.filter, r.last_requested);
    let res = r.handle_response(cookie, &resp);
    let should = match outstanding {
        Some((_, c)) => c == cookie && len == chunk as usize,
        None => false,
    };
    assert!(res.is_ok() == should);
    let i: usize = kani::any();
    kani::assume(i < 512);
    if should {
        let off = outstanding.unwrap().0 as usize;
        if i >= off && i < off + chunk as usize {
            assert!(r.filter.0[i] == buf[i - off], "chunk bytes are the answer");
        } else {
            assert!(r.filter.0[i] == before.0[i], "bytes outside the chunk untouched");
        }
        assert!(r.next_to_request == (next + chunk) % 512);
        assert!(r.last_requested.is_none());
        assert!(r.is_filled == (filled || r.next_to_request == 0));
        assert!(r.chunk_size == chunk);
    } else {
        assert!(r.filter.0[i] == before.0[i]);
        assert!(r.next_to_request == next && r.last_requested == outstanding && r.is_filled == filled && r.chunk_size == chunk);
        match (outstanding, res) {
            (None, Err(ResponseHandlingError::NotAwaitingResponse)) => {}
            (Some((_, c)), Err(ResponseHandlingError::MismatchedCookie)) => { assert!(c != cookie) }
            (Some((_, c)), Err(ResponseHandlingError::MismatchedLength)) => { assert!(c == cookie && len != chunk as usize) }
            _ => { assert!(false, "error kind matches the reason") }
        }
    }
    assert!(wf(&r));
    kani::cover!(should && r.is_filled && !filled, "wrap reachable");
    kani::cover!(!should && outstanding.is_some() && len == chunk as usize, "stale cookie reachable");
}

macro_rules! per_chunk {
    ($f:ident: $($name:ident = $c:expr),*) => { $(
        #[kani::proof]
        fn $name() {
            $f($c);
        }
    )* };
}
per_chunk!(handle_response_contract: c34_p_handle_response_4 = 4);
per_chunk!(handle_response_contract: c34_p_handle_response_8 = 8);
per_chunk!(handle_response_contract: c34_p_handle_response_16 = 16);
per_chunk!(handle_response_contract: c34_p_handle_response_32 = 32);
per_chunk!(handle_response_contract: c34_p_handle_response_64 = 64);
per_chunk!(handle_response_contract: c34_p_handle_response_128 = 128);
per_chunk!(handle_response_contract: c34_p_handle_response_256 = 256);
per_chunk!(handle_response_contract: c34_p_handle_response_512 = 512);

// chunks of the WRONG but CONSTANT length (cheap even for an implementation that copies by the
// received length, where the symbolic-length contract above makes CBMC run out of time): an answer
// shorter or longer than the requested chunk -- including an empty one -- with the right cookie for
// the outstanding request is rejected with MismatchedLength and leaves everything as it was.
fn wrong_length_rejected(chunk_size: u16, len: usize) {
    let mut r = any_wf_chunk(chunk_size);
    let cookie = NtpClientCookie(kani::any());
    r.last_requested = Some((r.next_to_request, cookie));
    let (next, filled, before) = (r.next_to_request, r.is_filled, r.filter);
    let buf = [0xA5u8; 516];
    let resp = ReferenceIdResponse::decode(&buf[..len]);
    let res = r.handle_response(cookie, &resp);
    assert!(matches!(res, Err(ResponseHandlingError::MismatchedLength)));
    let i: usize = kani::any();
    kani::assume(i < 512);
    assert!(r.filter.0[i] == before.0[i]);
    assert!(r.next_to_request == next && r.is_filled == filled && r.last_requested == Some((next, cookie)));
    assert!(wf(&r));
}
macro_rules! wrong_len {
    ($($name:ident = ($c:expr, $l:expr)),*) => { $(
        #[kani::proof]
        fn $name() {
            wrong_length_rejected($c, $l);
            kani::cover!(true, "reachable");
        }
    )* };
}
wrong_len!(c34_p_wrong_length_4_empty = (4, 0));
wrong_len!(c34_p_wrong_length_4_long = (4, 8));
wrong_len!(c34_p_wrong_length_16_short = (16, 12));
wrong_len!(c34_p_wrong_length_64_short = (64, 60));
wrong_len!(c34_p_wrong_length_512_short = (512, 508));
wrong_len!(c34_p_wrong_length_512_empty = (512, 0));
wrong_len!(c34_p_wrong_length_512_long = (512, 516));


// advance_next_to_request on its own, every invariant state.
#[kani::proof]
fn c34_p_advance() {
    let mut r = any_wf();
    r.last_requested = None;
    let (chunk, next, filled) = (r.chunk_size, r.next_to_request, r.is_filled);
    r.advance_next_to_request();
    assert!(r.next_to_request as u32 == (next as u32 + chunk as u32) % 512);
    assert!(r.is_filled == (filled || r.next_to_request == 0));
    assert!(wf(&r));
    kani::cover!(r.next_to_request == 0, "wrap reachable");
}

// full_filter: Some(the filter) exactly when is_filled.
#[kani::proof]
fn c34_p_full_filter() {
    let r = any_wf();
    match r.full_filter() {
        Some(f) => {
            assert!(r.is_filled);
            let i: usize = kani::any();
            kani::assume(i < 512);
            assert!(f.0[i] == r.filter.0[i]);
        }
        None => { assert!(!r.is_filled) }
    }
    kani::cover!(r.full_filter().is_some(), "filled reachable");
}

// Inductive step of the transfer lemma, every chunk size and position at once: if the client's
// filter agrees with the server's filter S on every byte below the cursor, then after one
// request / (real server answer via to_response) / accepted response it agrees on every byte below
// the new cursor, and when the cursor wraps (all 512/chunk requests answered) the client holds
// exactly S and reports it through full_filter. (The quantifier over bytes is discharged with one
// arbitrary index i: the step for byte i only needs the hypothesis for byte i.)
fn transfer_step(chunk_size: u16) {
    let mut r = any_wf_chunk(chunk_size);
    let server = BloomFilter(kani::any());
    let i: usize = kani::any();
    kani::assume(i < 512);
    kani::assume(!(i < r.next_to_request as usize) || r.filter.0[i] == server.0[i]);
    let cookie = NtpClientCookie(kani::any());
    let req = r.next_request(cookie);
    let resp = req.to_response(&server).expect("server answers a well-formed request");
    r.handle_response(cookie, &resp).expect("the answer to the outstanding request is accepted");
    if r.next_to_request == 0 {
        assert!(r.filter.0[i] == server.0[i], "after the last chunk the client holds the server's filter");
        assert!(r.full_filter().is_some());
    } else {
        assert!(!(i < r.next_to_request as usize) || r.filter.0[i] == server.0[i]);
    }
    kani::cover!(r.next_to_request == 0, "last chunk reachable");
    // (with chunk 512 there is no middle chunk)
    kani::cover!(chunk_size == 512 || (r.next_to_request != 0 && i < r.next_to_request as usize), "middle chunk reachable");
}

per_chunk!(transfer_step: c34_p_transfer_step_4 = 4);
per_chunk!(transfer_step: c34_p_transfer_step_8 = 8);
per_chunk!(transfer_step: c34_p_transfer_step_16 = 16);
per_chunk!(transfer_step: c34_p_transfer_step_32 = 32);
per_chunk!(transfer_step: c34_p_transfer_step_64 = 64);
per_chunk!(transfer_step: c34_p_transfer_step_128 = 128);
per_chunk!(transfer_step: c34_p_transfer_step_256 = 256);
per_chunk!(transfer_step: c34_p_transfer_step_512 = 512);

// ---------------------------------------------------------------- BloomFilter

fn any_id() -> ServerId {
    let raw: [u16; 10] = kani::any();
    let mut ids = [U12(0); 10];
    let mut k = 0;
    while k < 10 {
        // type invariant of U12 (established by TryFrom / the Standard distribution)
        kani::assume(raw[k] < 4096);
        ids[k] = U12(raw[k]);
        k += 1;
    }
    ServerId(ids)
}

// No false negatives: after add_id(id), contains_id(id); bits only get set (monotone), so every id
// contained before is still contained. Every filter content, every pair of ids.
#[kani::proof]
#[kani::unwind(12)]
fn c34_p_add_id_contains() {
    let mut f = BloomFilter(kani::any());
    let before = f;
    let id = any_id();
    let other = any_id();
    let had_other = f.contains_id(&other);
    f.add_id(&id);
    assert!(f.contains_id(&id), "no false negative");
    assert!(!had_other || f.contains_id(&other), "membership is monotone under add_id");
    let i: usize = kani::any();
    kani::assume(i < 512);
    assert!(f.0[i] & before.0[i] == before.0[i], "bits are only ever set");
    // and only bits named by the id are set
    let bit: u8 = kani::any();
    kani::assume(bit < 8);
    if f.0[i] & (1 << bit) != 0 && before.0[i] & (1 << bit) == 0 {
        let mut named = false;
        let mut k = 0;
        while k < 10 {
            if id.0[k].0 as usize == i * 8 + bit as usize {
                named = true;
            }
            k += 1;
        }
        assert!(named, "only the id's bits are set");
    }
    kani::cover!(!before.contains_id(&id), "id was new");
}

// byte_and_mask: index < 512 and single-bit mask for every 12-bit value.
#[kani::proof]
fn c34_p_byte_and_mask() {
    let v: u16 = kani::any();
    kani::assume(v < 4096);
    let (idx, mask) = U12(v).byte_and_mask();
    assert!(idx < 512 && mask.count_ones() == 1);
    assert!(idx * 8 + mask.trailing_zeros() as usize == v as usize);
    assert!(U12::try_from(v).is_ok());
    let w: u16 = kani::any();
    assert!(U12::try_from(w).is_ok() == (w < 4096));
    kani::cover!(idx == 511, "last byte reachable");
}

// add (union): the result is the bytewise OR, so membership is monotone under add:
// contains_id(id) in either operand implies contains_id(id) in the union.
#[kani::proof]
#[kani::unwind(513)]
fn c34_p_add_union_monotone() {
    let mut f = BloomFilter(kani::any());
    let before = f;
    let g = BloomFilter(kani::any());
    f.add(&g);
    let i: usize = kani::any();
    kani::assume(i < 512);
    assert!(f.0[i] == before.0[i] | g.0[i]);
    // membership of one arbitrary index (contains_id is the conjunction over the id's indices)
    let v: u16 = kani::any();
    kani::assume(v < 4096);
    assert!(!(before.is_set(U12(v)) || g.is_set(U12(v))) || f.is_set(U12(v)));
    kani::cover!(f.0[i] != before.0[i], "bits added");
}

// contains_id is exactly the conjunction of is_set over the id's ten indices.
#[kani::proof]
#[kani::unwind(12)]
fn c34_p_contains_is_conjunction() {
    let f = BloomFilter(kani::any());
    let id = any_id();
    let mut all = true;
    let mut k = 0;
    while k < 10 {
        if !f.is_set(id.0[k]) {
            all = false;
        }
        k += 1;
    }
    assert!(f.contains_id(&id) == all);
    kani::cover!(all, "member reachable");
    kani::cover!(!all, "non-member reachable");
}

// ---------------------------------------------------------------- server side: ReferenceIdRequest::to_response

// The server answers a chunk request with exactly the requested bytes or not at all: for every
// request the decoder can produce (offset = any u16, payload_len = any field length 2..=1024) and
// every filter: Some(bytes) exactly when offset + payload_len <= 512, and then
// bytes == filter[offset .. offset + payload_len].
#[kani::proof]
fn c34_p_to_response_exact_or_none() {
    let msg: [u8; 1024] = kani::any();
    let len: usize = kani::any();
    kani::assume(len >= 2 && len <= 1024);
    let req = ReferenceIdRequest::decode(&msg[..len]).expect("two bytes suffice");
    assert!(req.payload_len() as usize == len && req.offset() == u16::from_be_bytes([msg[0], msg[1]]));
    let filter = BloomFilter(kani::any());
    let in_range = req.offset() as usize + len <= 512;
    match req.to_response(&filter) {
        Some(resp) => {
            assert!(in_range);
            assert!(resp.bytes().len() == len);
            let j: usize = kani::any();
            kani::assume(j < len);
            assert!(resp.bytes()[j] == filter.0[req.offset() as usize + j], "answer is the requested slice");
        }
        None => { assert!(!in_range) }
    }
    kani::cover!(in_range && len == 512, "whole filter reachable");
    kani::cover!(!in_range && req.offset() < 512, "overlong request reachable");
}

// ---------------------------------------------------------------- canaries

// FALSE: a response with a stale cookie is accepted.
#[kani::proof]
fn c34_canary_stale_cookie_accepted() {
    let mut r = any_wf_chunk(64);
    let buf: [u8; 512] = kani::any();
    let cookie = NtpClientCookie(kani::any());
    kani::assume(matches!(r.last_requested, Some((_, c)) if c != cookie));
    let resp = ReferenceIdResponse::decode(&buf[..r.chunk_size as usize]);
    assert!(r.handle_response(cookie, &resp).is_ok());
}

// FALSE: an id never added is never reported (Bloom filters do have false positives).
#[kani::proof]
#[kani::unwind(12)]
fn c34_canary_no_false_positives() {
    let mut f = BloomFilter::new();
    let id = any_id();
    let other = any_id();
    kani::assume(id.0[0].0 != other.0[0].0);
    f.add_id(&id);
    assert!(!f.contains_id(&other));
}

#[cfg(all(kani, test))]
mod replay {
    use super::*;
    include!(concat!(env!("VERIF_REPLAY_DIR"), "/ntp_proto__packet__v5__server_reference_id.rs"));
}
