// Field-level constructors / observers for the Bloom-filter types, used by the harnesses of
// source.rs / system.rs (C33, C07): see `FromParts` / `Parts` in common.rs. No harness in this file.
use super::super::*;
use crate::verif_common::{FromParts, Parts};

/// ten 12-bit indices. Type invariant of ServerId (established by ServerId::new): every entry
/// < 4096, sorted ascending, pairwise distinct -- callers of this constructor must assume it.
impl FromParts<[u16; 10]> for ServerId {
    fn from_parts(p: [u16; 10]) -> Self {
        ServerId([U12(p[0]), U12(p[1]), U12(p[2]), U12(p[3]), U12(p[4]), U12(p[5]), U12(p[6]), U12(p[7]), U12(p[8]), U12(p[9])])
    }
}
impl Parts<[u16; 10]> for ServerId {
    fn parts(&self) -> [u16; 10] {
        let s = &self.0;
        [s[0].0, s[1].0, s[2].0, s[3].0, s[4].0, s[5].0, s[6].0, s[7].0, s[8].0, s[9].0]
    }
}
impl FromParts<[u8; 512]> for BloomFilter {
    fn from_parts(p: [u8; 512]) -> Self {
        BloomFilter(p)
    }
}
/// (chunk_size, last_requested, next_to_request, is_filled); the filter bytes are read through
/// `full_filter()` / compared separately
pub type RemoteBloomState = (u16, Option<(u16, NtpClientCookie)>, u16, bool);
impl Parts<RemoteBloomState> for RemoteBloomFilter {
    fn parts(&self) -> RemoteBloomState {
        (self.chunk_size, self.last_requested, self.next_to_request, self.is_filled)
    }
}
impl Parts<BloomFilter> for RemoteBloomFilter {
    fn parts(&self) -> BloomFilter {
        self.filter
    }
}
impl FromParts<(BloomFilter, RemoteBloomState)> for RemoteBloomFilter {
    fn from_parts(p: (BloomFilter, RemoteBloomState)) -> Self {
        let (filter, (chunk_size, last_requested, next_to_request, is_filled)) = p;
        RemoteBloomFilter { filter, chunk_size, last_requested, next_to_request, is_filled }
    }
}
