// Contract harnesses for ntp-proto/src/packet/v5/mod.rs (child module: sees private items).
// Properties: C18 (NTPv5 header builders), C23/C22 (NtpHeaderV5::deserialize is total),
// C24 (NTPv5 header round trip).
#![allow(unused_imports, dead_code)]
use super::*;
use crate::packet::verif::{
    any_dur, any_efdata, any_leap, any_mac, any_server_info, any_ts, pick_server_cookie, rd_value, server_cookie_stub, root_dispersion_uf, spec_uid_echo,
    spec_v5_time_fields, with_draft, VClock, EF,
};
use crate::packet::{NtpHeader, NtpPacket};
use std::borrow::Cow;
use std::sync::atomic::{AtomicU64, Ordering::Relaxed};

// ---------------------------------------------------------------- generators

pub(crate) fn any_mode5() -> NtpMode {
    if kani::any() {
        NtpMode::Request
    } else {
        NtpMode::Response
    }
}
pub(crate) fn any_timescale() -> NtpTimescale {
    match kani::any::<u8>() {
        0 => NtpTimescale::Utc,
        1 => NtpTimescale::Tai,
        2 => NtpTimescale::Ut1,
        _ => NtpTimescale::LeapSmearedUtc,
    }
}
/// every value of the NTPv5 header type
pub(crate) fn any_header_v5() -> NtpHeaderV5 {
    NtpHeaderV5 {
        leap: any_leap(),
        mode: any_mode5(),
        stratum: kani::any(),
        poll: PollInterval::from_byte(kani::any()),
        precision: kani::any(),
        timescale: any_timescale(),
        era: NtpEra(kani::any()),
        flags: NtpFlags { synchronized: kani::any(), interleaved_mode: kani::any(), authnak: kani::any() },
        root_delay: any_dur(),
        root_dispersion: any_dur(),
        server_cookie: NtpServerCookie(kani::any()),
        client_cookie: NtpClientCookie(kani::any()),
        receive_timestamp: any_ts(),
        transmit_timestamp: any_ts(),
    }
}

pub(crate) fn client_cookie_stub() -> NtpClientCookie {
    NtpClientCookie(kani::any())
}

fn flags_are(f: NtpFlags, synchronized: bool, authnak: bool) -> bool {
    f.synchronized == synchronized && !f.interleaved_mode && f.authnak == authnak
}

// ================================================================ C18: NTPv5 header builders

/// post<=statement: response mode; client cookie and poll echoed; receive == reception time;
/// transmit == clock reading; stratum / leap / root delay / precision from the server snapshot;
/// `synchronized` flag <=> stratum < 16; nothing else of the request is reflected.
#[kani::proof]
#[kani::stub(crate::packet::v5::NtpServerCookie::new_random, server_cookie_stub)]
#[kani::stub(crate::system::TimeSnapshot::root_dispersion, root_dispersion_uf)]
fn c18_p_v5_header_timestamp_response() {
    let info = any_server_info(false);
    let req = any_header_v5();
    let recv = any_ts();
    let clock = VClock(any_ts());
    let sc = pick_server_cookie();
    let rd = rd_value();
    let r = NtpHeaderV5::timestamp_response(&info, req, recv, &clock);
    assert!(r.mode == NtpMode::Response);
    assert!(r.client_cookie == req.client_cookie);
    assert!(r.poll == req.poll);
    assert!(r.receive_timestamp == recv);
    assert!(r.transmit_timestamp == clock.0);
    assert!(r.stratum == info.ntp_snapshot.stratum);
    assert!(r.leap == info.time_snapshot.leap_indicator);
    assert!(r.root_delay == info.time_snapshot.root_delay);
    assert!(r.root_dispersion == rd);
    assert!(r.precision == info.time_snapshot.precision.log2());
    assert!(flags_are(r.flags, info.ntp_snapshot.stratum < 16, false));
    assert!(r.timescale == NtpTimescale::Utc && r.era == NtpEra(0));
    assert!(r.server_cookie == sc);
    // non-reflection
    let mut req2 = any_header_v5();
    req2.client_cookie = req.client_cookie;
    req2.poll = req.poll;
    let r2 = NtpHeaderV5::timestamp_response(&info, req2, recv, &clock);
    assert!(r2 == r);
    kani::cover!(req.mode == NtpMode::Response && r.stratum == 16, "reachable");
}

fn check_kiss_v5(r: NtpHeaderV5, req: NtpHeaderV5, sc: NtpServerCookie) {
    assert!(r.mode == NtpMode::Response);
    assert!(r.client_cookie == req.client_cookie);
    assert!(r.stratum == 0);
    // no server timestamps
    assert!(r.receive_timestamp == NtpTimestamp::from_bits([0; 8]));
    assert!(r.transmit_timestamp == NtpTimestamp::from_bits([0; 8]));
    assert!(r.server_cookie == sc);
    // nothing of the server's state, nothing else of the request
    assert!(r.root_delay == NtpDuration::from_bits([0; 8]));
    assert!(r.root_dispersion == NtpDuration::from_bits([0; 8]));
    assert!(r.precision == 0 && r.leap == NtpLeapIndicator::NoWarning);
    assert!(r.timescale == NtpTimescale::Utc && r.era == NtpEra(0));
}

/// RATE: kiss shape + poll is the request's poll plus one (saturating): NTPv5 signals the
/// rate limit through a larger poll value.
#[kani::proof]
#[kani::stub(crate::packet::v5::NtpServerCookie::new_random, server_cookie_stub)]
fn c18_p_v5_header_rate_limit_response() {
    let req = any_header_v5();
    let sc = pick_server_cookie();
    let r = NtpHeaderV5::rate_limit_response(req);
    check_kiss_v5(r, req, sc);
    assert!(flags_are(r.flags, false, false));
    assert!(r.poll.as_log() as i16 == core::cmp::min(req.poll.as_log() as i16 + 1, 127));
    let mut req2 = any_header_v5();
    req2.client_cookie = req.client_cookie;
    req2.poll = req.poll;
    assert!(NtpHeaderV5::rate_limit_response(req2) == r);
    kani::cover!(req.poll == PollInterval::NEVER, "saturating case reachable");
}

/// DENY: kiss shape + poll == NEVER (the NTPv5 encoding of DENY).
#[kani::proof]
#[kani::stub(crate::packet::v5::NtpServerCookie::new_random, server_cookie_stub)]
fn c18_p_v5_header_deny_response() {
    let req = any_header_v5();
    let sc = pick_server_cookie();
    let r = NtpHeaderV5::deny_response(req);
    check_kiss_v5(r, req, sc);
    assert!(flags_are(r.flags, false, false));
    assert!(r.poll == PollInterval::NEVER);
    let mut req2 = any_header_v5();
    req2.client_cookie = req.client_cookie;
    assert!(NtpHeaderV5::deny_response(req2) == r);
    kani::cover!(req.stratum != 0, "reachable");
}

/// NTS-NAK: kiss shape + authnak flag.
#[kani::proof]
#[kani::stub(crate::packet::v5::NtpServerCookie::new_random, server_cookie_stub)]
fn c18_p_v5_header_nts_nak_response() {
    let req = any_header_v5();
    let sc = pick_server_cookie();
    let r = NtpHeaderV5::nts_nak_response(req);
    check_kiss_v5(r, req, sc);
    assert!(flags_are(r.flags, false, true));
    let mut req2 = any_header_v5();
    req2.client_cookie = req.client_cookie;
    assert!(NtpHeaderV5::nts_nak_response(req2) == r);
    kani::cover!(req.flags.authnak == false, "reachable");
}

/// canary: a time answer does NOT echo the request's server cookie (false claim: it does).
#[kani::proof]
#[kani::stub(crate::packet::v5::NtpServerCookie::new_random, server_cookie_stub)]
#[kani::stub(crate::system::TimeSnapshot::root_dispersion, root_dispersion_uf)]
fn c18_canary_v5_header_reflects_server_cookie() {
    let info = any_server_info(false);
    let req = any_header_v5();
    let _ = pick_server_cookie();
    let r = NtpHeaderV5::timestamp_response(&info, req, any_ts(), &VClock(any_ts()));
    assert!(r.server_cookie == req.server_cookie);
}

// ================================================================ C18: NTPv5 packet-level builders
// (bounded: each request field list <= 2 fields, payloads <= 4 bytes)

/// NTPv5, shaped request (see packet::verif::shaped_efdata): time answer = unique identifiers
/// of the unauthenticated and authenticated parts + the answered reference-id window (4 bytes at
/// offset 8 of the server's filter) + one draft identification, in request order; KISS answers =
/// the unique identifiers + draft identification; nothing else.
#[kani::proof]
#[kani::unwind(26)]
#[kani::stub(crate::system::TimeSnapshot::root_dispersion, root_dispersion_uf)]
#[kani::stub(crate::packet::v5::NtpServerCookie::new_random, server_cookie_stub)]
fn c18_tb_v5_packet_shaped_request() {
    let b: [[u8; 4]; 6] = kani::any();
    let t: u16 = kani::any();
    let header = any_header_v5();
    let mk = || NtpPacket { header: NtpHeader::V5(header), efdata: crate::packet::verif::shaped_efdata(&b, t), mac: None };
    let uid_u = EF::UniqueIdentifier(Cow::Borrowed(&b[0][..]));
    let uid_a = EF::UniqueIdentifier(Cow::Borrowed(&b[3][..]));
    let draft = EF::DraftIdentification(Cow::Borrowed(DRAFT_VERSION));
    let info = any_server_info(true);
    let filter = info.ntp_snapshot.bloom_filter;
    let (recv, clock, _rd) = (any_ts(), VClock(any_ts()), rd_value());
    let _ = pick_server_cookie();
    let r = NtpPacket::timestamp_response(info, mk(), recv, &clock);
    assert!(r.header == NtpHeader::V5(NtpHeaderV5::timestamp_response(&info, header, recv, &clock)) && r.mac.is_none());
    assert!(r.efdata.authenticated.is_empty() && r.efdata.encrypted.is_empty());
    assert!(r.efdata.untrusted.len() == 4);
    assert!(r.efdata.untrusted[0] == uid_u && r.efdata.untrusted[2] == uid_a && r.efdata.untrusted[3] == draft);
    assert!(matches!(&r.efdata.untrusted[1], EF::ReferenceIdResponse(x) if x.bytes() == &filter.as_bytes()[8..12]));
    let r = NtpPacket::deny_response(mk());
    assert!(r.header == NtpHeader::V5(NtpHeaderV5::deny_response(header)) && r.mac.is_none());
    assert!(r.efdata.authenticated.is_empty() && r.efdata.encrypted.is_empty());
    assert!(r.efdata.untrusted.len() == 3 && r.efdata.untrusted[0] == uid_u && r.efdata.untrusted[1] == uid_a && r.efdata.untrusted[2] == draft);
    let r = NtpPacket::nts_nak_response(mk());
    assert!(r.header == NtpHeader::V5(NtpHeaderV5::nts_nak_response(header)));
    assert!(r.efdata.untrusted.len() == 3 && r.efdata.untrusted[0] == uid_u && r.efdata.untrusted[1] == uid_a && r.efdata.untrusted[2] == draft);
    kani::cover!(header.mode == NtpMode::Request, "reachable");
}

/// (> 10 min, thorough tier) An NTPv5 request of the fixed shape [draft id | second draft id with other
/// text | unique identifier(4, symbolic)] gets a time answer whose fields are exactly
/// [unique identifier | the server's own draft id] -- a draft identification of the request is
/// never reflected (KISS answers: thorough-tier harnesses).
#[kani::proof]
#[kani::unwind(10)]
#[kani::stub(crate::system::TimeSnapshot::root_dispersion, root_dispersion_uf)]
#[kani::stub(crate::packet::v5::NtpServerCookie::new_random, server_cookie_stub)]
fn c18_tb_v5_request_draft_ids_not_reflected() {
    let b: [u8; 4] = kani::any();
    let header = any_header_v5();
    let mk = || NtpPacket {
        header: NtpHeader::V5(header),
        efdata: crate::packet::ExtensionFieldData {
            untrusted: vec![
                EF::DraftIdentification(Cow::Borrowed(DRAFT_VERSION)),
                EF::DraftIdentification(Cow::Borrowed("reflect-me")),
                EF::UniqueIdentifier(Cow::Borrowed(&b[..])),
            ],
            authenticated: vec![],
            encrypted: vec![],
        },
        mac: None,
    };
    let uid = EF::UniqueIdentifier(Cow::Borrowed(&b[..]));
    // own draft id, compared without memcmp (symbolic position instead of a 30-iteration loop)
    let pos: usize = kani::any();
    kani::assume(pos < DRAFT_VERSION.len());
    let is_own_draft = |f: &EF<'_>| matches!(f, EF::DraftIdentification(s) if s.len() == DRAFT_VERSION.len() && s.as_bytes()[pos] == DRAFT_VERSION.as_bytes()[pos]);
    let info = any_server_info(true);
    let (recv, clock, _rd) = (any_ts(), VClock(any_ts()), rd_value());
    let _ = pick_server_cookie();
    let r = NtpPacket::timestamp_response(info, mk(), recv, &clock);
    assert!(r.header == NtpHeader::V5(NtpHeaderV5::timestamp_response(&info, header, recv, &clock)) && r.mac.is_none());
    assert!(r.efdata.authenticated.is_empty() && r.efdata.encrypted.is_empty());
    assert!(r.efdata.untrusted.len() == 2 && r.efdata.untrusted[0] == uid && is_own_draft(&r.efdata.untrusted[1]), "time answer: uid + own draft id only");
    kani::cover!(header.mode == NtpMode::Request, "reachable");
}

/// NTPv5 time answer: version 5; header per the header contract; fields == spec_v5_time_fields
/// (all unauthenticated); nothing from `encrypted`; no MAC.
#[kani::proof]
#[kani::unwind(26)]
#[kani::stub(crate::system::TimeSnapshot::root_dispersion, root_dispersion_uf)]
#[kani::stub(crate::packet::v5::NtpServerCookie::new_random, server_cookie_stub)]
fn c18_tb_v5_packet_timestamp_response() {
    let bufs: [[u8; 4]; 6] = kani::any();
    let macbuf: [u8; 4] = kani::any();
    let header = any_header_v5();
    let input = NtpPacket { header: NtpHeader::V5(header), efdata: any_efdata(&bufs), mac: any_mac(&macbuf) };
    let info = any_server_info(true);
    let filter = info.ntp_snapshot.bloom_filter;
    let expect = spec_v5_time_fields(&input.efdata.untrusted, &input.efdata.authenticated, &filter);
    let (recv, clock, _rd) = (any_ts(), VClock(any_ts()), rd_value());
    let _ = pick_server_cookie();
    let r = NtpPacket::timestamp_response(info, input, recv, &clock);
    assert!(r.header == NtpHeader::V5(NtpHeaderV5::timestamp_response(&info, header, recv, &clock)));
    assert!(r.mac.is_none());
    assert!(r.efdata.authenticated.is_empty() && r.efdata.encrypted.is_empty());
    assert!(r.efdata.untrusted == expect);
    kani::cover!(r.efdata.untrusted.len() == 5, "four answered fields + draft id reachable");
    kani::cover!(matches!(r.efdata.untrusted.first(), Some(EF::ReferenceIdResponse(x)) if x.bytes().len() == 3), "odd reference-id window answered");
}

/// NTPv5 DENY / RATE / NTS-NAK (+ NTS variants): KISS header per the header contract; unique
/// identifiers echoed + one draft identification; nothing else.
#[kani::proof]
#[kani::unwind(26)]
#[kani::stub(crate::packet::v5::NtpServerCookie::new_random, server_cookie_stub)]
fn c18_tb_v5_packet_kiss_responses() {
    let bufs: [[u8; 4]; 6] = kani::any();
    let macbuf: [u8; 4] = kani::any();
    let header = any_header_v5();
    let input = NtpPacket { header: NtpHeader::V5(header), efdata: any_efdata(&bufs), mac: any_mac(&macbuf) };
    let expect = with_draft(spec_uid_echo(&input.efdata.untrusted, &input.efdata.authenticated));
    let expect_auth = with_draft(spec_uid_echo(&[], &input.efdata.authenticated));
    let _ = pick_server_cookie();
    let which: u8 = kani::any();
    kani::assume(which < 5);
    let (r, h, nts) = match which {
        0 => (NtpPacket::deny_response(input), NtpHeaderV5::deny_response(header), false),
        1 => (NtpPacket::rate_limit_response(input), NtpHeaderV5::rate_limit_response(header), false),
        2 => (NtpPacket::nts_nak_response(input), NtpHeaderV5::nts_nak_response(header), false),
        3 => (NtpPacket::nts_deny_response(input), NtpHeaderV5::deny_response(header), true),
        _ => (NtpPacket::nts_rate_limit_response(input), NtpHeaderV5::rate_limit_response(header), true),
    };
    assert!(r.header == NtpHeader::V5(h));
    assert!(r.mac.is_none() && r.efdata.encrypted.is_empty());
    if nts {
        assert!(r.efdata.untrusted.is_empty() && r.efdata.authenticated == expect_auth);
    } else {
        assert!(r.efdata.authenticated.is_empty() && r.efdata.untrusted == expect);
    }
    kani::cover!(which == 1 && r.efdata.untrusted.len() == 4, "reachable");
}

// ================================================================ C17: NTPv5 request-sized buffer

/// a field as the NTPv5 decoder returns it without keys (payload <= 8 bytes, any length)
fn decoded_v5_field<'a>(buf: &'a [u8; 8]) -> EF<'a> {
    let n: usize = kani::any();
    kani::assume(n <= 8);
    match kani::any::<u8>() {
        0 => EF::UniqueIdentifier(Cow::Borrowed(&buf[..n])),
        1 => EF::NtsCookie(Cow::Borrowed(&buf[..n])),
        2 => EF::NtsCookiePlaceholder { cookie_length: n as u16 },
        3 => EF::ReferenceIdRequest(crate::packet::verif::any_refid_request()),
        4 => EF::ReferenceIdResponse(crate::packet::v5::extension_fields::ReferenceIdResponse::decode(&buf[..n])),
        5 => EF::DraftIdentification(Cow::Borrowed(DRAFT_VERSION)),
        _ => {
            let t: u16 = kani::any();
            kani::assume(!matches!(t, 0x104 | 0x204 | 0x304 | 0x404 | 0xF5FF | 0xF503 | 0xF504));
            EF::Unknown { type_id: t, data: Cow::Borrowed(&buf[..n]) }
        }
    }
}
/// NTPv5 time answer to an accepted request (the mandatory draft identification + <= 2 more
/// fields, reference-id windows up to 16 bytes) fits a request-sized buffer, is padded to exactly
/// the request's size, and the padding arithmetic (`desired - written >= 4`) never underflows.
#[kani::proof]
#[kani::unwind(34)]
#[kani::stub(crate::system::TimeSnapshot::root_dispersion, root_dispersion_uf)]
#[kani::stub(crate::packet::v5::NtpServerCookie::new_random, server_cookie_stub)]
fn c17_tb_v5_time_response_fits_request() {
    let bufs: [[u8; 8]; 2] = kani::any();
    let nf: usize = kani::any();
    kani::assume(nf <= 2);
    let mut untrusted = vec![EF::DraftIdentification(Cow::Borrowed(DRAFT_VERSION))];
    let mut request_len = 48 + 28;
    for i in 0..nf {
        let f = decoded_v5_field(&bufs[i]);
        if let EF::ReferenceIdRequest(r) = &f {
            kani::assume(r.payload_len() <= 16 && r.payload_len() % 4 == 0);
        }
        request_len += crate::packet::verif::spec_wire(&f);
        // the draft id may sit anywhere in the request
        if kani::any() {
            untrusted.insert(0, f);
        } else {
            untrusted.push(f);
        }
    }
    let input = NtpPacket {
        header: NtpHeader::V5(any_header_v5()),
        efdata: crate::packet::extension_fields::ExtensionFieldData { authenticated: vec![], encrypted: vec![], untrusted },
        mac: None,
    };
    let info = any_server_info(false);
    let d = crate::packet::verif::raw(info.time_snapshot.root_delay);
    kani::assume(d >= 0);
    kani::assume(crate::packet::verif::raw(rd_value()) >= 0);
    let _ = pick_server_cookie();
    let response = NtpPacket::timestamp_response(info, input, any_ts(), &VClock(any_ts()));
    let mut out = [0u8; 160];
    let mut cur = std::io::Cursor::new(&mut out[..request_len]);
    let res = response.serialize(&mut cur, &crate::packet::NoCipher, Some(request_len));
    assert!(res.is_ok(), "C17: the answer fits a request-sized buffer");
    assert!(cur.position() as usize == request_len, "NTPv5 answers are padded to the request's size");
    kani::cover!(nf == 2 && request_len == 48 + 28 + 24, "reachable");
}

// ================================================================ C23 / C22: header decoder is total

/// Spec of the accepted set, written from the draft's header layout: length >= 48, version 5,
/// mode 3 or 4, timescale 0..=3, flag bits: first byte 0, only the low three bits of the second.
fn v5_header_acceptable(d: &[u8]) -> bool {
    d.len() >= 48
        && (d[0] >> 3) & 7 == 5
        && (d[0] & 7 == 3 || d[0] & 7 == 4)
        && d[12] <= 3
        && d[14] == 0
        && d[15] & 0xF8 == 0
}

/// no panic + termination for every 48-byte input (complete: loop-free) and every shorter length;
/// Ok <=> the bytes satisfy the layout constraints; consumed size == 48; fields equal their bytes.
#[kani::proof]
fn c23_p_v5_header_deserialize_total() {
    let data: [u8; 48] = kani::any();
    let len: usize = kani::any();
    kani::assume(len <= 48);
    let d = &data[..len];
    match NtpHeaderV5::deserialize(d) {
        Ok((h, n)) => {
            assert!(v5_header_acceptable(d));
            assert!(n == 48);
            assert!(h.stratum == d[1] && h.poll.as_byte() == d[2] && h.precision == d[3] as i8);
            assert!(h.era.0 == d[13]);
            assert!(h.server_cookie.0[..] == d[16..24] && h.client_cookie.0[..] == d[24..32]);
            assert!(h.receive_timestamp.to_bits()[..] == d[32..40]);
            assert!(h.transmit_timestamp.to_bits()[..] == d[40..48]);
            assert!(h.mode.to_bits() == d[0] & 7 && h.timescale.to_bits() == d[12]);
            // leap: the wire value 3 reads Unsynchronized; the synchronized flag then overrides
            assert!(h.flags.synchronized == (d[15] & 1 != 0));
            assert!(h.flags.synchronized || h.leap == NtpLeapIndicator::Unsynchronized);
            assert!(!h.flags.synchronized || h.leap != NtpLeapIndicator::Unsynchronized);
        }
        Err(_) => assert!(!v5_header_acceptable(d)),
    }
    kani::cover!(len == 48 && NtpHeaderV5::deserialize(d).is_ok(), "accepting path reachable");
    kani::cover!(len == 47, "short input reachable");
}
/// same contract for inputs longer than the header (extra bytes are ignored): bounded 49..=64.
#[kani::proof]
fn c23_b_v5_header_deserialize_longer() {
    let data: [u8; 64] = kani::any();
    let len: usize = kani::any();
    kani::assume(len >= 48 && len <= 64);
    let d = &data[..len];
    let a = NtpHeaderV5::deserialize(d);
    let b = NtpHeaderV5::deserialize(&data[..48]);
    match (a, b) {
        (Ok((h, n)), Ok((h2, n2))) => assert!(h == h2 && n == 48 && n2 == 48),
        (Err(_), Err(_)) => {}
        _ => panic!("trailing bytes changed the header verdict"),
    }
    kani::cover!(len == 64, "reachable");
}
#[kani::proof]
fn c23_canary_v5_header_accepts_any_mode() {
    let data: [u8; 48] = kani::any();
    kani::assume((data[0] >> 3) & 7 == 5 && data[12] <= 3 && data[14] == 0 && data[15] & 0xF8 == 0);
    assert!(NtpHeaderV5::deserialize(&data).is_ok());
}

// ================================================================ C24: header round trip

/// decode(encode(decode(b))) == decode(b) and encode never fails/panics on a decoded header
/// (to_bits_time32 asserts a non-negative duration: holds for every decoded value); the second
/// encoding equals the first (stable bytes). All 48-byte inputs.
#[kani::proof]
fn c24_p_v5_header_roundtrip() {
    let data: [u8; 48] = kani::any();
    if let Ok((h, _)) = NtpHeaderV5::deserialize(&data) {
        let mut out = [0u8; 48];
        let mut cur = std::io::Cursor::new(&mut out[..]);
        assert!(h.serialize(&mut cur).is_ok());
        assert!(cur.position() == 48);
        let (h2, _) = NtpHeaderV5::deserialize(&out).unwrap();
        assert!(h2 == h);
        let mut out2 = [0u8; 48];
        let mut cur2 = std::io::Cursor::new(&mut out2[..]);
        assert!(h2.serialize(&mut cur2).is_ok());
        assert!(out2 == out);
        // what normalisation may change: only the two leap bits of byte 0
        assert!(out[1..] == data[1..] && (out[0] & 0x3F) == (data[0] & 0x3F));
    }
    kani::cover!(NtpHeaderV5::deserialize(&data).is_ok(), "accepting path reachable");
}
/// encode(decode(.)) of every header VALUE with non-negative durations that fit the wire format
/// and a leap value consistent with the flags returns the same value.
#[kani::proof]
fn c24_p_v5_header_value_roundtrip() {
    let h = any_header_v5();
    let rd = i64::from_be_bytes((NtpTimestamp::from_bits([0; 8]) + h.root_delay).to_bits());
    let rp = i64::from_be_bytes((NtpTimestamp::from_bits([0; 8]) + h.root_dispersion).to_bits());
    kani::assume(rd >= 0 && rd < (1i64 << 36) && rd & 0xF == 0);
    kani::assume(rp >= 0 && rp < (1i64 << 36) && rp & 0xF == 0);
    kani::assume(h == h.fix_leap_indicator());
    let mut out = [0u8; 48];
    let mut cur = std::io::Cursor::new(&mut out[..]);
    assert!(h.serialize(&mut cur).is_ok());
    let (h2, n) = NtpHeaderV5::deserialize(&out).unwrap();
    assert!(n == 48 && h2 == h);
    kani::cover!(h.flags.synchronized && h.leap == NtpLeapIndicator::Leap59, "reachable");
}
#[kani::proof]
fn c24_canary_v5_header_bytes_identical() {
    let data: [u8; 48] = kani::any();
    if let Ok((h, _)) = NtpHeaderV5::deserialize(&data) {
        let mut out = [0u8; 48];
        let mut cur = std::io::Cursor::new(&mut out[..]);
        let _ = h.serialize(&mut cur);
        assert!(out == data); // false: leap bits are normalised against the synchronized flag
    }
}

#[cfg(all(kani, test))]
mod replay {
    use super::*;
    include!(concat!(env!("VERIF_REPLAY_DIR"), "/ntp_proto__packet__v5__mod.rs"));
}
