// Contract harnesses for ntp-proto/src/packet/v5/extension_fields.rs (child module: sees private items).
// Properties: C23/C22 (ReferenceIdRequest::{decode,to_response}, ReferenceIdResponse::decode are
// total), C24 (reference-id field round trips), C18 (to_response returns server filter bytes only).
#![allow(unused_imports, dead_code)]
use super::*;
use std::io::Cursor;

/// every value of the request type, including those only the decoder can produce
/// (payload length not a multiple of 4, window outside the 512-byte filter)
pub(crate) fn any_refid_request() -> ReferenceIdRequest {
    ReferenceIdRequest { payload_len: kani::any(), offset: kani::any() }
}

// ================================================================ C23 / C22

/// decode: no panic for every message of length 0..=65531 (the bound RawExtensionField::deserialize
/// guarantees: a field's declared length is a u16 and includes the 4 header bytes);
/// Ok <=> len >= 2; payload_len == len; offset == first two bytes (big endian).
/// Complete in the length (the function reads only the length and bytes 0..2).
fn refid_request_decode_total<const N: usize>() {
    let data: [u8; N] = kani::any();
    let len: usize = kani::any();
    kani::assume(len <= N);
    let msg = &data[..len];
    match ReferenceIdRequest::decode(msg) {
        Ok(r) => {
            assert!(len >= 2);
            assert!(r.payload_len as usize == len);
            assert!(r.offset == u16::from_be_bytes([msg[0], msg[1]]));
        }
        Err(ParsingError::IncorrectLength) => assert!(len < 2),
        Err(_) => panic!("unexpected error kind"),
    }
    kani::cover!(len == N, "longest field reachable");
    kani::cover!(len == 1, "short field reachable");
}
#[kani::proof]
fn c23_b_refid_request_decode_total() {
    refid_request_decode_total::<1100>();
}
/// all message lengths a field can have (the function reads only the length and bytes 0..2)
#[kani::proof]
fn c23_tp_refid_request_decode_total() {
    refid_request_decode_total::<65531>();
}
/// canary: decode without the caller's length guarantee panics (`expect` on the u16 conversion).
#[kani::proof]
fn c23_canary_refid_request_decode_oversize() {
    let data = [0u8; 65540];
    let len: usize = kani::any();
    kani::assume(len <= 65540);
    let _ = ReferenceIdRequest::decode(&data[..len]);
}

/// to_response: total for every (payload_len, offset) pair and every filter; Some <=> the window
/// lies inside the 512-byte filter; the bytes are exactly the server filter's window (C18: the
/// response carries server data only, nothing of the request but the two numbers).
#[kani::proof]
fn c23_p_refid_to_response_total() {
    let filter = crate::packet::verif::any_bloom();
    let req = any_refid_request();
    let (off, len) = (req.offset as usize, req.payload_len as usize);
    match req.to_response(&filter) {
        Some(resp) => {
            assert!(off + len <= 512);
            assert!(resp.bytes().len() == len);
            let i: usize = kani::any();
            kani::assume(i < len);
            assert!(resp.bytes()[i] == filter.as_bytes()[off + i]);
        }
        None => assert!(off + len > 512),
    }
    kani::cover!(off + len == 512 && len == 3, "odd-length window at the end reachable");
    kani::cover!(off == 513, "out of range reachable");
}

// ================================================================ C24: round trips

fn put_request(r: &ReferenceIdRequest, out: &mut [u8]) -> (std::io::Result<()>, usize) {
    let mut cur = Cursor::new(out);
    let res = r.serialize(&mut cur);
    (res, cur.position() as usize)
}

/// request, payload a multiple of 4 in 4..=N: encode succeeds, writes 4 + payload bytes, the
/// header says type 0xF503 / length payload+4, and decoding the written payload returns the value.
fn refid_request_roundtrip<const N: usize>() {
    let r = any_refid_request();
    kani::assume(r.payload_len as usize <= N && r.payload_len >= 4 && r.payload_len % 4 == 0);
    let mut out = [0xAAu8; 64];
    let (res, n) = put_request(&r, &mut out);
    assert!(res.is_ok());
    assert!(n == 4 + r.payload_len as usize);
    assert!(out[0] == 0xF5 && out[1] == 0x03);
    assert!(u16::from_be_bytes([out[2], out[3]]) as usize == n);
    let back = ReferenceIdRequest::decode(&out[4..n]).unwrap();
    assert!(back == r);
    kani::cover!(r.payload_len as usize == N, "largest payload reachable");
}
#[kani::proof]
#[kani::unwind(5)]
fn c24_b_refid_request_roundtrip() {
    refid_request_roundtrip::<12>();
}
#[kani::proof]
#[kani::unwind(8)]
fn c24_tb_refid_request_roundtrip() {
    refid_request_roundtrip::<24>();
}

/// "encode succeeds for every value decode returns": the decoder accepts any payload length >= 2
/// (NTPv5 field lengths need not be multiples of 4). EXPECTED TO FAIL (finding): for a payload
/// length that is not a multiple of 4 `serialize` hits `assert_eq!(payload_len % 4, 0)` and panics.
fn refid_request_decoded_reencodes<const N: usize>() {
    let data: [u8; N] = kani::any();
    let len: usize = kani::any();
    kani::assume(len <= N);
    if let Ok(r) = ReferenceIdRequest::decode(&data[..len]) {
        let mut out = [0u8; 64];
        let (res, n) = put_request(&r, &mut out);
        assert!(res.is_ok());
        // wire size of a V5 field with this payload: header + payload, padded to a word
        assert!(n == (4 + len + 3) / 4 * 4);
        let back = ReferenceIdRequest::decode(&out[4..4 + len]).unwrap();
        assert!(back == r);
    }
    kani::cover!(len == N, "largest payload reachable");
}
#[kani::proof]
#[kani::unwind(5)]
fn c24_b_refid_request_decoded_reencodes() {
    refid_request_decoded_reencodes::<12>();
}

/// response: every byte string of length <= N: encode succeeds, writes 4 + len rounded up to a
/// word, header says type 0xF504 / length len+4, padding bytes are zero, decode returns the value.
fn refid_response_roundtrip<const N: usize>() {
    let data: [u8; N] = kani::any();
    let len: usize = kani::any();
    kani::assume(len <= N);
    let r = ReferenceIdResponse::decode(&data[..len]);
    assert!(r.bytes() == &data[..len]);
    let mut out = [0xAAu8; 64];
    let mut cur = Cursor::new(&mut out[..]);
    assert!(r.serialize(&mut cur).is_ok());
    let n = cur.position() as usize;
    assert!(n == (4 + len + 3) / 4 * 4);
    assert!(out[0] == 0xF5 && out[1] == 0x04);
    assert!(u16::from_be_bytes([out[2], out[3]]) as usize == 4 + len);
    let i: usize = kani::any();
    if i >= 4 + len && i < n {
        assert!(out[i] == 0);
    }
    let back = ReferenceIdResponse::decode(&out[4..4 + len]);
    assert!(back == r);
    kani::cover!(len == N, "largest payload reachable");
    kani::cover!(len % 4 == 1, "padding reachable");
}
#[kani::proof]
#[kani::unwind(14)]
fn c24_b_refid_response_roundtrip() {
    refid_response_roundtrip::<12>();
}
#[kani::proof]
#[kani::unwind(26)]
fn c24_tb_refid_response_roundtrip() {
    refid_response_roundtrip::<24>();
}
/// a value built with the public constructor for an empty window encodes inconsistently:
/// canary for the size claim (false for payload_len == 0: 8 bytes written, length field says 4).
#[kani::proof]
#[kani::unwind(5)]
fn c24_canary_refid_request_empty_window_size() {
    let off: u16 = kani::any();
    kani::assume(off <= 512);
    let r = ReferenceIdRequest::new(0, off).unwrap();
    let mut out = [0u8; 64];
    let (_res, n) = put_request(&r, &mut out);
    assert!(n == u16::from_be_bytes([out[2], out[3]]) as usize);
}

// ---- C34 snippet for kani/ntp_proto/packet/v5/extension_fields.rs (append before the replay footer).
// The byte-exactness of to_response is proved in server_reference_id.rs (c34_p_to_response_exact_or_none,
// requests built through ReferenceIdRequest::decode). Here, with direct access to the private
// fields: the Some/None decision and the answer length for EVERY (payload_len, offset) in u16 x u16.
#[kani::proof]
fn c34_p_to_response_range_all_u16() {
    let req = ReferenceIdRequest { payload_len: kani::any(), offset: kani::any() };
    let filter = BloomFilter::new();
    let in_range = req.offset as usize + req.payload_len as usize <= 512;
    match req.to_response(&filter) {
        Some(resp) => {
            assert!(in_range);
            assert!(resp.bytes().len() == req.payload_len as usize);
        }
        None => { assert!(!in_range) }
    }
    kani::cover!(in_range && req.payload_len == 512, "whole filter reachable");
    kani::cover!(!in_range && req.offset < 512, "overlong request reachable");
}

// ReferenceIdRequest::new under its caller's guarantee (payload_len, offset <= 512, which
// RemoteBloomFilter's invariant ensures): Some exactly for multiples of 4 that end inside the filter.
// (Without that guarantee `payload_len + offset` overflows u16, e.g. new(65532, 8): a debug-build
// panic; no caller in the repository can reach it.)
#[kani::proof]
fn c34_p_request_new() {
    let (len, off): (u16, u16) = (kani::any(), kani::any());
    kani::assume(len <= 512 && off <= 512);
    match ReferenceIdRequest::new(len, off) {
        Some(r) => { assert!(len % 4 == 0 && len + off <= 512 && r.payload_len == len && r.offset == off) }
        None => { assert!(len % 4 != 0 || len + off > 512) }
    }
    kani::cover!(ReferenceIdRequest::new(len, off).is_some(), "accepted");
}

// FALSE (canary): the server answers every request.
#[kani::proof]
fn c34_canary_to_response_always_some() {
    let req = ReferenceIdRequest { payload_len: kani::any(), offset: kani::any() };
    assert!(req.to_response(&BloomFilter::new()).is_some());
}

#[cfg(all(kani, test))]
mod replay {
    use super::*;
    include!(concat!(env!("VERIF_REPLAY_DIR"), "/ntp_proto__packet__v5__extension_fields.rs"));
}
