// Contract harnesses for ntp-proto/src/packet/extension_fields.rs (child module: sees private items).
// Properties: C23/C22 (every decoder function is total), C24 (per-field round trip), C14 (size
// contracts of the encoders), C25 (what the cipher is handed; what is promoted to authenticated).
#![allow(unused_imports, dead_code)]
use super::*;
use std::io::Cursor;
use crate::verif_common::harness;
use std::sync::atomic::{AtomicBool, AtomicU64, AtomicU8, AtomicUsize, Ordering::Relaxed};

type PErr = ParsingError<std::convert::Infallible>;
const V4: ExtensionHeaderVersion = ExtensionHeaderVersion::V4;
const V5: ExtensionHeaderVersion = ExtensionHeaderVersion::V5;

// ---------------------------------------------------------------- generators

pub(crate) use crate::packet::verif::{
    any_field, any_model_cipher, any_prefix, any_refid_request, any_version, ModelCipher, DEC_AAD, DEC_CALLS, DEC_CT, DEC_NONCE,
    ENC_AAD, ENC_CALLS, ENC_PT_LEN,
};
use crate::packet::NoCipher;

// `core::str::from_utf8` (word-at-a-time validation with pointer alignment) does not finish in
// CBMC on symbolic bytes. Model with the same observable result, built from std's byte-wise
// `Utf8Chunks` decomposition: Ok(the input as str) iff the input is one valid chunk. The error
// value is obtained from the real validator on a fixed invalid byte (callers here ignore its
// contents). Assumption A-utf8: from_utf8 accepts exactly the inputs Utf8Chunks reports as valid.
pub(crate) fn from_utf8_model(v: &[u8]) -> Result<&str, core::str::Utf8Error> {
    let mut chunks = v.utf8_chunks();
    match chunks.next() {
        None => Ok(""),
        Some(c) if c.invalid().is_empty() => Ok(c.valid()),
        Some(_) => {
            let mut bad = [0xFFu8];
            Err(core::str::from_utf8_mut(&mut bad).unwrap_err())
        }
    }
}

// ================================================================ C23 / C22: leaf arithmetic

/// next_multiple_of_{u16,usize}(x, 4): no panic for every x; for x <= MAX-3 the result is the
/// least multiple of 4 that is >= x; above that it wraps to 0 (callers never get there, see the
/// contracts of from_message_bytes / deserialize / encode_framing below).
#[kani::proof]
fn c23_p_next_multiple_of() {
    let x: u16 = kani::any();
    let r = next_multiple_of_u16(x, 4);
    if x <= u16::MAX - 3 {
        assert!(r >= x && r - x < 4 && r % 4 == 0);
    } else {
        assert!(r == 0);
    }
    let y: usize = kani::any();
    let s = next_multiple_of_usize(y, 4);
    if y <= usize::MAX - 3 {
        assert!(s >= y && s - y < 4 && s % 4 == 0);
    } else {
        assert!(s == 0);
    }
    // (every call site passes the literal 4: anchor-checked in the unit)
    kani::cover!(x == u16::MAX && y == usize::MAX, "wrap case reachable");
}
#[kani::proof]
fn c23_canary_next_multiple_of_zero_divisor() {
    let _ = next_multiple_of_u16(kani::any(), kani::any());
}

/// type-id mapping is a bijection on u16 (decode of any type id, re-encode gives it back)
#[kani::proof]
fn c23_p_type_id_total() {
    let t: u16 = kani::any();
    let id = ExtensionFieldTypeId::from_type_id(t);
    assert!(id.to_type_id() == t);
    assert!(matches!(id, ExtensionFieldTypeId::Unknown { .. })
        == !matches!(t, 0x104 | 0x204 | 0x304 | 0x404 | 0xF5FF | 0xF501 | 0xF503 | 0xF504));
    kani::cover!(t == 0x404, "reachable");
}

// ================================================================ C23 / C22: RawExtensionField

// The functions below are loop-free; the bound only limits the slice length that is explored:
// quick = 1100 (covers the server's 1024-byte receive buffer), thorough = 4100 (C23: 0..4096).
const QN: usize = 1100;
const TN: usize = 4100;

/// RawExtensionField::deserialize: no panic for every input length up to the bound, every
/// minimum size and both versions (loop-free: complete).
/// Ok  =>  len >= 4, declared length L >= minimum, L >= 4, (V4: L % 4 == 0), roundup4(L) <= len,
///         message_bytes == data[4..L], type id from the first two bytes.
/// Err <=  any of these fails (so Ok <=> all hold).
fn raw_field_deserialize_total<const RAW_N: usize>() {
    let data: [u8; RAW_N] = kani::any();
    let len: usize = kani::any();
    kani::assume(len <= RAW_N);
    let d = &data[..len];
    let minimum: usize = kani::any();
    let version = any_version();
    let res = RawExtensionField::deserialize(d, minimum, version);
    let ok_spec = len >= 4 && {
        let l = u16::from_be_bytes([d[2], d[3]]) as usize;
        l >= minimum && l >= 4 && (version == V5 || l % 4 == 0) && (l + 3) / 4 * 4 <= len
    };
    match res {
        Ok(f) => {
            assert!(ok_spec);
            let l = u16::from_be_bytes([d[2], d[3]]) as usize;
            assert!(f.message_bytes.len() == l - 4);
            assert!(f.message_bytes.len() <= 65_531);
            let i: usize = kani::any();
            kani::assume(i < l - 4);
            assert!(f.message_bytes[i] == d[4 + i]);
            assert!(f.type_id.to_type_id() == u16::from_be_bytes([d[0], d[1]]));
            // contract used by the streamer: the field's wire length fits in the input
            let w = f.wire_length(version);
            assert!(w == (l + 3) / 4 * 4 && w >= 4 && w <= len);
        }
        Err(ParsingError::IncorrectLength) => assert!(!ok_spec),
        Err(_) => panic!("unexpected error kind"),
    }
    kani::cover!(len == RAW_N, "largest input reachable");
    kani::cover!(RawExtensionField::deserialize(d, minimum, version).is_ok() && version == V5 && d[3] % 4 == 1, "V5 unaligned length accepted");
}
#[kani::proof]
fn c23_b_raw_field_deserialize_total() {
    raw_field_deserialize_total::<QN>();
}
#[kani::proof]
fn c23_tb_raw_field_deserialize_total() {
    raw_field_deserialize_total::<TN>();
}
#[kani::proof]
fn c23_canary_raw_field_v4_accepts_unaligned() {
    let data: [u8; 16] = kani::any();
    kani::assume(data[2] == 0 && data[3] == 6);
    assert!(RawExtensionField::deserialize(&data, 4, V4).is_ok());
}

/// wire_length: no panic under the invariant established by deserialize (V4: header + message
/// is a multiple of 4); result = header + message rounded up to a word; >= 4 (progress).
#[kani::proof]
fn c23_p_wire_length() {
    let data = [0u8; 65_531];
    let n: usize = kani::any();
    kani::assume(n <= 65_531);
    let version = any_version();
    kani::assume(version == V5 || (n + 4) % 4 == 0);
    let f = RawExtensionField { type_id: ExtensionFieldTypeId::from_type_id(kani::any()), message_bytes: &data[..n] };
    let w = f.wire_length(version);
    assert!(w == (n + 4 + 3) / 4 * 4 && w >= 4 && w <= 65_536);
    kani::cover!(n == 65_531, "largest reachable");
}
/// canary: without that invariant the V4 debug assertion fires
#[kani::proof]
fn c23_canary_wire_length_v4_unaligned() {
    let data = [0u8; 8];
    let n: usize = kani::any();
    kani::assume(n <= 8);
    let f = RawExtensionField { type_id: ExtensionFieldTypeId::NtsCookie, message_bytes: &data[..n] };
    let _ = f.wire_length(V4);
}

// ================================================================ C23 / C22: ExtensionFieldStreamer

/// One step of the streamer from EVERY state (any offset, cutoff, minimum, version) over every
/// buffer of length <= the bound: no panic, and the step contract that gives termination and
/// in-bounds offsets for every caller loop:
///   Some(Ok((o, f)))  => o == old offset, new offset == o + wire(f), old < new <= buffer.len(),
///                        more than `cutoff` bytes were left at o
///   Some(Err(_))      => new offset == buffer.len()  (the next call returns None: cutoff >= 0)
///   None              => offset unchanged and (offset > len or at most `cutoff` bytes left)
/// Termination of any `for` over the streamer: buffer.len() - offset strictly decreases on Ok
/// and is 0 after Err.
fn streamer_next_step<const RAW_N: usize>() {
    let data: [u8; RAW_N] = kani::any();
    let len: usize = kani::any();
    kani::assume(len <= RAW_N);
    let buffer = &data[..len];
    let version = any_version();
    let mut s = ExtensionFieldStreamer { buffer, cutoff: kani::any(), minimum_size: kani::any(), offset: kani::any(), version };
    let (old, cutoff) = (s.offset, s.cutoff);
    match s.next() {
        Some(Ok((o, f))) => {
            assert!(o == old);
            assert!(len - old > cutoff);
            let w = f.wire_length(version);
            assert!(s.offset == old + w && s.offset > old && s.offset <= len);
            assert!(f.message_bytes.len() + 4 <= w && w < f.message_bytes.len() + 8);
        }
        Some(Err(_)) => {
            assert!(s.offset == len && old <= len && len - old > cutoff);
            assert!(s.next().is_none());
        }
        None => assert!(s.offset == old && (old > len || len - old <= cutoff)),
    }
    kani::cover!(len == RAW_N, "largest buffer reachable");
}
#[kani::proof]
fn c23_b_streamer_next_step() {
    streamer_next_step::<QN>();
}
#[kani::proof]
fn c23_tb_streamer_next_step() {
    streamer_next_step::<TN>();
}
/// bounded cross-check of the loop itself: iterating a buffer of <= 24 bytes ends after at most
/// 6 fields, offsets are increasing and in bounds (unwinding assertion = termination bound).
#[kani::proof]
#[kani::unwind(8)]
fn c23_b_streamer_terminates() {
    let data: [u8; 24] = kani::any();
    let buffer = any_prefix(&data);
    let version = any_version();
    let cutoff: usize = kani::any();
    let mut last = 0usize;
    let mut count = 0usize;
    for item in RawExtensionField::deserialize_sequence(buffer, cutoff, 4, version) {
        count += 1;
        match item {
            Ok((o, f)) => {
                assert!(o >= last && o + f.wire_length(version) <= buffer.len());
                last = o + f.wire_length(version);
            }
            Err(_) => {}
        }
    }
    assert!(count <= 6);
    kani::cover!(count == 6, "six minimal fields reachable");
}

// ================================================================ C23 / C22: RawEncryptedField

/// from_message_bytes: no panic for every message of length <= the bound;
/// Ok => nonce == msg[4..4+nl], ciphertext == msg[cs..cs+cl] with cs = 4 + roundup4(nl), both in
/// bounds; Ok <=> len >= 4 and both windows fit.
fn encrypted_field_from_message_bytes_total<const RAW_N: usize>() {
    let data: [u8; RAW_N] = kani::any();
    let len: usize = kani::any();
    kani::assume(len <= RAW_N);
    let m = &data[..len];
    let fits = len >= 4 && {
        let nl = u16::from_be_bytes([m[0], m[1]]) as usize;
        let cl = u16::from_be_bytes([m[2], m[3]]) as usize;
        4 + nl <= len && 4 + (nl + 3) / 4 * 4 + cl <= len
    };
    match RawEncryptedField::from_message_bytes(m) {
        Ok(e) => {
            assert!(fits);
            let nl = u16::from_be_bytes([m[0], m[1]]) as usize;
            let cl = u16::from_be_bytes([m[2], m[3]]) as usize;
            let cs = 4 + (nl + 3) / 4 * 4;
            assert!(e.nonce.len() == nl && e.ciphertext.len() == cl);
            let i: usize = kani::any();
            kani::assume(i < nl);
            assert!(e.nonce[i] == m[4 + i]);
            let j: usize = kani::any();
            kani::assume(j < cl);
            assert!(e.ciphertext[j] == m[cs + j]);
        }
        Err(ParsingError::IncorrectLength) => assert!(!fits),
        Err(_) => panic!("unexpected error kind"),
    }
    kani::cover!(len == RAW_N, "largest reachable");
    kani::cover!(RawEncryptedField::from_message_bytes(m).is_ok() && m[1] % 4 == 1, "padded nonce accepted");
}
#[kani::proof]
fn c23_b_encrypted_field_from_message_bytes_total() {
    encrypted_field_from_message_bytes_total::<QN>();
}
#[kani::proof]
fn c23_tb_encrypted_field_from_message_bytes_total() {
    encrypted_field_from_message_bytes_total::<TN>();
}
#[kani::proof]
fn c23_canary_encrypted_field_always_ok() {
    let data: [u8; 16] = kani::any();
    assert!(RawEncryptedField::from_message_bytes(&data).is_ok());
}

// ================================================================ C23 / C22: field decoders

/// SPEC of a decoded field's wire size (header + payload, padded to a word)
pub(crate) fn spec_wire(f: &ExtensionField<'_>) -> usize {
    let payload = match f {
        ExtensionField::UniqueIdentifier(d) | ExtensionField::NtsCookie(d) => d.len(),
        ExtensionField::Unknown { data, .. } => data.len(),
        ExtensionField::NtsCookiePlaceholder { cookie_length } => *cookie_length as usize,
        ExtensionField::DraftIdentification(d) => d.len(),
        ExtensionField::ReferenceIdRequest(r) => r.payload_len() as usize,
        ExtensionField::ReferenceIdResponse(r) => r.bytes().len(),
        ExtensionField::InvalidNtsEncryptedField => 0,
        ExtensionField::Padding(n) => n.saturating_sub(4),
    };
    (payload + 4 + 3) / 4 * 4
}

// ================================================================ C23 / C25 / C17: ExtensionFieldData::deserialize

const HDR: usize = 48;

/// sum of the spec wire sizes of a field list
fn spec_wire_sum(v: &[ExtensionField<'_>]) -> usize {
    let mut n = 0;
    for f in v {
        n += spec_wire(f);
    }
    n
}

/// Without keys (NoCipher), every datagram whose extension part is <= EXT bytes:
/// no panic, terminates (unwinding assertions); on Ok: nothing is authenticated/encrypted, no
/// cookie; the decoder consumed exactly header + sum of the fields' wire sizes and the rest is
/// `remaining_bytes` (V4: <= 24 bytes, the MAC candidate; V5: nothing)  [decoder half of C17];
/// an NTS authenticator field is never accepted without keys (DecryptError, field marked invalid).
fn efdata_deserialize_nokeys<const LEN: usize>(version: ExtensionHeaderVersion) {
    let data: [u8; LEN] = kani::any();
    let len: usize = kani::any();
    kani::assume(len >= HDR && len <= LEN);
    let d = &data[..len];
    match ExtensionFieldData::deserialize(d, HDR, &NoCipher, version) {
        Ok(r) => {
            assert!(r.cookie.is_none());
            assert!(r.efdata.authenticated.is_empty() && r.efdata.encrypted.is_empty());
            let consumed = spec_wire_sum(&r.efdata.untrusted);
            assert!(HDR + consumed + r.remaining_bytes.len() == len);
            assert!(r.remaining_bytes.as_ptr() as usize == d.as_ptr() as usize + HDR + consumed);
            match version {
                ExtensionHeaderVersion::V4 => assert!(r.remaining_bytes.len() <= Mac::MAXIMUM_SIZE),
                ExtensionHeaderVersion::V5 => assert!(r.remaining_bytes.is_empty()),
            }
            let i: usize = kani::any();
            kani::assume(i < r.efdata.untrusted.len());
            assert!(!matches!(r.efdata.untrusted[i], ExtensionField::InvalidNtsEncryptedField | ExtensionField::Padding(_)));
        }
        Err(ParsingError::DecryptError(inv)) => {
            assert!(inv.efdata.authenticated.is_empty() && inv.efdata.encrypted.is_empty());
            let mut seen = false;
            for f in &inv.efdata.untrusted {
                seen |= matches!(f, ExtensionField::InvalidNtsEncryptedField);
            }
            assert!(seen);
        }
        Err(_) => {}
    }
    kani::cover!(matches!(ExtensionFieldData::deserialize(d, HDR, &NoCipher, version), Ok(r) if r.efdata.untrusted.len() >= 2), "two fields accepted");
    kani::cover!(matches!(ExtensionFieldData::deserialize(d, HDR, &NoCipher, version), Err(ParsingError::DecryptError(_))), "authenticator without keys reachable");
}
// V4: fields are only parsed while more than 24 bytes remain, so 40 extension bytes allow <= 4 fields
#[kani::proof]
#[kani::unwind(7)]
#[kani::stub(core::str::from_utf8, from_utf8_model)]
fn c23_tb_efdata_deserialize_nokeys_v4() {
    efdata_deserialize_nokeys::<{ HDR + 40 }>(V4);
}
// V5: 16 extension bytes allow <= 4 fields
#[kani::proof]
#[kani::unwind(7)]
#[kani::stub(core::str::from_utf8, from_utf8_model)]
fn c23_tb_efdata_deserialize_nokeys_v5() {
    efdata_deserialize_nokeys::<{ HDR + 16 }>(V5);
}

// ---------------------------------------------------------------- C25 quick: structured datagram
/// One datagram with a FIXED layout and symbolic contents: header(48) | unique identifier
/// (8 bytes) | authenticator (type 0x0404, length 28, nonce 16, ciphertext 4) [| 4 zero bytes of
/// tail for NTPv4 so that the authenticator is still parsed]. The cipher's decrypt outcome is
/// symbolic; its plaintext is one 8-byte cookie field. Same postconditions as the unstructured
/// harnesses (c25_tb_*), cheap because type ids and lengths are concrete.
#[kani::proof]
#[kani::unwind(30)]
#[kani::stub(core::str::from_utf8, from_utf8_model)]
fn c25_tb_structured_one_authenticator() {
    let mut data: [u8; HDR + 8 + 28] = kani::any();
    data[HDR..HDR + 4].copy_from_slice(&[0x01, 0x04, 0x00, 0x08]);
    data[HDR + 8..HDR + 16].copy_from_slice(&[0x04, 0x04, 0x00, 28, 0x00, 16, 0x00, 4]);
    let version = any_version();
    let mut cipher = ModelCipher::aes_siv_like();
    cipher.decrypt_ok = kani::any();
    let body: [u8; 4] = kani::any();
    cipher.plaintext = [0x02, 0x04, 0x00, 0x08, body[0], body[1], body[2], body[3]];
    cipher.plaintext_len = 8;
    DEC_CALLS.store(0, Relaxed);
    let res = ExtensionFieldData::deserialize(&data, HDR, &cipher, version);
    let base = data.as_ptr() as usize;
    assert!(DEC_CALLS.load(Relaxed) == 1);
    // aad == everything before the authenticator field
    assert!(DEC_AAD.0.load(Relaxed) == base && DEC_AAD.1.load(Relaxed) == HDR + 8);
    // nonce / ciphertext == exactly the declared sub-slices
    assert!(DEC_NONCE.0.load(Relaxed) == base + HDR + 16 && DEC_NONCE.1.load(Relaxed) == 16);
    assert!(DEC_CT.0.load(Relaxed) == base + HDR + 32 && DEC_CT.1.load(Relaxed) == 4);
    match res {
        Ok(r) => {
            assert!(cipher.decrypt_ok);
            assert!(r.cookie.is_none() && r.remaining_bytes.is_empty() && r.efdata.untrusted.is_empty());
            assert!(r.efdata.authenticated.len() == 1 && r.efdata.encrypted.len() == 1);
            assert!(r.efdata.authenticated[0] == ExtensionField::UniqueIdentifier(Cow::Borrowed(&data[HDR + 4..HDR + 8])));
            assert!(r.efdata.encrypted[0] == ExtensionField::NtsCookie(Cow::Borrowed(&body[..])));
        }
        Err(ParsingError::DecryptError(inv)) => {
            assert!(!cipher.decrypt_ok);
            assert!(inv.efdata.authenticated.is_empty() && inv.efdata.encrypted.is_empty());
            assert!(inv.efdata.untrusted.len() == 2);
            assert!(matches!(inv.efdata.untrusted[1], ExtensionField::InvalidNtsEncryptedField));
        }
        Err(_) => panic!("a well-formed layout is never a length error"),
    }
    kani::cover!(cipher.decrypt_ok && version == V4, "success reachable");
    kani::cover!(!cipher.decrypt_ok && version == V5, "failure reachable");
}

/// RawEncryptedField level (quick): for an authenticator body with nonce length 16 and ciphertext
/// length 4 (symbolic contents), `from_message_bytes` + `decrypt` hand the cipher exactly
/// nonce == body[4..20], ciphertext == body[20..24] and the caller's aad slice (same pointers and
/// lengths); a failing cipher gives Err(DecryptError(InvalidNtsEncryptedField)) -- never fields;
/// a succeeding one gives the decoded plaintext (here empty). The call site in
/// ExtensionFieldData::deserialize (aad = &data[..header_size + offset]; on error push
/// InvalidNtsEncryptedField, clear is_valid_nts, `continue` BEFORE anything is promoted to
/// `authenticated`) is pinned by anchors in units/C25.json; the whole function is checked in the
/// thorough-tier harnesses.
#[kani::proof]
#[kani::unwind(6)]
#[kani::stub(core::str::from_utf8, from_utf8_model)]
fn c25_tb_raw_encrypted_field_decrypt_same_pointers() {
    let mut body: [u8; 24] = kani::any();
    body[..4].copy_from_slice(&[0x00, 16, 0x00, 4]);
    let aad: [u8; 56] = kani::any();
    let mut cipher = ModelCipher::aes_siv_like();
    cipher.decrypt_ok = kani::any();
    let enc = RawEncryptedField::from_message_bytes(&body).unwrap();
    DEC_CALLS.store(0, Relaxed);
    let res = enc.decrypt(&cipher, &aad, any_version());
    assert!(DEC_CALLS.load(Relaxed) == 1);
    assert!(DEC_NONCE.0.load(Relaxed) == body.as_ptr() as usize + 4 && DEC_NONCE.1.load(Relaxed) == 16);
    assert!(DEC_CT.0.load(Relaxed) == body.as_ptr() as usize + 20 && DEC_CT.1.load(Relaxed) == 4);
    assert!(DEC_AAD.0.load(Relaxed) == aad.as_ptr() as usize && DEC_AAD.1.load(Relaxed) == 56);
    match res {
        Ok(fields) => assert!(cipher.decrypt_ok && fields.is_empty()),
        Err(ParsingError::DecryptError(ExtensionField::InvalidNtsEncryptedField)) => assert!(!cipher.decrypt_ok),
        Err(_) => panic!("unexpected error kind"),
    }
    kani::cover!(cipher.decrypt_ok, "success reachable");
    kani::cover!(!cipher.decrypt_ok, "failure reachable");
}
// ---------------------------------------------------------------- C25 (quick): what the cipher is handed
// Pointer-to-integer casts make CBMC's object encoding explode, so instead of recording slice
// addresses this cipher records the LENGTHS it is handed and the bytes at harness-chosen (arbitrary)
// positions; "for an arbitrary index the byte agrees" is "the slices are equal".
static P_CALLS: crate::verif_common::Ghost<AtomicU8> = crate::verif_common::Ghost::new(0x6782ddf2c678b067, AtomicU8::new(0));
static P_LEN: crate::verif_common::Ghost<[AtomicUsize; 3]> = crate::verif_common::Ghost::new(0x675752466f7e9b7e, [AtomicUsize::new(0), AtomicUsize::new(0), AtomicUsize::new(0)]);
static P_IDX: crate::verif_common::Ghost<[AtomicUsize; 3]> = crate::verif_common::Ghost::new(0x67012123f9ea056f, [AtomicUsize::new(0), AtomicUsize::new(0), AtomicUsize::new(0)]);
static P_BYTE: crate::verif_common::Ghost<[AtomicU8; 3]> = crate::verif_common::Ghost::new(0x67720e294bb298e1, [AtomicU8::new(0), AtomicU8::new(0), AtomicU8::new(0)]);
struct ProbeCipher {
    decrypt_ok: bool,
}
impl zeroize::ZeroizeOnDrop for ProbeCipher {}
impl Cipher for ProbeCipher {
    fn encrypt(&self, _b: &mut [u8], _l: usize, _a: &[u8]) -> std::io::Result<EncryptResult> {
        Err(std::io::ErrorKind::Other.into())
    }
    fn decrypt(&self, nonce: &[u8], ciphertext: &[u8], aad: &[u8]) -> Result<Vec<u8>, crate::packet::DecryptError> {
        P_CALLS.store(P_CALLS.load(Relaxed).saturating_add(1), Relaxed);
        let parts: [&[u8]; 3] = [nonce, ciphertext, aad];
        let mut k = 0;
        while k < 3 {
            P_LEN[k].store(parts[k].len(), Relaxed);
            let i = P_IDX[k].load(Relaxed);
            if i < parts[k].len() {
                P_BYTE[k].store(parts[k][i], Relaxed);
            }
            k += 1;
        }
        if self.decrypt_ok {
            Ok(Vec::new())
        } else {
            Err(crate::packet::DecryptError)
        }
    }
    fn key_bytes(&self) -> &[u8] {
        &[]
    }
}

/// RawEncryptedField::{from_message_bytes, decrypt}: for an authenticator body with declared nonce
/// length 16 and ciphertext length 4 (symbolic contents) the cipher is called exactly once with
/// nonce == body[4..20], ciphertext == body[20..24] and associated data == the caller's slice
/// (every byte, via arbitrary probe positions); a failing cipher yields
/// Err(DecryptError(InvalidNtsEncryptedField)) and never any field; a succeeding one the decoded
/// (here empty) plaintext. The call site (aad = everything before the field; nothing promoted to
/// `authenticated` before success) is pinned by anchors.
#[kani::proof]
#[kani::unwind(6)]
#[kani::stub(core::str::from_utf8, from_utf8_model)]
fn c25_b_cipher_receives_declared_slices_then_fails() {
    let mut body: [u8; 24] = kani::any();
    body[..4].copy_from_slice(&[0x00, 16, 0x00, 4]);
    let aad: [u8; 56] = kani::any();
    let (i, j, k): (usize, usize, usize) = (kani::any(), kani::any(), kani::any());
    kani::assume(i < 16 && j < 4 && k < 56);
    P_IDX[0].store(i, Relaxed);
    P_IDX[1].store(j, Relaxed);
    P_IDX[2].store(k, Relaxed);
    // the cipher sees its arguments before it decides; the failing outcome (what a tampered packet
    // gets under A3) is the quick tier, the succeeding outcome (decoding the plaintext) is thorough
    let cipher = ProbeCipher { decrypt_ok: false };
    let enc = RawEncryptedField::from_message_bytes(&body).unwrap();
    let res = enc.decrypt(&cipher, &aad, any_version());
    assert!(P_CALLS.load(Relaxed) == 1);
    assert!(P_LEN[0].load(Relaxed) == 16 && P_LEN[1].load(Relaxed) == 4 && P_LEN[2].load(Relaxed) == 56);
    assert!(P_BYTE[0].load(Relaxed) == body[4 + i]);
    assert!(P_BYTE[1].load(Relaxed) == body[20 + j]);
    assert!(P_BYTE[2].load(Relaxed) == aad[k]);
    match res {
        Ok(fields) => assert!(cipher.decrypt_ok && fields.is_empty()),
        Err(ParsingError::DecryptError(ExtensionField::InvalidNtsEncryptedField)) => assert!(!cipher.decrypt_ok),
        Err(_) => panic!("unexpected error kind"),
    }
    kani::cover!(!cipher.decrypt_ok, "failure reachable");
}
#[kani::proof]
#[kani::unwind(6)]
#[kani::stub(core::str::from_utf8, from_utf8_model)]
fn c25_tb_cipher_receives_declared_slices_any_outcome() {
    let mut body: [u8; 24] = kani::any();
    body[..4].copy_from_slice(&[0x00, 16, 0x00, 4]);
    let aad: [u8; 56] = kani::any();
    let (i, j, k): (usize, usize, usize) = (kani::any(), kani::any(), kani::any());
    kani::assume(i < 16 && j < 4 && k < 56);
    P_IDX[0].store(i, Relaxed);
    P_IDX[1].store(j, Relaxed);
    P_IDX[2].store(k, Relaxed);
    let cipher = ProbeCipher { decrypt_ok: kani::any() };
    let enc = RawEncryptedField::from_message_bytes(&body).unwrap();
    let res = enc.decrypt(&cipher, &aad, any_version());
    assert!(P_CALLS.load(Relaxed) == 1);
    assert!(P_LEN[0].load(Relaxed) == 16 && P_LEN[1].load(Relaxed) == 4 && P_LEN[2].load(Relaxed) == 56);
    assert!(P_BYTE[0].load(Relaxed) == body[4 + i]);
    assert!(P_BYTE[1].load(Relaxed) == body[20 + j]);
    assert!(P_BYTE[2].load(Relaxed) == aad[k]);
    match res {
        Ok(fields) => assert!(cipher.decrypt_ok && fields.is_empty()),
        Err(ParsingError::DecryptError(ExtensionField::InvalidNtsEncryptedField)) => assert!(!cipher.decrypt_ok),
        Err(_) => panic!("unexpected error kind"),
    }
    kani::cover!(cipher.decrypt_ok, "success reachable");
    kani::cover!(!cipher.decrypt_ok, "failure reachable");
}
/// canary (false claim): a failed decrypt still yields fields
#[kani::proof]
#[kani::unwind(6)]
#[kani::stub(core::str::from_utf8, from_utf8_model)]
fn c25_canary_failed_decrypt_accepted() {
    let mut body: [u8; 24] = kani::any();
    body[..4].copy_from_slice(&[0x00, 16, 0x00, 4]);
    let mut cipher = ModelCipher::aes_siv_like();
    cipher.decrypt_ok = false;
    let enc = RawEncryptedField::from_message_bytes(&body).unwrap();
    assert!(enc.decrypt(&cipher, &[], V5).is_ok());
}

// ================================================================ C24: per-field round trip
// Lengths and minimum sizes are ENUMERATED concretely (every value inside the bound), contents
// and type ids are symbolic: with symbolic lengths CBMC also explores the encoders' error paths
// (boxed io::Error with a bit-packed representation), which dominates the run time.

fn put_field(f: &ExtensionField<'_>, min: u16, version: ExtensionHeaderVersion, out: &mut [u8]) -> (std::io::Result<()>, usize) {
    let mut cur = Cursor::new(out);
    let r = f.serialize(&mut cur, min, version);
    (r, cur.position() as usize)
}
const MINS: [u16; 4] = [0, 4, 16, 28];

// ================================================================ C14: size contracts of the encoders
// Sizes are measured with a counting writer (Sink) over symbolic payload lengths 0..=1100 and
// minimum sizes 0..=64. The unbounded version of these size contracts is a separate Verus lemma.

/// SPEC: bytes on the wire of a field with `len` payload bytes, minimum size `min`
fn wire_len(len: usize, min: u16) -> usize {
    (core::cmp::max(len + 4, min as usize) + 3) / 4 * 4
}
/// SPEC: value of the length field
fn length_field(len: usize, min: u16, version: ExtensionHeaderVersion) -> usize {
    match version {
        ExtensionHeaderVersion::V4 => wire_len(len, min),
        ExtensionHeaderVersion::V5 => core::cmp::max(len + 4, min as usize),
    }
}
/// oversize payloads are rejected with an error by framing and padding (no panic, no arithmetic
/// overflow): the boundary values and usize::MAX, concretely.
#[kani::proof]
#[kani::unwind(6)]
fn c14_tb_framing_rejects_oversize() {
    for len in [65_532usize, 65_533, 65_536, 1 << 32, usize::MAX] {
        let mut out = [0u8; 16];
        let mut cur = Cursor::new(&mut out[..]);
        assert!(ExtensionField::encode_framing(&mut cur, ExtensionFieldTypeId::NtsCookie, len, 16, V4).is_err());
        assert!(ExtensionField::encode_padding(&mut cur, len, 16).is_err());
        assert!(cur.position() == 0);
    }
    kani::cover!(true, "reachable");
}
/// the length field written by encode_framing over the FULL accepted domain (len <= 65531,
/// min: u16, both versions): equals length_field(..) unless NTPv4 and max(len+4, min) is in
/// 65533..=65535, where the u16 rounding wraps and 0 is written (complete; loop-free).
#[kani::proof]
fn c14_p_framing_length_field() {
    let len: usize = kani::any();
    let min: u16 = kani::any();
    kani::assume(len <= 65_531);
    let version = any_version();
    let mut out = [0u8; 4];
    let mut cur = Cursor::new(&mut out[..]);
    assert!(ExtensionField::encode_framing(&mut cur, ExtensionFieldTypeId::NtsCookie, len, min, version).is_ok());
    drop(cur);
    let written = u16::from_be_bytes([out[2], out[3]]) as usize;
    if version == V5 || core::cmp::max(len + 4, min as usize) <= 65_532 {
        assert!(written == length_field(len, min, version));
    } else {
        assert!(written == 0); // V4, 65533..=65535: the u16 rounding wraps (see notes)
    }
    kani::cover!(len == 65_531 && version == V4, "wrap case reachable");
}

/// Abstract writer for the size contracts: counts bytes and keeps the first four (the field
/// header). Implements the crate's NonBlockingWrite; no copying, so payload lengths up to 1100
/// bytes (every cookie the 1024-byte buffer could ever hold) stay cheap.
pub(crate) struct Sink {
    pub n: usize,
    pub head: [u8; 4],
}
impl std::io::Write for Sink {
    fn write(&mut self, buf: &[u8]) -> std::io::Result<usize> {
        let mut i = 0;
        while i < 4 && i < buf.len() {
            if self.n + i < 4 {
                self.head[self.n + i] = buf[i];
            }
            i += 1;
        }
        self.n += buf.len();
        Ok(buf.len())
    }
    fn flush(&mut self) -> std::io::Result<()> {
        Ok(())
    }
}
impl NonBlockingWrite for Sink {}
const SIZE_MAX_LEN: usize = 1100;

/// per kind (framing + payload + padding, i.e. encode_framing / encode_padding / write_zeros are
/// exercised inside): bytes written == wire_len(len, min), type id and length field as specified,
/// for EVERY payload length 0..=1100, every minimum size 0..=64, both versions.
fn field_encoder_sizes(kind: u8) {
    let buf = [0u8; SIZE_MAX_LEN];
    let len: usize = kani::any();
    kani::assume(len <= SIZE_MAX_LEN);
    let min: u16 = kani::any();
    kani::assume(min <= 64);
    let version = any_version();
    let t: u16 = kani::any();
    let payload = &buf[..len];
    let mut w = Sink { n: 0, head: [0; 4] };
    let (res, type_id) = match kind {
        0 => (ExtensionField::encode_unique_identifier(&mut w, payload, min, version), 0x104u16),
        1 => (ExtensionField::encode_nts_cookie(&mut w, payload, min, version), 0x204),
        2 => (ExtensionField::encode_unknown(&mut w, t, payload, min, version), t),
        _ => (ExtensionField::encode_nts_cookie_placeholder(&mut w, len as u16, min, version), 0x304),
    };
    assert!(res.is_ok());
    assert!(w.n == wire_len(len, min));
    assert!(u16::from_be_bytes([w.head[0], w.head[1]]) == type_id);
    assert!(u16::from_be_bytes([w.head[2], w.head[3]]) as usize == length_field(len, min, version));
    kani::cover!(len == SIZE_MAX_LEN, "largest payload reachable");
    kani::cover!(len == 0 && min == 28, "empty payload grown to 28 reachable");
}
#[kani::proof]
#[kani::unwind(6)]
fn c14_b_unique_identifier_size() {
    field_encoder_sizes(0);
}
#[kani::proof]
#[kani::unwind(6)]
fn c14_b_nts_cookie_size() {
    field_encoder_sizes(1);
}
#[kani::proof]
#[kani::unwind(6)]
fn c14_b_unknown_field_size() {
    field_encoder_sizes(2);
}
// the placeholder writes its zeros in chunks of 32: 1100/32 + 1 iterations
#[kani::proof]
#[kani::unwind(38)]
fn c14_tb_nts_cookie_placeholder_size() {
    field_encoder_sizes(3);
}
#[kani::proof]
#[kani::unwind(6)]
fn c14_b_draft_identification_size() {
    let id = crate::packet::v5::DRAFT_VERSION;
    let min: u16 = kani::any();
    kani::assume(min <= 64);
    let version = any_version();
    let mut w = Sink { n: 0, head: [0; 4] };
    assert!(ExtensionField::encode_draft_identification(&mut w, id, min, version).is_ok());
    assert!(w.n == wire_len(id.len(), min));
    assert!(u16::from_be_bytes([w.head[2], w.head[3]]) as usize == length_field(id.len(), min, version));
    kani::cover!(min == 4 && w.n == 28, "the 28-byte draft id field");
}
/// encode_padding_field(length): requires length >= 4 (the caller passes desired - written with
/// both multiples of 4 and desired > written); then writes roundup4(length) bytes (min 4, NTPv5),
/// every length 4..=1100.
#[kani::proof]
#[kani::unwind(38)]
fn c14_tb_padding_field_size() {
    let length: usize = kani::any();
    kani::assume(length >= 4 && length <= SIZE_MAX_LEN);
    let mut w = Sink { n: 0, head: [0; 4] };
    assert!(ExtensionField::encode_padding_field(&mut w, length, 4, V5).is_ok());
    assert!(w.n == (length + 3) / 4 * 4);
    assert!(u16::from_be_bytes([w.head[0], w.head[1]]) == 0xF501 && u16::from_be_bytes([w.head[2], w.head[3]]) as usize == length);
    kani::cover!(length == SIZE_MAX_LEN, "reachable");
}
/// canary: without the precondition (length < 4) the subtraction overflows (debug panic)
#[kani::proof]
#[kani::unwind(6)]
fn c14_canary_padding_field_short() {
    let mut w = Sink { n: 0, head: [0; 4] };
    let _ = ExtensionField::encode_padding_field(&mut w, 3, 4, V5);
}

/// encode_encrypted with an AEAD whose interface behaves like AES-SIV (16-byte nonce, ciphertext
/// = plaintext + 16): writes 8 + 16 + plaintext + 16 bytes where plaintext = sum of the inner
/// fields' wire sizes (minimum size 0); header = (0x0404, total, 16, plaintext+16); the cipher got
/// aad == everything written before the field; a buffer that is too small gives an error.
/// Enumerated: 0 or 2 inner cookies of 5 bytes, 8 bytes before, exact / one-byte-short buffer, both versions.
#[kani::proof]
#[kani::unwind(14)]
fn c14_tb_encode_encrypted_size() {
    let buf: [u8; 8] = kani::any();
    for version in [V4, V5] {
        for n_fields in [0usize, 2] {
            for inner_len in [5usize] {
                for before in [8usize] {
                    let plain = n_fields * ((inner_len + 4 + 3) / 4 * 4);
                    let total = 8 + 16 + plain + 16;
                    for cap in [before + total, before + total - 1] {
                        let f = ExtensionField::NtsCookie(Cow::Borrowed(&buf[..inner_len]));
                        let fields = [f.clone(), f];
                        let mut out = [0xAAu8; 120];
                        let mut cur = Cursor::new(&mut out[..cap]);
                        cur.set_position(before as u64);
                        let cipher = ModelCipher::aes_siv_like();
                        ENC_CALLS.store(0, Relaxed);
                        let res = ExtensionField::encode_encrypted(&mut cur, &fields[..n_fields], &cipher, version);
                        let pos = cur.position() as usize;
                        drop(cur);
                        if before + total <= cap {
                            assert!(res.is_ok());
                            assert!(pos == before + total);
                            assert!(ENC_CALLS.load(Relaxed) == 1 && ENC_PT_LEN.load(Relaxed) == plain && ENC_AAD.1.load(Relaxed) == before);
                            assert!(out[before] == 0x04 && out[before + 1] == 0x04);
                            assert!(u16::from_be_bytes([out[before + 2], out[before + 3]]) as usize == total);
                            assert!(u16::from_be_bytes([out[before + 4], out[before + 5]]) == 16);
                            assert!(u16::from_be_bytes([out[before + 6], out[before + 7]]) as usize == plain + 16);
                        } else {
                            assert!(res.is_err());
                        }
                    }
                }
            }
        }
    }
    kani::cover!(true, "reachable");
}

/// LEMMA (complete over all cookie lengths 0..=65535, all gaps 1..=8, both NTS request shapes):
/// with the cap computed in source.rs `handle_timer` (n = min(gap, (1024-300)/max(L,1), 255)),
/// n >= 1 implies the request built by nts_poll_message(_v5) -- header 48, unique identifier
/// wire_len(32,16), cookie wire_len(L,16), n-1 placeholders wire_len(L,16), (v5: draft id
/// wire_len(23,16) and reference-id request 4+16), authenticator 8+16+16 -- is <= 1024 bytes.
/// The per-field sizes are the proved contracts above; this is the arithmetic over them.
#[kani::proof]
fn c14_p_poll_request_fits_lemma() {
    let l: u16 = kani::any();
    let gap: usize = kani::any();
    kani::assume(gap >= 1 && gap <= 8);
    let v5: bool = kani::any();
    let n = core::cmp::min(gap, core::cmp::min((1024 - 300) / core::cmp::max(l as usize, 1), u8::MAX as usize));
    if n >= 1 {
        let mut size = 48 + wire_len(32, 16) + wire_len(l as usize, 16) + (n - 1) * wire_len(l as usize, 16) + 8 + 16 + 16;
        if v5 {
            size += wire_len(23, 16) + 4 + 16;
        }
        assert!(size <= 1024);
        assert!(size <= 940); // exact maximum (L = 89..=90, 8 cookies, NTPv5): 84 bytes of margin
    } else {
        assert!(l as usize > 724);
    }
    kani::cover!(n == 8 && l == 90 && v5, "eight cookies of 90 bytes reachable (940 bytes)");
    kani::cover!(n == 1 && l == 724, "largest single cookie reachable");
}
#[kani::proof]
fn c14_canary_poll_request_fits_without_cap() {
    let l: u16 = kani::any();
    let n: usize = 8;
    kani::assume(l <= 724);
    assert!(48 + wire_len(32, 16) + n * wire_len(l as usize, 16) + 40 <= 1024);
}

#[cfg(all(kani, test))]
mod replay {
    use super::*;
    include!(concat!(env!("VERIF_REPLAY_DIR"), "/ntp_proto__packet__extension_fields.rs"));
}
