// Contract harnesses for ntp-proto/src/packet/mac.rs (child module: sees private items).
// Properties: C23/C22 (Mac::deserialize is total), C24 (MAC round trip).
#![allow(unused_imports, dead_code)]
use super::*;
use std::io::Cursor;

/// Mac::deserialize: no panic for every input of length <= the bound (loop-free);
/// Ok <=> 4 <= len <= 24; keyid == first four bytes (big endian); mac == the remaining bytes.
fn mac_deserialize_total<const N: usize>() {
    let data: [u8; N] = kani::any();
    let len: usize = kani::any();
    kani::assume(len <= N);
    let d = &data[..len];
    match Mac::deserialize(d) {
        Ok(m) => {
            assert!(len >= 4 && len <= Mac::MAXIMUM_SIZE);
            assert!(m.keyid == u32::from_be_bytes([d[0], d[1], d[2], d[3]]));
            assert!(m.mac.len() == len - 4);
            let i: usize = kani::any();
            kani::assume(i < len - 4);
            assert!(m.mac[i] == d[4 + i]);
        }
        Err(ParsingError::IncorrectLength) => assert!(len < 4 || len > Mac::MAXIMUM_SIZE),
        Err(_) => panic!("unexpected error kind"),
    }
    kani::cover!(len == 24, "largest accepted reachable");
    kani::cover!(len == N, "largest input reachable");
}
// loop-free; the bound only limits the explored slice length (1100 covers the 1024-byte receive
// buffer; thorough 4100 covers C23's 0..4096)
#[kani::proof]
fn c23_b_mac_deserialize_total() {
    mac_deserialize_total::<1100>();
}
#[kani::proof]
fn c23_tb_mac_deserialize_total() {
    mac_deserialize_total::<4100>();
}
#[kani::proof]
fn c23_canary_mac_accepts_25() {
    let data: [u8; 25] = kani::any();
    assert!(Mac::deserialize(&data).is_ok());
}

/// C24: every accepted MAC re-encodes to exactly the input bytes, and decodes again to the same value.
#[kani::proof]
#[kani::unwind(26)]
fn c24_p_mac_roundtrip() {
    let data: [u8; 24] = kani::any();
    let len: usize = kani::any();
    kani::assume(len <= 24);
    let d = &data[..len];
    if let Ok(m) = Mac::deserialize(d) {
        let mut out = [0u8; 24];
        let mut cur = Cursor::new(&mut out[..]);
        assert!(m.serialize(&mut cur).is_ok());
        let n = cur.position() as usize;
        assert!(n == len);
        assert!(&out[..n] == d);
        let m2 = Mac::deserialize(&out[..n]).unwrap();
        assert!(m2 == m);
        // a buffer that is too short gives an error, not a panic
        let short: usize = kani::any();
        kani::assume(short < len);
        let mut out2 = [0u8; 24];
        let mut cur2 = Cursor::new(&mut out2[..short]);
        assert!(m.serialize(&mut cur2).is_err());
    }
    kani::cover!(len == 24, "reachable");
    kani::cover!(len == 4, "crypto-NAK sized reachable");
}

#[cfg(all(kani, test))]
mod replay {
    use super::*;
    include!(concat!(env!("VERIF_REPLAY_DIR"), "/ntp_proto__packet__mac.rs"));
}
