// Contract harnesses for ntp-proto/src/packet/mod.rs (child module: sees private items).
// Properties: C18 (answers echo correctly, reflect nothing else), C23/C22 (decoder totality,
// header part), C24 (header round trip), C14 (poll request fits), C17 (request-sized buffer).
#![allow(unused_imports, dead_code)]
use super::*;
use crate::packet::v5::server_reference_id::BloomFilter;
use crate::system::{NtpSnapshot, TimeSnapshot};
use crate::verif_common::harness;

// field-level constructors/observers used by the source.rs / system.rs harnesses (see common.rs FromParts/Parts)
#[path = "source_parts.rs"]
mod source_parts;
use std::sync::atomic::{AtomicBool, AtomicU64, AtomicU8, AtomicUsize, Ordering::Relaxed};

// ---------------------------------------------------------------- generators (full domains)

pub(crate) fn any_ts() -> NtpTimestamp {
    NtpTimestamp::from_bits(kani::any())
}
pub(crate) fn any_dur() -> NtpDuration {
    NtpDuration::from_bits(kani::any())
}
pub(crate) fn any_leap() -> NtpLeapIndicator {
    match kani::any::<u8>() {
        0 => NtpLeapIndicator::NoWarning,
        1 => NtpLeapIndicator::Leap61,
        2 => NtpLeapIndicator::Leap59,
        3 => NtpLeapIndicator::Unknown,
        _ => NtpLeapIndicator::Unsynchronized,
    }
}
pub(crate) fn any_mode() -> NtpAssociationMode {
    match kani::any::<u8>() {
        0 => NtpAssociationMode::Reserved,
        1 => NtpAssociationMode::SymmetricActive,
        2 => NtpAssociationMode::SymmetricPassive,
        3 => NtpAssociationMode::Client,
        4 => NtpAssociationMode::Server,
        5 => NtpAssociationMode::Broadcast,
        6 => NtpAssociationMode::Control,
        _ => NtpAssociationMode::Private,
    }
}
/// every value of the V3/V4 header type (all twelve fields unconstrained)
pub(crate) fn any_header_v3v4() -> NtpHeaderV3V4 {
    NtpHeaderV3V4 {
        leap: any_leap(),
        mode: any_mode(),
        stratum: kani::any(),
        poll: PollInterval::from_byte(kani::any()),
        precision: kani::any(),
        root_delay: any_dur(),
        root_dispersion: any_dur(),
        reference_id: ReferenceId::from_int(kani::any()),
        reference_timestamp: any_ts(),
        origin_timestamp: any_ts(),
        receive_timestamp: any_ts(),
        transmit_timestamp: any_ts(),
    }
}
/// every time snapshot (floats over the full f64 domain, including NaN / infinities)
pub(crate) fn any_time_snapshot() -> TimeSnapshot {
    TimeSnapshot {
        precision: any_dur(),
        root_delay: any_dur(),
        root_variance_base_time: any_ts(),
        root_variance_base: kani::any(),
        root_variance_linear: kani::any(),
        root_variance_quadratic: kani::any(),
        root_variance_cubic: kani::any(),
        leap_indicator: any_leap(),
        accumulated_steps: any_dur(),
        accumulated_steps_threshold: if kani::any() { Some(any_dur()) } else { None },
    }
}
/// a bloom filter with 512 unconstrained bytes, built through the crate's public API (the bytes
/// are private to server_reference_id.rs): one full-size chunk handed to RemoteBloomFilter
pub(crate) fn any_bloom() -> BloomFilter {
    use crate::packet::v5::server_reference_id::RemoteBloomFilter;
    let bytes: [u8; 512] = kani::any();
    let mut r = RemoteBloomFilter::new(512).unwrap();
    let c = v5::NtpClientCookie([0; 8]);
    let _ = r.next_request(c);
    r.handle_response(c, &v5::extension_fields::ReferenceIdResponse::new(&bytes).unwrap())
        .unwrap();
    *r.full_filter().unwrap()
}
/// every server snapshot; `symbolic_bloom == false` fixes the (here irrelevant) filter to zeros
pub(crate) fn any_server_info(symbolic_bloom: bool) -> NtpServerInfo {
    NtpServerInfo {
        time_snapshot: any_time_snapshot(),
        ntp_snapshot: NtpSnapshot {
            stratum: kani::any(),
            reference_id: ReferenceId::from_int(kani::any()),
            bloom_filter: if symbolic_bloom { any_bloom() } else { BloomFilter::new() },
        },
    }
}

pub(crate) fn any_version() -> ExtensionHeaderVersion {
    if kani::any() {
        ExtensionHeaderVersion::V4
    } else {
        ExtensionHeaderVersion::V5
    }
}
/// prefix of `buf` with an unconstrained length 0..=N
pub(crate) fn any_prefix<const N: usize>(buf: &[u8; N]) -> &[u8] {
    let n: usize = kani::any();
    kani::assume(n <= N);
    &buf[..n]
}
/// Every extension-field value whose byte payload is a prefix of `buf` (kind unconstrained; the
/// draft-identification string is one of three representatives because `str` contents can only
/// be produced from literals without `unsafe`).
pub(crate) fn any_field<'a, const N: usize>(buf: &'a [u8; N]) -> ExtensionField<'a> {
    match kani::any::<u8>() {
        0 => ExtensionField::UniqueIdentifier(Cow::Borrowed(any_prefix(buf))),
        1 => ExtensionField::NtsCookie(Cow::Borrowed(any_prefix(buf))),
        2 => ExtensionField::NtsCookiePlaceholder { cookie_length: kani::any() },
        3 => ExtensionField::InvalidNtsEncryptedField,
        4 => ExtensionField::DraftIdentification(Cow::Borrowed(match kani::any::<u8>() {
            0 => v5::DRAFT_VERSION,
            1 => "",
            _ => "draft-other",
        })),
        5 => ExtensionField::Padding(kani::any()),
        6 => ExtensionField::ReferenceIdRequest(any_refid_request()),
        7 => ExtensionField::ReferenceIdResponse(v5::extension_fields::ReferenceIdResponse::decode(any_prefix(buf))),
        _ => ExtensionField::Unknown { type_id: kani::any(), data: Cow::Borrowed(any_prefix(buf)) },
    }
}

/// every reference-id request the decoder can return (payload 2..=65531, any offset) or the public
/// constructor can build (the type's fields are private to its module)
pub(crate) fn any_refid_request() -> v5::extension_fields::ReferenceIdRequest {
    if kani::any() {
        let mut data = [0u8; 65_531];
        data[0] = kani::any();
        data[1] = kani::any();
        let len: usize = kani::any();
        kani::assume(len >= 2 && len <= 65_531);
        v5::extension_fields::ReferenceIdRequest::decode(&data[..len]).unwrap()
    } else {
        match v5::extension_fields::ReferenceIdRequest::new(kani::any(), kani::any()) {
            Some(r) => r,
            None => v5::extension_fields::ReferenceIdRequest::new(4, 0).unwrap(),
        }
    }
}

// ---------------------------------------------------------------- model cipher (recording)
// Implements the crate's `Cipher` trait. It records what it is handed (ghost state) and returns
// harness-chosen results. It models *an arbitrary AEAD implementation's interface behaviour*
// (any nonce length accepted, decrypt either fails or returns some plaintext); that a tampered
// input makes the real AES-SIV fail is assumption A3 (ideal AEAD), not modelled here.
pub(crate) static DEC_CALLS: crate::verif_common::Ghost<AtomicU8> = crate::verif_common::Ghost::new(0x675a6e46d34a6a2f, AtomicU8::new(0));
pub(crate) static DEC_NONCE: crate::verif_common::Ghost<(AtomicUsize, AtomicUsize)> = crate::verif_common::Ghost::new(0x67843f4a7249bf0c, (AtomicUsize::new(0), AtomicUsize::new(0)));
pub(crate) static DEC_CT: crate::verif_common::Ghost<(AtomicUsize, AtomicUsize)> = crate::verif_common::Ghost::new(0x67253e92c210751d, (AtomicUsize::new(0), AtomicUsize::new(0)));
pub(crate) static DEC_AAD: crate::verif_common::Ghost<(AtomicUsize, AtomicUsize)> = crate::verif_common::Ghost::new(0x679986682162e36c, (AtomicUsize::new(0), AtomicUsize::new(0)));
pub(crate) static ENC_CALLS: crate::verif_common::Ghost<AtomicU8> = crate::verif_common::Ghost::new(0x67b4a28598a7149b, AtomicU8::new(0));
pub(crate) static ENC_AAD: crate::verif_common::Ghost<(AtomicUsize, AtomicUsize)> = crate::verif_common::Ghost::new(0x67829164fde91ea9, (AtomicUsize::new(0), AtomicUsize::new(0)));
pub(crate) static ENC_PT_LEN: crate::verif_common::Ghost<AtomicUsize> = crate::verif_common::Ghost::new(0x6725b32873568803, AtomicUsize::new(0));

pub(crate) struct ModelCipher {
    /// decrypt: succeed?
    pub decrypt_ok: bool,
    /// decrypt: the plaintext returned on success is `plaintext[..plaintext_len]`
    pub plaintext: [u8; 8],
    pub plaintext_len: usize,
    /// encrypt: nonce and tag lengths produced (AES-SIV: 16 and 16)
    pub nonce_len: usize,
    pub tag_len: usize,
    /// decrypt: reject nonces whose length differs from `nonce_len` (the real AES-SIV accepts any)
    pub strict_nonce: bool,
}
impl zeroize::ZeroizeOnDrop for ModelCipher {}
impl ModelCipher {
    pub(crate) fn aes_siv_like() -> Self {
        ModelCipher { decrypt_ok: true, plaintext: [0; 8], plaintext_len: 0, nonce_len: 16, tag_len: 16, strict_nonce: false }
    }
}
impl Cipher for ModelCipher {
    fn encrypt(&self, buffer: &mut [u8], plaintext_length: usize, associated_data: &[u8]) -> std::io::Result<EncryptResult> {
        ENC_CALLS.store(ENC_CALLS.load(Relaxed).saturating_add(1), Relaxed);
        ENC_AAD.0.store(associated_data.as_ptr() as usize, Relaxed);
        ENC_AAD.1.store(associated_data.len(), Relaxed);
        ENC_PT_LEN.store(plaintext_length, Relaxed);
        // same interface behaviour as the real ciphers: nonce, then ciphertext (= plaintext
        // length + tag); fails with WriteZero when the buffer cannot hold them
        if buffer.len() < self.nonce_len + plaintext_length + self.tag_len {
            return Err(std::io::ErrorKind::WriteZero.into());
        }
        buffer.copy_within(..plaintext_length, self.nonce_len);
        Ok(EncryptResult { nonce_length: self.nonce_len, ciphertext_length: plaintext_length + self.tag_len })
    }
    fn decrypt(&self, nonce: &[u8], ciphertext: &[u8], associated_data: &[u8]) -> Result<Vec<u8>, DecryptError> {
        DEC_CALLS.store(DEC_CALLS.load(Relaxed).saturating_add(1), Relaxed);
        DEC_NONCE.0.store(nonce.as_ptr() as usize, Relaxed);
        DEC_NONCE.1.store(nonce.len(), Relaxed);
        DEC_CT.0.store(ciphertext.as_ptr() as usize, Relaxed);
        DEC_CT.1.store(ciphertext.len(), Relaxed);
        DEC_AAD.0.store(associated_data.as_ptr() as usize, Relaxed);
        DEC_AAD.1.store(associated_data.len(), Relaxed);
        if self.decrypt_ok && !(self.strict_nonce && nonce.len() != self.nonce_len) {
            Ok(self.plaintext[..self.plaintext_len].to_vec())
        } else {
            Err(DecryptError)
        }
    }
    fn key_bytes(&self) -> &[u8] {
        &[]
    }
}
/// any model cipher: decrypt result and plaintext (<= 8 bytes) unconstrained
pub(crate) fn any_model_cipher() -> ModelCipher {
    let plaintext_len: usize = kani::any();
    kani::assume(plaintext_len <= 8);
    ModelCipher { decrypt_ok: kani::any(), plaintext: kani::any(), plaintext_len, nonce_len: 16, tag_len: 16, strict_nonce: false }
}

// `NtpServerCookie::new_random` draws from the thread RNG (getrandom syscall + SIMD ChaCha: the
// latter makes the Kani compiler ICE as soon as it is reachable). Stub: the cookie is an arbitrary
// value chosen by the harness (any value the RNG could return). Needed by every harness from which
// an NTPv5 builder is reachable by type, even when the NTPv5 arm is not taken.
pub(crate) static SERVER_COOKIE: crate::verif_common::Ghost<AtomicU64> = crate::verif_common::Ghost::new(0x67d3e36ede2bee74, AtomicU64::new(0));
pub(crate) fn server_cookie_stub() -> v5::NtpServerCookie {
    v5::NtpServerCookie(SERVER_COOKIE.load(Relaxed).to_be_bytes())
}
pub(crate) fn pick_server_cookie() -> v5::NtpServerCookie {
    SERVER_COOKIE.store(kani::any(), Relaxed);
    server_cookie_stub()
}

/// clock whose reading is a harness-chosen value; steering entry points are not reachable from
/// the response builders (asserted: they fail the proof if called)
#[derive(Clone)]
pub(crate) struct VClock(pub NtpTimestamp);
impl NtpClock for VClock {
    type Error = std::io::Error;
    fn now(&self) -> Result<NtpTimestamp, Self::Error> {
        Ok(self.0)
    }
    fn set_frequency(&self, _: f64) -> Result<NtpTimestamp, Self::Error> {
        panic!("response builders must not steer the clock")
    }
    fn get_frequency(&self) -> Result<f64, Self::Error> {
        panic!("response builders must not read the frequency")
    }
    fn step_clock(&self, _: NtpDuration) -> Result<NtpTimestamp, Self::Error> {
        panic!("response builders must not steer the clock")
    }
    fn disable_ntp_algorithm(&self) -> Result<(), Self::Error> {
        panic!("response builders must not steer the clock")
    }
    fn error_estimate_update(&self, _: NtpDuration, _: NtpDuration) -> Result<(), Self::Error> {
        panic!("response builders must not steer the clock")
    }
    fn status_update(&self, _: NtpLeapIndicator) -> Result<(), Self::Error> {
        panic!("response builders must not steer the clock")
    }
}

pub(crate) fn raw(d: NtpDuration) -> i64 {
    i64::from_be_bytes((NtpTimestamp::from_bits([0; 8]) + d).to_bits())
}

// `TimeSnapshot::root_dispersion` (f64 polynomial + sqrt + from_seconds) is not part of C18's
// statement; callers here are checked against "some duration that depends only on the snapshot
// and the reception time" (uninterpreted value fixed per harness). Its own behaviour (including
// the debug_assert on a NaN variance inside NtpDuration::from_seconds) belongs to C22/C06.
static RD: crate::verif_common::Ghost<std::sync::atomic::AtomicI64> = crate::verif_common::Ghost::new(0x67c4a8a3a1c1dd84, std::sync::atomic::AtomicI64::new(0));
pub(crate) fn root_dispersion_uf(_s: &TimeSnapshot, _now: NtpTimestamp) -> NtpDuration {
    NtpDuration::from_bits(RD.load(Relaxed).to_be_bytes())
}
pub(crate) fn rd_value() -> NtpDuration {
    RD.store(kani::any(), Relaxed);
    NtpDuration::from_bits(RD.load(Relaxed).to_be_bytes())
}
fn zero_ts() -> NtpTimestamp {
    NtpTimestamp::from_bits([0; 8])
}
fn zero_dur() -> NtpDuration {
    NtpDuration::from_bits([0; 8])
}

// ================================================================ C18: V3/V4 header builders

/// post<=statement: server mode; origin == request transmit; poll echoed; receive == reception
/// time; transmit == clock reading; stratum / leap / reference id / root delay / precision are the
/// server snapshot's; nothing else of the request is reflected (a second request that agrees on
/// the two echoed fields gets the identical answer).
#[kani::proof]
#[kani::stub(crate::system::TimeSnapshot::root_dispersion, root_dispersion_uf)]
fn c18_p_v4_header_timestamp_response() {
    let info = any_server_info(false);
    let req = any_header_v3v4();
    let recv = any_ts();
    let clock = VClock(any_ts());
    let rd = rd_value();
    let r = NtpHeaderV3V4::timestamp_response(&info, req, recv, &clock);
    assert!(r.mode == NtpAssociationMode::Server);
    assert!(r.origin_timestamp == req.transmit_timestamp);
    assert!(r.poll == req.poll);
    assert!(r.receive_timestamp == recv);
    assert!(r.transmit_timestamp == clock.0);
    assert!(r.stratum == info.ntp_snapshot.stratum);
    assert!(r.leap == info.time_snapshot.leap_indicator);
    assert!(r.reference_id == info.ntp_snapshot.reference_id);
    assert!(r.root_delay == info.time_snapshot.root_delay);
    assert!(r.root_dispersion == rd);
    assert!(r.precision == info.time_snapshot.precision.log2());
    // reference timestamp: derived from the reception time only (low 7 second bits and the
    // fraction cleared), not from the request
    let rt = u64::from_be_bytes(r.reference_timestamp.to_bits());
    assert!(rt == u64::from_be_bytes(recv.to_bits()) & !((1u64 << 39) - 1));
    // non-reflection: any other request with the same transmit timestamp and poll gets the same header
    let mut req2 = any_header_v3v4();
    req2.transmit_timestamp = req.transmit_timestamp;
    req2.poll = req.poll;
    let r2 = NtpHeaderV3V4::timestamp_response(&info, req2, recv, &clock);
    assert!(r2 == r);
    kani::cover!(req.mode != NtpAssociationMode::Client && r.stratum == 16, "reachable");
}

/// KISS answers (RATE / DENY / NTS-NAK): server mode, stratum 0, kiss code in the reference id,
/// origin == request transmit, no server timestamps; every other field is a constant (nothing of
/// the server state or of the request).
fn check_kiss_v4(r: NtpHeaderV3V4, req: NtpHeaderV3V4, code: &[u8; 4]) {
    assert!(r.mode == NtpAssociationMode::Server);
    assert!(r.stratum == 0);
    assert!(r.reference_id.to_bytes() == *code);
    assert!(r.origin_timestamp == req.transmit_timestamp);
    assert!(r.receive_timestamp == zero_ts());
    assert!(r.transmit_timestamp == zero_ts());
    assert!(r.reference_timestamp == zero_ts());
    assert!(r.root_delay == zero_dur() && r.root_dispersion == zero_dur());
    assert!(r.leap == NtpLeapIndicator::NoWarning && r.precision == 0);
}
#[kani::proof]
fn c18_p_v4_header_kiss_responses() {
    let req = any_header_v3v4();
    let mut req2 = any_header_v3v4();
    req2.transmit_timestamp = req.transmit_timestamp;
    let r = NtpHeaderV3V4::rate_limit_response(req);
    check_kiss_v4(r, req, b"RATE");
    assert!(NtpHeaderV3V4::rate_limit_response(req2) == r);
    let d = NtpHeaderV3V4::deny_response(req);
    check_kiss_v4(d, req, b"DENY");
    assert!(NtpHeaderV3V4::deny_response(req2) == d);
    let n = NtpHeaderV3V4::nts_nak_response(req);
    check_kiss_v4(n, req, b"NTSN");
    assert!(NtpHeaderV3V4::nts_nak_response(req2) == n);
    kani::cover!(req.stratum != 0 && req.poll != PollInterval::from_byte(0), "reachable");
}
/// canary (false claim): a KISS answer echoes the request's poll like a time answer does.
#[kani::proof]
fn c18_canary_v4_kiss_echoes_poll() {
    let req = any_header_v3v4();
    assert!(NtpHeaderV3V4::deny_response(req).poll == req.poll);
}

// ================================================================ C18: packet-level builders
// bounded: each of the three field lists of the request holds <= 2 fields of any kind with
// payloads of <= 4 bytes (contents unconstrained); MAC optional.

pub(crate) type EF<'a> = ExtensionField<'a>;

/// a field list of length 0..=2
pub(crate) fn any_fields<'a, const N: usize>(b0: &'a [u8; N], b1: &'a [u8; N]) -> Vec<EF<'a>> {
    // vec! + truncate: Vec::push growth with a symbolic length is very slow in CBMC
    let mut v = vec![any_field(b0), any_field(b1)];
    let n: usize = kani::any();
    kani::assume(n <= 2);
    v.truncate(n);
    v
}
pub(crate) fn any_mac<'a>(buf: &'a [u8; 4]) -> Option<Mac<'a>> {
    if kani::any() {
        Some(Mac::deserialize(buf).unwrap())
    } else {
        None
    }
}
pub(crate) fn any_efdata<'a, const N: usize>(bufs: &'a [[u8; N]; 6]) -> ExtensionFieldData<'a> {
    ExtensionFieldData {
        authenticated: any_fields(&bufs[0], &bufs[1]),
        encrypted: any_fields(&bufs[2], &bufs[3]),
        untrusted: any_fields(&bufs[4], &bufs[5]),
    }
}

/// SPEC (from the statement): the unique-identifier fields of the request's unauthenticated and
/// authenticated lists, in order; nothing from `encrypted`, no other kind.
pub(crate) fn spec_uid_echo<'a>(untrusted: &[EF<'a>], authenticated: &[EF<'a>]) -> Vec<EF<'a>> {
    let mut v = Vec::new();
    for f in untrusted.iter().chain(authenticated.iter()) {
        if let EF::UniqueIdentifier(_) = f {
            v.push(f.clone());
        }
    }
    v
}
/// SPEC for NTPv5 time answers: unique identifiers echoed; each reference-id request whose window
/// lies in the server's filter answered with exactly that window; one draft identification last.
pub(crate) fn spec_v5_time_fields<'a>(untrusted: &[EF<'a>], authenticated: &[EF<'a>], filter: &'a BloomFilter) -> Vec<EF<'a>> {
    let mut v = Vec::new();
    for f in untrusted.iter().chain(authenticated.iter()) {
        match f {
            EF::UniqueIdentifier(_) => v.push(f.clone()),
            EF::ReferenceIdRequest(req) => {
                let (o, l) = (req.offset() as usize, req.payload_len() as usize);
                if o + l <= 512 {
                    v.push(EF::ReferenceIdResponse(v5::extension_fields::ReferenceIdResponse::decode(
                        &filter.as_bytes()[o..o + l],
                    )));
                }
            }
            _ => {}
        }
    }
    v.push(EF::DraftIdentification(Cow::Borrowed(v5::DRAFT_VERSION)));
    v
}
pub(crate) fn with_draft<'a>(mut v: Vec<EF<'a>>) -> Vec<EF<'a>> {
    v.push(EF::DraftIdentification(Cow::Borrowed(v5::DRAFT_VERSION)));
    v
}

/// a representative request with a FIXED shape and symbolic contents (the versions with symbolic
/// kinds and lengths are the other `_tb_` harnesses below):
///   unauthenticated: unique identifier(4) | cookie(4) | unknown(type t, 4) | reference-id request
///   authenticated:   unique identifier(4) | placeholder(8) | invalid authenticator marker
///   encrypted:       unique identifier(4) | cookie(4)
pub(crate) fn shaped_efdata<'a>(b: &'a [[u8; 4]; 6], t: u16) -> ExtensionFieldData<'a> {
    ExtensionFieldData {
        untrusted: vec![
            EF::UniqueIdentifier(Cow::Borrowed(&b[0][..])),
            EF::NtsCookie(Cow::Borrowed(&b[1][..])),
            EF::Unknown { type_id: t, data: Cow::Borrowed(&b[2][..]) },
            EF::ReferenceIdRequest(v5::extension_fields::ReferenceIdRequest::new(4, 8).unwrap()),
        ],
        authenticated: vec![
            EF::UniqueIdentifier(Cow::Borrowed(&b[3][..])),
            EF::NtsCookiePlaceholder { cookie_length: 8 },
            EF::InvalidNtsEncryptedField,
        ],
        encrypted: vec![EF::UniqueIdentifier(Cow::Borrowed(&b[4][..])), EF::NtsCookie(Cow::Borrowed(&b[5][..]))],
    }
}

/// NTPv4, shaped request, every builder: the answer's fields are exactly the two unique
/// identifiers of the unauthenticated and authenticated parts (NTS variants: the authenticated
/// one only, kept authenticated); nothing of the encrypted part, cookie, unknown field, MAC.
#[kani::proof]
#[kani::unwind(8)]
#[kani::stub(crate::system::TimeSnapshot::root_dispersion, root_dispersion_uf)]
#[kani::stub(crate::packet::v5::NtpServerCookie::new_random, server_cookie_stub)]
fn c18_tb_v4_packet_shaped_request() {
    let b: [[u8; 4]; 6] = kani::any();
    let macbuf: [u8; 4] = kani::any();
    let t: u16 = kani::any();
    let header = any_header_v3v4();
    let mk = || NtpPacket { header: NtpHeader::V4(header), efdata: shaped_efdata(&b, t), mac: any_mac(&macbuf) };
    let uid_u = EF::UniqueIdentifier(Cow::Borrowed(&b[0][..]));
    let uid_a = EF::UniqueIdentifier(Cow::Borrowed(&b[3][..]));
    let info = any_server_info(false);
    let (recv, clock, _rd) = (any_ts(), VClock(any_ts()), rd_value());
    let r = NtpPacket::timestamp_response(info, mk(), recv, &clock);
    let mut h = NtpHeaderV3V4::timestamp_response(&info, header, recv, &clock);
    if header.reference_timestamp == v5::UPGRADE_TIMESTAMP {
        h.reference_timestamp = v5::UPGRADE_TIMESTAMP;
    }
    assert!(r.header == NtpHeader::V4(h) && r.mac.is_none());
    assert!(r.efdata.authenticated.is_empty() && r.efdata.encrypted.is_empty());
    assert!(r.efdata.untrusted.len() == 2 && r.efdata.untrusted[0] == uid_u && r.efdata.untrusted[1] == uid_a);
    for which in 0..3u8 {
        let (r, h) = match which {
            0 => (NtpPacket::deny_response(mk()), NtpHeaderV3V4::deny_response(header)),
            1 => (NtpPacket::rate_limit_response(mk()), NtpHeaderV3V4::rate_limit_response(header)),
            _ => (NtpPacket::nts_nak_response(mk()), NtpHeaderV3V4::nts_nak_response(header)),
        };
        assert!(r.header == NtpHeader::V4(h) && r.mac.is_none());
        assert!(r.efdata.authenticated.is_empty() && r.efdata.encrypted.is_empty());
        assert!(r.efdata.untrusted.len() == 2 && r.efdata.untrusted[0] == uid_u && r.efdata.untrusted[1] == uid_a);
    }
    for which in 0..2u8 {
        let (r, h) = match which {
            0 => (NtpPacket::nts_deny_response(mk()), NtpHeaderV3V4::deny_response(header)),
            _ => (NtpPacket::nts_rate_limit_response(mk()), NtpHeaderV3V4::rate_limit_response(header)),
        };
        assert!(r.header == NtpHeader::V4(h) && r.mac.is_none());
        assert!(r.efdata.untrusted.is_empty() && r.efdata.encrypted.is_empty());
        assert!(r.efdata.authenticated.len() == 1 && r.efdata.authenticated[0] == uid_a);
    }
    // NTPv3: nothing at all is echoed
    let r3 = NtpPacket::timestamp_response(
        info,
        NtpPacket { header: NtpHeader::V3(header), efdata: shaped_efdata(&b, t), mac: any_mac(&macbuf) },
        recv,
        &clock,
    );
    assert!(matches!(r3.header, NtpHeader::V3(_)) && r3.mac.is_none() && r3.efdata == ExtensionFieldData::default());
    kani::cover!(header.mode == NtpAssociationMode::Client, "reachable");
}

/// Quick-tier slice of the packet-level builders: a request WITHOUT extension fields (any header,
/// optional MAC), NTPv3 and NTPv4. Every builder answers in the request's version with the header
/// of the header-level contract, no extension field and no MAC.
#[kani::proof]
#[kani::unwind(8)]
#[kani::stub(crate::system::TimeSnapshot::root_dispersion, root_dispersion_uf)]
#[kani::stub(crate::packet::v5::NtpServerCookie::new_random, server_cookie_stub)]
fn c18_b_v3v4_packet_builders_without_fields() {
    let macbuf: [u8; 4] = kani::any();
    let header = any_header_v3v4();
    let v3: bool = kani::any();
    let wrap = |h: NtpHeaderV3V4| if v3 { NtpHeader::V3(h) } else { NtpHeader::V4(h) };
    let mk = || NtpPacket { header: wrap(header), efdata: ExtensionFieldData::default(), mac: any_mac(&macbuf) };
    let info = any_server_info(false);
    let (recv, clock, _rd) = (any_ts(), VClock(any_ts()), rd_value());
    let empty = ExtensionFieldData::default();
    let r = NtpPacket::timestamp_response(info, mk(), recv, &clock);
    let mut h = NtpHeaderV3V4::timestamp_response(&info, header, recv, &clock);
    if !v3 && header.reference_timestamp == v5::UPGRADE_TIMESTAMP {
        h.reference_timestamp = v5::UPGRADE_TIMESTAMP;
    }
    assert!(r.header == wrap(h) && r.efdata == empty && r.mac.is_none(), "time answer keeps the version");
    let r = NtpPacket::deny_response(mk());
    assert!(r.header == wrap(NtpHeaderV3V4::deny_response(header)) && r.efdata == empty && r.mac.is_none(), "DENY keeps the version");
    let r = NtpPacket::rate_limit_response(mk());
    assert!(r.header == wrap(NtpHeaderV3V4::rate_limit_response(header)) && r.efdata == empty && r.mac.is_none(), "RATE keeps the version");
    if !v3 {
        let r = NtpPacket::nts_nak_response(mk());
        assert!(r.header == wrap(NtpHeaderV3V4::nts_nak_response(header)) && r.efdata == empty && r.mac.is_none());
        let r = NtpPacket::nts_deny_response(mk());
        assert!(r.header == wrap(NtpHeaderV3V4::deny_response(header)) && r.efdata == empty && r.mac.is_none());
        let r = NtpPacket::nts_rate_limit_response(mk());
        assert!(r.header == wrap(NtpHeaderV3V4::rate_limit_response(header)) && r.efdata == empty && r.mac.is_none());
    }
    kani::cover!(v3, "NTPv3 request");
    kani::cover!(!v3 && header.reference_timestamp == v5::UPGRADE_TIMESTAMP, "upgrade marker");
}

/// NTPv3: the answer has the request's version, the header of the header-level contract, no
/// extension fields and no MAC whatever the request carried.
#[kani::proof]
#[kani::unwind(26)]
#[kani::stub(crate::system::TimeSnapshot::root_dispersion, root_dispersion_uf)]
#[kani::stub(crate::packet::v5::NtpServerCookie::new_random, server_cookie_stub)]
fn c18_tb_v3_packet_responses() {
    let bufs: [[u8; 4]; 6] = kani::any();
    let macbuf: [u8; 4] = kani::any();
    let header = any_header_v3v4();
    let mk = || NtpPacket { header: NtpHeader::V3(header), efdata: any_efdata(&bufs), mac: any_mac(&macbuf) };
    let info = any_server_info(false);
    let (recv, clock, _rd) = (any_ts(), VClock(any_ts()), rd_value());
    let empty = ExtensionFieldData::default();
    let r = NtpPacket::timestamp_response(info, mk(), recv, &clock);
    assert!(r.header == NtpHeader::V3(NtpHeaderV3V4::timestamp_response(&info, header, recv, &clock)));
    assert!(r.efdata == empty && r.mac.is_none());
    let r = NtpPacket::deny_response(mk());
    assert!(r.header == NtpHeader::V3(NtpHeaderV3V4::deny_response(header)) && r.efdata == empty && r.mac.is_none());
    let r = NtpPacket::rate_limit_response(mk());
    assert!(r.header == NtpHeader::V3(NtpHeaderV3V4::rate_limit_response(header)) && r.efdata == empty && r.mac.is_none());
    kani::cover!(true, "reachable");
}

/// NTPv4 time answer: version 4; header per the header contract (the reference timestamp is the
/// fixed NTPv5-upgrade marker iff the request carried that marker); fields == spec_uid_echo, all
/// unauthenticated; nothing from `encrypted`; no MAC.
#[kani::proof]
#[kani::unwind(26)]
#[kani::stub(crate::system::TimeSnapshot::root_dispersion, root_dispersion_uf)]
#[kani::stub(crate::packet::v5::NtpServerCookie::new_random, server_cookie_stub)]
fn c18_tb_v4_packet_timestamp_response() {
    let bufs: [[u8; 4]; 6] = kani::any();
    let macbuf: [u8; 4] = kani::any();
    let header = any_header_v3v4();
    let input = NtpPacket { header: NtpHeader::V4(header), efdata: any_efdata(&bufs), mac: any_mac(&macbuf) };
    let expect = spec_uid_echo(&input.efdata.untrusted, &input.efdata.authenticated);
    let info = any_server_info(false);
    let (recv, clock, _rd) = (any_ts(), VClock(any_ts()), rd_value());
    let n_enc = input.efdata.encrypted.len();
    let r = NtpPacket::timestamp_response(info, input, recv, &clock);
    let mut h = NtpHeaderV3V4::timestamp_response(&info, header, recv, &clock);
    if header.reference_timestamp == v5::UPGRADE_TIMESTAMP {
        h.reference_timestamp = v5::UPGRADE_TIMESTAMP;
    }
    assert!(r.header == NtpHeader::V4(h));
    assert!(r.mac.is_none());
    assert!(r.efdata.authenticated.is_empty() && r.efdata.encrypted.is_empty());
    assert!(r.efdata.untrusted == expect);
    kani::cover!(r.efdata.untrusted.len() == 4, "four echoed identifiers reachable");
    kani::cover!(r.efdata.untrusted.is_empty() && n_enc == 2, "nothing echoed although fields were present");
}

/// NTPv4 DENY / RATE / NTS-NAK (and the NTS variants of DENY / RATE): KISS header per the header
/// contract; only unique identifiers echoed (NTS variants: those of the authenticated list, kept
/// authenticated); nothing from `encrypted`; no MAC.
#[kani::proof]
#[kani::unwind(26)]
#[kani::stub(crate::packet::v5::NtpServerCookie::new_random, server_cookie_stub)]
fn c18_tb_v4_packet_kiss_responses() {
    let bufs: [[u8; 4]; 6] = kani::any();
    let macbuf: [u8; 4] = kani::any();
    let header = any_header_v3v4();
    let input = NtpPacket { header: NtpHeader::V4(header), efdata: any_efdata(&bufs), mac: any_mac(&macbuf) };
    let expect = spec_uid_echo(&input.efdata.untrusted, &input.efdata.authenticated);
    let expect_auth = spec_uid_echo(&[], &input.efdata.authenticated);
    let which: u8 = kani::any();
    kani::assume(which < 5);
    let (r, h, nts) = match which {
        0 => (NtpPacket::deny_response(input), NtpHeaderV3V4::deny_response(header), false),
        1 => (NtpPacket::rate_limit_response(input), NtpHeaderV3V4::rate_limit_response(header), false),
        2 => (NtpPacket::nts_nak_response(input), NtpHeaderV3V4::nts_nak_response(header), false),
        3 => (NtpPacket::nts_deny_response(input), NtpHeaderV3V4::deny_response(header), true),
        _ => (NtpPacket::nts_rate_limit_response(input), NtpHeaderV3V4::rate_limit_response(header), true),
    };
    assert!(r.header == NtpHeader::V4(h));
    assert!(r.mac.is_none() && r.efdata.encrypted.is_empty());
    if nts {
        assert!(r.efdata.untrusted.is_empty() && r.efdata.authenticated == expect_auth);
    } else {
        assert!(r.efdata.authenticated.is_empty() && r.efdata.untrusted == expect);
    }
    kani::cover!(which == 2 && r.efdata.untrusted.len() == 3, "reachable");
    kani::cover!(which == 4 && r.efdata.authenticated.len() == 2, "reachable (nts)");
}

// ================================================================ C17: a request-sized buffer suffices
// Composition: decoder contract (c23_b_efdata_deserialize_nokeys_*: an accepted request of N bytes
// is header + sum of its fields' wire sizes + MAC tail), builder contract (C18) and the real
// encoder. Bound: <= 2 request fields, payloads <= 8 bytes.

/// SPEC: wire size of a decoded request field (header + payload, padded to a word)
pub(crate) fn spec_wire(f: &EF<'_>) -> usize {
    let payload = match f {
        EF::UniqueIdentifier(d) | EF::NtsCookie(d) => d.len(),
        EF::Unknown { data, .. } => data.len(),
        EF::NtsCookiePlaceholder { cookie_length } => *cookie_length as usize,
        EF::DraftIdentification(d) => d.len(),
        EF::ReferenceIdRequest(r) => r.payload_len() as usize,
        EF::ReferenceIdResponse(r) => r.bytes().len(),
        EF::InvalidNtsEncryptedField => 0,
        EF::Padding(n) => n.saturating_sub(4),
    };
    (payload + 4 + 3) / 4 * 4
}
/// a field as the NTPv4 decoder returns it without keys: payload (incl. padding) a multiple of 4
fn decoded_v4_field<'a>(buf: &'a [u8; 8]) -> EF<'a> {
    let n: usize = kani::any();
    kani::assume(n == 0 || n == 4 || n == 8);
    match kani::any::<u8>() {
        0 => EF::UniqueIdentifier(Cow::Borrowed(&buf[..n])),
        1 => EF::NtsCookie(Cow::Borrowed(&buf[..n])),
        2 => EF::NtsCookiePlaceholder { cookie_length: n as u16 },
        _ => {
            let t: u16 = kani::any();
            kani::assume(!matches!(t, 0x104 | 0x204 | 0x304 | 0x404));
            EF::Unknown { type_id: t, data: Cow::Borrowed(&buf[..n]) }
        }
    }
}
/// server snapshot whose root delay / dispersion are encodable (non-negative, < 2^48 units):
/// what the header encoder asserts; established by the system side (C33/C39), assumed here
fn encodable_server_info() -> NtpServerInfo {
    let info = any_server_info(false);
    let d = raw(info.time_snapshot.root_delay);
    kani::assume(d >= 0 && d < (1i64 << 48));
    let r = raw(rd_value());
    kani::assume(r >= 0 && r < (1i64 << 48));
    info
}

/// LEMMA over the contracts (pure arithmetic; decoder contract: an accepted NTPv4 request is
/// 48 + sum(4 + payload_i) + mac with every payload a multiple of 4 and more than 24 bytes left at
/// the start of every field; builder contract C18: the answer echoes exactly the unique
/// identifiers; encoder contract C14: field i costs roundup4(max(payload_i + 4, min_i)) with
/// min = 16, last field 28): the answer is not longer than the request, for up to 4 fields of any
/// payload length. EXPECTED TO FAIL (finding): e.g. two unique identifiers with 4-byte payloads
/// and a 24-byte tail: request 88 bytes, answer 92 bytes.
#[kani::proof]
#[kani::unwind(6)]
fn c17_b_v4_size_lemma() {
    let n: usize = kani::any();
    kani::assume(n <= 4);
    let payload: [u16; 4] = kani::any();
    let is_uid: [bool; 4] = kani::any();
    let mac: usize = kani::any();
    kani::assume(mac == 0 || (mac >= 4 && mac <= 24));
    let mut request = 48 + mac;
    let mut i = n;
    // walk backwards so that `left` is the number of bytes from field i to the end
    let mut left = mac;
    while i > 0 {
        i -= 1;
        kani::assume(payload[i] % 4 == 0 && payload[i] <= 65_528);
        left += 4 + payload[i] as usize;
        kani::assume(left > 24); // the decoder only parses a field while more than 24 bytes remain
        request += 4 + payload[i] as usize;
    }
    let mut echoed = 0;
    for k in 0..4 {
        if k < n && is_uid[k] {
            echoed += 1;
        }
    }
    let mut response = 48;
    let mut seen = 0;
    for k in 0..4 {
        if k < n && is_uid[k] {
            seen += 1;
            let min = if seen == echoed { 28 } else { 16 };
            response += (core::cmp::max(payload[k] as usize + 4, min) + 3) / 4 * 4;
        }
    }
    assert!(response <= request, "C17: the answer is not longer than the request");
    kani::cover!(n == 4 && echoed == 4, "four echoed identifiers reachable");
}
/// the same lemma for requests that themselves respect RFC 7822 (every field >= 16 bytes, and a
/// last field >= 28 bytes when no MAC follows): holds for all payload lengths.
#[kani::proof]
#[kani::unwind(6)]
fn c17_p_v4_size_lemma_rfc7822() {
    let n: usize = kani::any();
    kani::assume(n <= 4);
    let payload: [u16; 4] = kani::any();
    let is_uid: [bool; 4] = kani::any();
    let mac: usize = kani::any();
    kani::assume(mac == 0 || (mac >= 4 && mac <= 24));
    let mut request = 48 + mac;
    for k in 0..4 {
        if k < n {
            kani::assume(payload[k] % 4 == 0 && payload[k] <= 65_528 && payload[k] >= 12);
            if k + 1 == n && mac == 0 {
                kani::assume(payload[k] >= 24);
            }
            request += 4 + payload[k] as usize;
        }
    }
    let mut echoed = 0;
    for k in 0..4 {
        if k < n && is_uid[k] {
            echoed += 1;
        }
    }
    let mut response = 48;
    let mut seen = 0;
    for k in 0..4 {
        if k < n && is_uid[k] {
            seen += 1;
            let min = if seen == echoed { 28 } else { 16 };
            response += (core::cmp::max(payload[k] as usize + 4, min) + 3) / 4 * 4;
        }
    }
    // the echoed last identifier may be grown to 28 when the request's MAC is dropped, but the
    // dropped MAC (>= 4.. bytes) does not always pay for it: require the precise statement
    if mac == 0 {
        assert!(response <= request);
    }
    kani::cover!(n == 4 && echoed == 4 && mac == 0, "four echoed identifiers reachable");
}

/// NTPv4 time answer to an ACCEPTED request (<= 2 fields as decoded without keys, optional MAC
/// tail of 4..=24 bytes, every field started with more than 24 bytes left as the decoder
/// requires) serialises into a buffer as long as the request.
/// EXPECTED TO FAIL (finding): echoed unique identifiers are re-encoded with the RFC 7822
/// minimum sizes (16, last field 28), so short identifier fields make the answer longer.
#[kani::proof]
#[kani::unwind(34)]
#[kani::stub(crate::system::TimeSnapshot::root_dispersion, root_dispersion_uf)]
#[kani::stub(crate::packet::v5::NtpServerCookie::new_random, server_cookie_stub)]
fn c17_tb_v4_time_response_fits_request() {
    let bufs: [[u8; 8]; 2] = kani::any();
    let macbuf: [u8; 24] = kani::any();
    let nf: usize = kani::any();
    kani::assume(nf <= 2);
    let mut untrusted = Vec::new();
    if nf >= 1 {
        untrusted.push(decoded_v4_field(&bufs[0]));
    }
    if nf == 2 {
        untrusted.push(decoded_v4_field(&bufs[1]));
    }
    let mac_len: usize = kani::any();
    kani::assume(mac_len == 0 || (mac_len >= 4 && mac_len <= 24));
    let mac = if mac_len == 0 { None } else { Some(Mac::deserialize(&macbuf[..mac_len]).unwrap()) };
    // the request's size per the decoder contract, and the decoder's "more than 24 bytes left" rule
    let w0 = if nf >= 1 { spec_wire(&untrusted[0]) } else { 0 };
    let w1 = if nf == 2 { spec_wire(&untrusted[1]) } else { 0 };
    kani::assume(nf < 1 || w0 + w1 + mac_len > 24);
    kani::assume(nf < 2 || w1 + mac_len > 24);
    let request_len = 48 + w0 + w1 + mac_len;
    let header = any_header_v3v4();
    let input = NtpPacket {
        header: NtpHeader::V4(header),
        efdata: ExtensionFieldData { authenticated: vec![], encrypted: vec![], untrusted },
        mac,
    };
    let info = encodable_server_info();
    let response = NtpPacket::timestamp_response(info, input, any_ts(), &VClock(any_ts()));
    let mut out = [0u8; 128];
    let mut cur = Cursor::new(&mut out[..request_len]);
    let res = response.serialize(&mut cur, &NoCipher, Some(request_len));
    assert!(res.is_ok(), "C17: the answer fits a request-sized buffer");
    kani::cover!(nf == 2 && mac_len == 24, "two fields and a MAC tail reachable");
}
/// the same claim restricted to requests whose fields obey RFC 7822's own minimum sizes
/// (every field >= 16 bytes, last field before a missing MAC >= 28): holds.
#[kani::proof]
#[kani::unwind(34)]
#[kani::stub(crate::system::TimeSnapshot::root_dispersion, root_dispersion_uf)]
#[kani::stub(crate::packet::v5::NtpServerCookie::new_random, server_cookie_stub)]
fn c17_tb_v4_time_response_fits_rfc7822_request() {
    let bufs: [[u8; 24]; 2] = kani::any();
    let nf: usize = kani::any();
    kani::assume(nf <= 2);
    let l0: usize = kani::any();
    let l1: usize = kani::any();
    kani::assume((l0 == 12 || l0 == 16 || l0 == 24) && (l1 == 12 || l1 == 24));
    let mut untrusted = Vec::new();
    let kind_uid: [bool; 2] = kani::any();
    if nf >= 1 {
        untrusted.push(if kind_uid[0] { EF::UniqueIdentifier(Cow::Borrowed(&bufs[0][..l0])) } else { EF::NtsCookie(Cow::Borrowed(&bufs[0][..l0])) });
    }
    if nf == 2 {
        untrusted.push(if kind_uid[1] { EF::UniqueIdentifier(Cow::Borrowed(&bufs[1][..l1])) } else { EF::NtsCookie(Cow::Borrowed(&bufs[1][..l1])) });
    }
    // last field at least 28 bytes (no MAC follows)
    kani::assume(nf != 1 || l0 == 24);
    kani::assume(nf != 2 || l1 == 24);
    let request_len = 48 + if nf >= 1 { 4 + l0 } else { 0 } + if nf == 2 { 4 + l1 } else { 0 };
    let input = NtpPacket {
        header: NtpHeader::V4(any_header_v3v4()),
        efdata: ExtensionFieldData { authenticated: vec![], encrypted: vec![], untrusted },
        mac: None,
    };
    let info = encodable_server_info();
    let response = NtpPacket::timestamp_response(info, input, any_ts(), &VClock(any_ts()));
    let mut out = [0u8; 128];
    let mut cur = Cursor::new(&mut out[..request_len]);
    assert!(response.serialize(&mut cur, &NoCipher, Some(request_len)).is_ok());
    assert!(cur.position() as usize <= request_len);
    kani::cover!(nf == 2 && kind_uid[0] && kind_uid[1] && cur.position() as usize == request_len, "two identifiers echoed, same size");
}

// ================================================================ C19 (packet side): nts_timestamp_response
// `KeySet::encode_cookie` (AES-SIV encryption of the session keys) is replaced by its length
// contract: it returns some byte string whose length is fixed for the harness (a fresh cookie's
// size depends only on the algorithm's key sizes) and counts its calls. Its own contract
// (fresh cookie decodes to the same keys) is C26's.
pub(crate) static COOKIE_CALLS: crate::verif_common::Ghost<AtomicU8> = crate::verif_common::Ghost::new(0x6760a27d53d9dc42, AtomicU8::new(0));
pub(crate) static COOKIE_LEN: crate::verif_common::Ghost<AtomicUsize> = crate::verif_common::Ghost::new(0x676661f2229cdca0, AtomicUsize::new(0));
pub(crate) fn encode_cookie_stub(_ks: &KeySet, _c: &DecodedServerCookie) -> Vec<u8> {
    COOKIE_CALLS.store(COOKIE_CALLS.load(Relaxed).saturating_add(1), Relaxed);
    let mut v = Vec::new();
    let n = COOKIE_LEN.load(Relaxed);
    let mut i = 0;
    while i < n {
        v.push(kani::any());
        i += 1;
    }
    v
}
/// a key set built through the public loader (the fields are private to keyset.rs): one fixed key
pub(crate) fn some_keyset() -> std::sync::Arc<KeySet> {
    let mut bytes = [0u8; 20 + 64];
    bytes[19] = 1; // one key; time 0, id_offset 0, primary 0
    let mut rd: &[u8] = &bytes;
    crate::keyset::KeySetProvider::load(&mut rd, 1).unwrap().0.get()
}
pub(crate) fn model_cookie() -> DecodedServerCookie {
    DecodedServerCookie {
        algorithm: crate::nts::AeadAlgorithm::AeadAesSivCmac256,
        s2c: Box::new(ModelCipher::aes_siv_like()),
        c2s: Box::new(ModelCipher::aes_siv_like()),
    }
}
/// SPEC: how many fresh cookies an answer may carry: one per cookie/placeholder field among the
/// first MAX_COOKIES fields of the request's authenticated+encrypted parts whose size can hold a
/// fresh cookie of `fresh` bytes.
fn spec_fresh_cookies(auth: &[EF<'_>], enc: &[EF<'_>], fresh: usize) -> usize {
    let mut n = 0;
    let mut seen = 0;
    for f in auth.iter().chain(enc.iter()) {
        if seen == MAX_COOKIES {
            break;
        }
        seen += 1;
        match f {
            EF::NtsCookie(c) if fresh <= c.len() => n += 1,
            EF::NtsCookiePlaceholder { cookie_length } if fresh <= *cookie_length as usize => n += 1,
            _ => {}
        }
    }
    n
}
fn all_fresh_cookies(v: &[EF<'_>], fresh: usize) -> bool {
    for f in v {
        match f {
            EF::NtsCookie(c) if c.len() == fresh => {}
            _ => return false,
        }
    }
    true
}

/// NTS time answer, NTPv4 (bounded: request lists <= 2 fields each, payloads <= 4 bytes, fresh
/// cookie length 0..=4): header per the header contract; authenticated part == the unique
/// identifiers of the request's authenticated part only; encrypted part == exactly
/// spec_fresh_cookies fresh cookies (each no longer than the field it replaces, never more than
/// one per cookie/placeholder, <= 8); nothing unauthenticated; nothing else reflected; no MAC.
#[kani::proof]
#[kani::unwind(26)]
#[kani::stub(crate::system::TimeSnapshot::root_dispersion, root_dispersion_uf)]
#[kani::stub(crate::packet::v5::NtpServerCookie::new_random, server_cookie_stub)]
#[kani::stub(crate::keyset::KeySet::encode_cookie, encode_cookie_stub)]
fn c19_tb_v4_nts_timestamp_response() {
    let bufs: [[u8; 4]; 6] = kani::any();
    let macbuf: [u8; 4] = kani::any();
    let header = any_header_v3v4();
    let input = NtpPacket { header: NtpHeader::V4(header), efdata: any_efdata(&bufs), mac: any_mac(&macbuf) };
    let fresh: usize = kani::any();
    kani::assume(fresh <= 4);
    COOKIE_LEN.store(fresh, Relaxed);
    COOKIE_CALLS.store(0, Relaxed);
    let expect_auth = spec_uid_echo(&[], &input.efdata.authenticated);
    let expect_n = spec_fresh_cookies(&input.efdata.authenticated, &input.efdata.encrypted, fresh);
    let info = any_server_info(false);
    let (recv, clock, _rd) = (any_ts(), VClock(any_ts()), rd_value());
    let keyset = some_keyset();
    let cookie = model_cookie();
    let r = NtpPacket::nts_timestamp_response(info, input, recv, &clock, &cookie, &keyset);
    assert!(r.header == NtpHeader::V4(NtpHeaderV3V4::timestamp_response(&info, header, recv, &clock)));
    assert!(r.mac.is_none() && r.efdata.untrusted.is_empty());
    assert!(r.efdata.authenticated == expect_auth);
    assert!(r.efdata.encrypted.len() == expect_n && expect_n <= MAX_COOKIES);
    assert!(all_fresh_cookies(&r.efdata.encrypted, fresh));
    kani::cover!(expect_n == 4, "four fresh cookies reachable");
    kani::cover!(expect_n == 0 && COOKIE_CALLS.load(Relaxed) == 2, "too-small placeholders skipped");
}
/// the cap: a request with 10 placeholders gets at most MAX_COOKIES (8) fresh cookies.
#[kani::proof]
#[kani::unwind(12)]
#[kani::stub(crate::system::TimeSnapshot::root_dispersion, root_dispersion_uf)]
#[kani::stub(crate::packet::v5::NtpServerCookie::new_random, server_cookie_stub)]
#[kani::stub(crate::keyset::KeySet::encode_cookie, encode_cookie_stub)]
fn c19_tb_v4_nts_cookie_cap() {
    let len: u16 = kani::any();
    let mut authenticated = Vec::new();
    let mut i = 0;
    while i < 10 {
        authenticated.push(EF::NtsCookiePlaceholder { cookie_length: len });
        i += 1;
    }
    let input = NtpPacket {
        header: NtpHeader::V4(any_header_v3v4()),
        efdata: ExtensionFieldData { authenticated, encrypted: vec![], untrusted: vec![] },
        mac: None,
    };
    COOKIE_LEN.store(0, Relaxed);
    let _rd = rd_value();
    let keyset = some_keyset();
    let cookie = model_cookie();
    let r = NtpPacket::nts_timestamp_response(any_server_info(false), input, any_ts(), &VClock(any_ts()), &cookie, &keyset);
    assert!(r.efdata.encrypted.len() == MAX_COOKIES);
    assert!(r.efdata.authenticated.is_empty());
    kani::cover!(true, "reachable");
}

/// slice of the cookie contract (NTPv4; thorough tier: CBMC does not finish within 10 min -- the
/// iterator chain chain/take/filter_map/collect dominates): a request whose authenticated part is ONE field
/// -- a cookie of 0..=4 bytes or a placeholder of any declared length -- and a fresh cookie of
/// 0..=4 bytes: the answer carries exactly one fresh cookie if it fits in the field it replaces and
/// none otherwise; never more than one per field; nothing unauthenticated, no MAC.
#[kani::proof]
#[kani::unwind(12)]
#[kani::stub(crate::system::TimeSnapshot::root_dispersion, root_dispersion_uf)]
#[kani::stub(crate::packet::v5::NtpServerCookie::new_random, server_cookie_stub)]
#[kani::stub(crate::keyset::KeySet::encode_cookie, encode_cookie_stub)]
fn c19_tb_slice_v4_one_cookie_field() {
    let buf: [u8; 4] = kani::any();
    let n: usize = kani::any();
    kani::assume(n <= 4);
    let placeholder_len: u16 = kani::any();
    let is_placeholder: bool = kani::any();
    let field = if is_placeholder {
        EF::NtsCookiePlaceholder { cookie_length: placeholder_len }
    } else {
        EF::NtsCookie(std::borrow::Cow::Borrowed(&buf[..n]))
    };
    let room = if is_placeholder { placeholder_len as usize } else { n };
    let input = NtpPacket {
        header: NtpHeader::V4(any_header_v3v4()),
        efdata: ExtensionFieldData { authenticated: vec![field], encrypted: vec![], untrusted: vec![] },
        mac: None,
    };
    let fresh: usize = kani::any();
    kani::assume(fresh <= 4);
    COOKIE_LEN.store(fresh, Relaxed);
    let _rd = rd_value();
    let keyset = { use crate::verif_common::FromParts; KeySet::from_parts(()) }; // only handed to the stubbed encode_cookie
    let cookie = model_cookie();
    let r = NtpPacket::nts_timestamp_response(any_server_info(false), input, any_ts(), &VClock(any_ts()), &cookie, &keyset);
    let expect = if fresh <= room { 1 } else { 0 };
    assert!(r.efdata.encrypted.len() == expect, "one fresh cookie iff it is no larger than the field it replaces");
    assert!(all_fresh_cookies(&r.efdata.encrypted, fresh));
    assert!(r.efdata.authenticated.is_empty() && r.efdata.untrusted.is_empty() && r.mac.is_none());
    kani::cover!(expect == 0 && is_placeholder, "too-small placeholder gets no cookie");
    kani::cover!(expect == 1 && !is_placeholder, "cookie replaced by a fresh one");
}
/// CANARY (false claim, must be refuted): a cookie field is never answered with a fresh cookie.
#[kani::proof]
#[kani::unwind(12)]
#[kani::stub(crate::system::TimeSnapshot::root_dispersion, root_dispersion_uf)]
#[kani::stub(crate::packet::v5::NtpServerCookie::new_random, server_cookie_stub)]
#[kani::stub(crate::keyset::KeySet::encode_cookie, encode_cookie_stub)]
fn c19_tcanary_slice_v4_no_fresh_cookie() {
    let input = NtpPacket {
        header: NtpHeader::V4(any_header_v3v4()),
        efdata: ExtensionFieldData { authenticated: vec![EF::NtsCookiePlaceholder { cookie_length: kani::any() }], encrypted: vec![], untrusted: vec![] },
        mac: None,
    };
    COOKIE_LEN.store(0, Relaxed);
    let _rd = rd_value();
    let keyset = { use crate::verif_common::FromParts; KeySet::from_parts(()) }; // only handed to the stubbed encode_cookie
    let cookie = model_cookie();
    let r = NtpPacket::nts_timestamp_response(any_server_info(false), input, any_ts(), &VClock(any_ts()), &cookie, &keyset);
    assert!(r.efdata.encrypted.is_empty(), "CANARY: must be refuted");
}

// ================================================================ C23 / C22: header decoder is total

/// no panic + termination for every input of length <= 48 (complete: loop-free);
/// Ok <=> length >= 48; consumed == 48; every field equals its wire bytes.
#[kani::proof]
fn c23_p_v4_header_deserialize_total() {
    let data: [u8; 48] = kani::any();
    let len: usize = kani::any();
    kani::assume(len <= 48);
    let d = &data[..len];
    match NtpHeaderV3V4::deserialize(d) {
        Ok((h, n)) => {
            assert!(len == 48 && n == 48);
            assert!(h.leap.to_bits() == d[0] >> 6 && h.mode.to_bits() == d[0] & 7);
            assert!(h.leap != NtpLeapIndicator::Unknown);
            assert!(h.stratum == d[1] && h.poll.as_byte() == d[2] && h.precision == d[3] as i8);
            assert!(raw(h.root_delay) == (u32::from_be_bytes([d[4], d[5], d[6], d[7]]) as i64) << 16);
            assert!(raw(h.root_dispersion) == (u32::from_be_bytes([d[8], d[9], d[10], d[11]]) as i64) << 16);
            assert!(h.reference_id.to_bytes()[..] == d[12..16]);
            assert!(h.reference_timestamp.to_bits()[..] == d[16..24]);
            assert!(h.origin_timestamp.to_bits()[..] == d[24..32]);
            assert!(h.receive_timestamp.to_bits()[..] == d[32..40]);
            assert!(h.transmit_timestamp.to_bits()[..] == d[40..48]);
        }
        Err(_) => assert!(len < 48),
    }
    kani::cover!(len == 48, "accepting path reachable");
    kani::cover!(len == 0, "empty input reachable");
}
/// longer inputs (49..=64, bounded): verdict and header depend on the first 48 bytes only.
#[kani::proof]
fn c23_b_v4_header_deserialize_longer() {
    let data: [u8; 64] = kani::any();
    let len: usize = kani::any();
    kani::assume(len >= 48 && len <= 64);
    let (h, n) = NtpHeaderV3V4::deserialize(&data[..len]).unwrap();
    let (h2, _) = NtpHeaderV3V4::deserialize(&data[..48]).unwrap();
    assert!(n == 48 && h == h2);
    kani::cover!(len == 64, "reachable");
}
#[kani::proof]
fn c23_canary_v4_header_accepts_short() {
    let data: [u8; 48] = kani::any();
    let len: usize = kani::any();
    kani::assume(len <= 48);
    assert!(NtpHeaderV3V4::deserialize(&data[..len]).is_ok());
}

// ================================================================ C23 / C22: NtpPacket::deserialize by contract
// The extension-field walk is replaced by its proved contract (c23_b_efdata_deserialize_*,
// c25_b_*): any field list, a `remaining_bytes` suffix of the datagram (V4: <= 24 bytes, V5:
// empty), or any of its error kinds. The precondition `header_size <= data.len()` is asserted at
// the call site. What is discharged here: every panic site of NtpPacket::deserialize itself
// (indexing data[0], slicing data[header_size..], the MAC construction, the draft-id lookup).
use self::extension_fields::{DeserializedExtensionField, InvalidNtsExtensionField};
pub(crate) fn efdata_deserialize_contract<'a>(
    data: &'a [u8],
    header_size: usize,
    _cipher: &(impl CipherProvider + ?Sized),
    version: ExtensionHeaderVersion,
) -> Result<DeserializedExtensionField<'a>, ParsingError<InvalidNtsExtensionField<'a>>>
where
    'a: 'a,
{
    assert!(header_size <= data.len(), "precondition of ExtensionFieldData::deserialize");
    let k: usize = kani::any();
    kani::assume(k >= header_size && k <= data.len());
    match version {
        ExtensionHeaderVersion::V4 => kani::assume(data.len() - k <= Mac::MAXIMUM_SIZE),
        ExtensionHeaderVersion::V5 => kani::assume(k == data.len()),
    }
    let mut untrusted = Vec::new();
    match kani::any::<u8>() {
        0 => untrusted.push(EF::DraftIdentification(Cow::Borrowed(v5::DRAFT_VERSION))),
        1 => untrusted.push(EF::DraftIdentification(Cow::Borrowed("draft-other"))),
        2 => untrusted.push(EF::UniqueIdentifier(Cow::Borrowed(&data[header_size..k]))),
        3 => untrusted.push(EF::InvalidNtsEncryptedField),
        _ => {}
    }
    let efdata = ExtensionFieldData { authenticated: vec![], encrypted: vec![], untrusted };
    let remaining_bytes = &data[k..];
    match kani::any::<u8>() {
        0 => Ok(DeserializedExtensionField { efdata, remaining_bytes, cookie: None }),
        1 => Err(ParsingError::DecryptError(InvalidNtsExtensionField { efdata, remaining_bytes })),
        2 => Err(ParsingError::IncorrectLength),
        3 => Err(ParsingError::MalformedCookiePlaceholder),
        4 => Err(ParsingError::MalformedNtsExtensionFields),
        _ => Err(ParsingError::V5(v5::V5Error::InvalidDraftIdentification)),
    }
}
harness! {
    #[kani::unwind(26)]
    #[kani::stub(crate::packet::extension_fields::ExtensionFieldData::deserialize, efdata_deserialize_contract)]
    #[kani::stub(crate::packet::v5::NtpServerCookie::new_random, server_cookie_stub)]
    fn c23_tb_packet_deserialize_by_contract() {
        let data: [u8; 80] = kani::any();
        let len: usize = kani::any();
        kani::assume(len <= 80);
        let d = &data[..len];
        match NtpPacket::deserialize(d, &NoCipher) {
            Ok((p, cookie)) => {
                assert!(len >= 48 && cookie.is_none());
                let v = (d[0] >> 3) & 7;
                assert!(matches!((v, p.header), (3, NtpHeader::V3(_)) | (4, NtpHeader::V4(_)) | (5, NtpHeader::V5(_))));
                if v == 5 {
                    assert!(p.draft_id() == Some(v5::DRAFT_VERSION));
                }
            }
            Err(ParsingError::InvalidVersion(v)) => assert!(len >= 1 && v == (d[0] >> 3) & 7 && !(3..=5).contains(&v)),
            Err(ParsingError::DecryptError(p)) => assert!(len >= 48 && !matches!(p.header, NtpHeader::V3(_))),
            Err(_) => {}
        }
        kani::cover!(len == 80 && matches!(NtpPacket::deserialize(d, &NoCipher), Ok((p, _)) if matches!(p.header, NtpHeader::V5(_))), "accepted NTPv5 datagram reachable");
        kani::cover!(len == 0, "empty datagram reachable");
    }
}

// quick-tier slice of the same contract: datagrams shorter than a header (0..=47 bytes, the empty
// datagram included) are rejected without a panic, whatever their first byte says. The extension
// field decoder is replaced by its contract (it is never reached for these lengths: the contract
// stub asserts its precondition).
harness! {
    #[kani::unwind(8)]
    #[kani::stub(crate::packet::extension_fields::ExtensionFieldData::deserialize, efdata_deserialize_contract)]
    #[kani::stub(crate::packet::v5::NtpServerCookie::new_random, server_cookie_stub)]
    fn c23_tb_packet_deserialize_short_datagram_rejected() {
        let data: [u8; 47] = kani::any();
        let len: usize = kani::any();
        kani::assume(len <= 47);
        let d = &data[..len];
        let r = NtpPacket::deserialize(d, &NoCipher);
        match &r {
            Ok(_) => assert!(false, "a datagram shorter than a header is never accepted"),
            Err(ParsingError::InvalidVersion(v)) => assert!(len >= 1 && *v == (d[0] >> 3) & 7 && !(3..=5).contains(v)),
            Err(ParsingError::DecryptError(_)) => assert!(false, "no packet can come out of a short datagram"),
            Err(_) => {}
        }
        kani::cover!(len == 0, "empty datagram reachable");
        kani::cover!(len == 47 && (d[0] >> 3) & 7 == 4, "one byte short of a v4 header");
        core::mem::forget(r);
    }
}

// the boundary case of that contract at quick-tier cost: the EMPTY datagram (the version dispatch
// reads data[0]; lengths 1..=47 are rejected by the header decoders, c23_p_*_header_deserialize_total)
harness! {
    #[kani::unwind(8)]
    #[kani::stub(crate::packet::extension_fields::ExtensionFieldData::deserialize, efdata_deserialize_contract)]
    #[kani::stub(crate::packet::v5::NtpServerCookie::new_random, server_cookie_stub)]
    fn c23_p_packet_deserialize_empty_datagram_rejected() {
        let data: [u8; 0] = [];
        let r = NtpPacket::deserialize(&data[..], &NoCipher);
        let rejected = matches!(&r, Err(ParsingError::IncorrectLength));
        core::mem::forget(r);
        assert!(rejected, "the empty datagram is rejected as too short");
        kani::cover!(true, "reachable");
    }
}

// ================================================================ C24: V3/V4 header round trip

/// all 48-byte inputs, both versions: encode succeeds on the decoded header (to_bits_short asserts
/// a non-negative duration and debug-asserts the 48-bit range: hold for every decoded value),
/// writes exactly 48 bytes, and reproduces the input except the three version bits of byte 0.
#[kani::proof]
fn c24_p_v4_header_roundtrip() {
    let data: [u8; 48] = kani::any();
    let version: u8 = kani::any();
    kani::assume(version == 3 || version == 4);
    let (h, _) = NtpHeaderV3V4::deserialize(&data).unwrap();
    let mut out = [0u8; 48];
    let mut cur = Cursor::new(&mut out[..]);
    assert!(h.serialize(&mut cur, version).is_ok());
    assert!(cur.position() == 48);
    assert!(out[1..] == data[1..]);
    assert!(out[0] & 0xC7 == data[0] & 0xC7 && (out[0] >> 3) & 7 == version);
    let (h2, _) = NtpHeaderV3V4::deserialize(&out).unwrap();
    assert!(h2 == h);
    kani::cover!(data[0] >> 6 == 3, "leap 3 reachable");
}
/// every header VALUE whose short-format durations are representable survives encode/decode.
#[kani::proof]
fn c24_p_v4_header_value_roundtrip() {
    let h = any_header_v3v4();
    let (rd, rp) = (raw(h.root_delay), raw(h.root_dispersion));
    kani::assume(rd >= 0 && rd < (1i64 << 48) && rd & 0xFFFF == 0);
    kani::assume(rp >= 0 && rp < (1i64 << 48) && rp & 0xFFFF == 0);
    kani::assume(h.leap != NtpLeapIndicator::Unknown); // Unknown and Unsynchronized share wire value 3
    let mut out = [0u8; 48];
    let mut cur = Cursor::new(&mut out[..]);
    assert!(h.serialize(&mut cur, 4).is_ok());
    let (h2, n) = NtpHeaderV3V4::deserialize(&out).unwrap();
    assert!(n == 48 && h2 == h);
    kani::cover!(h.mode == NtpAssociationMode::Private, "reachable");
}
/// encode into a buffer shorter than 48 bytes returns an error (no panic, no partial success).
#[kani::proof]
fn c24_p_v4_header_short_buffer_errors() {
    let data: [u8; 48] = kani::any();
    let (h, _) = NtpHeaderV3V4::deserialize(&data).unwrap();
    let n: usize = kani::any();
    kani::assume(n < 48);
    let mut out = [0u8; 48];
    let mut cur = Cursor::new(&mut out[..n]);
    assert!(h.serialize(&mut cur, 4).is_err());
    kani::cover!(n == 47, "reachable");
}
#[kani::proof]
fn c24_canary_v4_header_negative_delay_encodes() {
    // false claim: every header value (also negative root delay) can be encoded
    let h = any_header_v3v4();
    kani::assume(raw(h.root_dispersion) == 0);
    let mut out = [0u8; 48];
    let mut cur = Cursor::new(&mut out[..]);
    assert!(h.serialize(&mut cur, 4).is_ok());
}


#[cfg(all(kani, test))]
mod replay {
    use super::*;
    include!(concat!(env!("VERIF_REPLAY_DIR"), "/ntp_proto__packet__mod.rs"));
}
