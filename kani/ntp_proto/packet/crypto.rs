// Contract harnesses for ntp-proto/src/packet/crypto.rs (child module: sees private items).
// Properties: C22/C23 (the buffer arithmetic around the AEAD calls does not panic). The AES-SIV
// implementations themselves (aes-siv / openssl) are trusted not to panic (assumption A3).
#![allow(unused_imports, dead_code)]
use super::*;

/// prepend_slice: no panic for every buffer <= 64 bytes, every plaintext length that fits a
/// usize sum, every nonce <= 16 bytes; Ok <=> buffer.len() >= nonce.len() + length; then the
/// nonce is at the front, the old prefix follows it, and the returned tail starts after the nonce.
#[kani::proof]
#[kani::unwind(66)]
fn c22_b_prepend_slice_total() {
    let mut buf: [u8; 64] = kani::any();
    let orig = buf;
    let blen: usize = kani::any();
    kani::assume(blen <= 64);
    let nonce_buf: [u8; 16] = kani::any();
    let nlen: usize = kani::any();
    kani::assume(nlen <= 16);
    let length: usize = kani::any();
    kani::assume(length <= usize::MAX - 16); // callers pass a length they wrote into this buffer
    let res = prepend_slice(&mut buf[..blen], length, &nonce_buf[..nlen]);
    match res {
        Ok(tail) => {
            assert!(blen >= nlen + length);
            assert!(tail.len() == blen - nlen);
            let i: usize = kani::any();
            kani::assume(i < length);
            assert!(tail[i] == orig[i]);
        }
        Err(_) => assert!(blen < nlen + length),
    }
    let j: usize = kani::any();
    kani::assume(j < nlen && blen >= nlen + length);
    assert!(buf[j] == nonce_buf[j]);
    kani::cover!(blen == 64 && nlen == 16 && length == 48, "exact fit reachable");
}
/// canary (false): prepend_slice never fails
#[kani::proof]
#[kani::unwind(66)]
fn c22_canary_prepend_slice_always_ok() {
    let mut buf: [u8; 8] = kani::any();
    let nonce: [u8; 4] = kani::any();
    let length: usize = kani::any();
    kani::assume(length <= 16);
    assert!(prepend_slice(&mut buf, length, &nonce).is_ok());
}

/// CipherHolder / CipherProvider plumbing: NoCipher never yields a cipher; Option<&dyn Cipher>
/// yields one iff Some (no panic, context ignored).
#[kani::proof]
fn c23_p_cipher_providers() {
    assert!(NoCipher.get(&[]).is_none());
    let none: Option<&dyn Cipher> = None;
    assert!(none.get(&[]).is_none());
    kani::cover!(true, "reachable");
}

#[cfg(all(kani, test))]
mod replay {
    use super::*;
    include!(concat!(env!("VERIF_REPLAY_DIR"), "/ntp_proto__packet__crypto.rs"));
}
