// Contract harnesses for ntp-proto/src/server.rs (child module: sees private items).
// Properties: C15 (access policy), C16 (response <= request), C20 (rate limiting), C21 (statistics),
// server side of C19 (decrypt failure never yields time) and C22 (handle never panics).
//
// Compiled in the TRANSFORMED copy (units have "transform": true): `RandomState` in server.rs is
// replaced by the shim of verif_common (std's RandomState::new needs getrandom; no other safe
// constructor exists, so a `Server`/`TimestampedCache` value cannot be built in place).
//
// Method: `Server::{handle, handle_inner, intended_action}` are the REAL functions; their callees
// are replaced by their contracts (kani::stub):
//   IpFilter::is_in                -> ghost booleans IN_DENY (1st consultation) / IN_ALLOW (2nd) (C31)
//   TimestampedCache::is_allowed   -> ghost boolean CACHE_RES (C20 proves its contract below)
//   NtpPacket::deserialize         -> generator: Err(other) | Err(DecryptError(p)) | Ok((p,None)) | Ok((p,Some(cookie)))
//   NtpPacket::{mode,version}      -> ghost values (the packet is opaque to server.rs)
//   NtpPacket::{nts_nak,deny,nts_deny,timestamp,nts_timestamp}_response -> recorders
//   NtpPacket::serialize           -> model: Err, or Ok after advancing the cursor by n <= remaining
#![cfg(feature = "verif-xrepo")] // compiled only in the transformed copy (needs the declared transforms)
#![allow(unused_imports, dead_code, clippy::all)]
use super::*;
use crate::keyset::{DecodedServerCookie, KeySetProvider};
use crate::nts::AeadAlgorithm;
use crate::packet::{
    CipherHolder, CipherProvider, DecryptError, EncryptResult, ExtensionField, NtpAssociationMode,
};
use crate::verif_common::harness;
use std::net::{Ipv4Addr, Ipv6Addr};
use std::sync::atomic::{AtomicBool, AtomicU64, AtomicU8, AtomicUsize, Ordering::Relaxed};

// ================================================================ ghost state
fn bump(c: &AtomicU8) {
    c.store(c.load(Relaxed).saturating_add(1), Relaxed);
}

// --- filters (contract of IpFilter::is_in: some boolean function of (filter, address); C31)
static IN_DENY: crate::verif_common::Ghost<AtomicBool> = crate::verif_common::Ghost::new(0x6791818083a6361f, AtomicBool::new(false));
static IN_ALLOW: crate::verif_common::Ghost<AtomicBool> = crate::verif_common::Ghost::new(0x67db2cbceef08b67, AtomicBool::new(false));
static DENY_CALLS: crate::verif_common::Ghost<AtomicU8> = crate::verif_common::Ghost::new(0x672893b88c012c10, AtomicU8::new(0));
static ALLOW_CALLS: crate::verif_common::Ghost<AtomicU8> = crate::verif_common::Ghost::new(0x6732ca501c25fdf1, AtomicU8::new(0));
static OTHER_FILTER_CALLS: crate::verif_common::Ghost<AtomicU8> = crate::verif_common::Ghost::new(0x672d408cee8a3987, AtomicU8::new(0));
static ALLOW_BEFORE_DENY: crate::verif_common::Ghost<AtomicBool> = crate::verif_common::Ghost::new(0x67acb14611addd05, AtomicBool::new(false));
static FILTER_WRONG_IP: crate::verif_common::Ghost<AtomicBool> = crate::verif_common::Ghost::new(0x67918b4d2a2b2fc7, AtomicBool::new(false));
// the client address the harness passes in (tag 4/6, high and low 64 bits)
static IP_TAG: crate::verif_common::Ghost<AtomicU8> = crate::verif_common::Ghost::new(0x6733d9f74795edcf, AtomicU8::new(0));
static IP_HI: crate::verif_common::Ghost<AtomicU64> = crate::verif_common::Ghost::new(0x67939489911d94b3, AtomicU64::new(0));
static IP_LO: crate::verif_common::Ghost<AtomicU64> = crate::verif_common::Ghost::new(0x675e21a42c48530f, AtomicU64::new(0));

fn ip_key(ip: IpAddr) -> (u8, u64, u64) {
    match ip {
        IpAddr::V4(a) => (4, 0, u32::from_be_bytes(a.octets()) as u64),
        IpAddr::V6(a) => {
            let v = u128::from_be_bytes(a.octets());
            (6, (v >> 64) as u64, v as u64)
        }
    }
}
fn remember_ip(ip: IpAddr) {
    let (t, h, l) = ip_key(ip);
    IP_TAG.store(t, Relaxed);
    IP_HI.store(h, Relaxed);
    IP_LO.store(l, Relaxed);
}
fn is_remembered_ip(ip: IpAddr) -> bool {
    ip_key(ip) == (IP_TAG.load(Relaxed), IP_HI.load(Relaxed), IP_LO.load(Relaxed))
}

fn is_in_stub(_this: &IpFilter, addr: IpAddr) -> bool {
    // Which filter is asked is decided by CALL ORDER: the first consultation is answered with the
    // deny-list verdict, the second with the allow-list verdict (telling the two filter objects
    // apart by address needs a pointer-to-integer cast, which makes CBMC's memory model explode).
    // That the first consultation really is `self.denyfilter` is pinned by an anchor in the unit.
    if !is_remembered_ip(addr) {
        FILTER_WRONG_IP.store(true, Relaxed);
    }
    let k = DENY_CALLS.load(Relaxed) + ALLOW_CALLS.load(Relaxed);
    if k == 0 {
        bump(&DENY_CALLS);
        IN_DENY.load(Relaxed)
    } else if k == 1 {
        bump(&ALLOW_CALLS);
        IN_ALLOW.load(Relaxed)
    } else {
        bump(&OTHER_FILTER_CALLS);
        kani::any()
    }
}

// --- rate-limit cache (contract of TimestampedCache::is_allowed: some boolean; proved under C20)
static CACHE_RES: crate::verif_common::Ghost<AtomicBool> = crate::verif_common::Ghost::new(0x67dfcf1e597c065d, AtomicBool::new(false));
static CACHE_CALLS: crate::verif_common::Ghost<AtomicU8> = crate::verif_common::Ghost::new(0x67b93a48b8fb76e8, AtomicU8::new(0));
static CACHE_CALL_BEFORE_LISTS_PASSED: crate::verif_common::Ghost<AtomicBool> = crate::verif_common::Ghost::new(0x67bd9a2f2a8aaecf, AtomicBool::new(false));

fn is_allowed_stub<T: std::hash::Hash + Eq>(
    _this: &mut TimestampedCache<T>,
    _item: T,
    _timestamp: Instant,
    _cutoff: Duration,
) -> bool {
    let lists_passed = DENY_CALLS.load(Relaxed) == 1
        && ALLOW_CALLS.load(Relaxed) == 1
        && !IN_DENY.load(Relaxed)
        && IN_ALLOW.load(Relaxed);
    if !lists_passed {
        CACHE_CALL_BEFORE_LISTS_PASSED.store(true, Relaxed);
    }
    bump(&CACHE_CALLS);
    CACHE_RES.load(Relaxed)
}

// --- parser generator (contract of NtpPacket::deserialize, proved on the packet side C22/C23/C25):
//   returns Err(non-decrypt error) | Err(DecryptError(packet)) | Ok((packet, None)) | Ok((packet, Some(cookie)));
//   a DecryptError or a cookie only ever come with a V4 or V5 packet (the V3 arm has no extension fields).
const GEN_ERR: u8 = 0;
const GEN_DECRYPT_ERR: u8 = 1;
const GEN_PLAIN: u8 = 2;
const GEN_NTS: u8 = 3;
static GEN_KIND: crate::verif_common::Ghost<AtomicU8> = crate::verif_common::Ghost::new(0x6728c26acbc0f57a, AtomicU8::new(0));
// Case split (complete): every `handle` harness exists twice, for the parser outcomes without a
// cookie (GEN_ERR | GEN_DECRYPT_ERR | GEN_PLAIN: "plain family") and for Ok((packet, Some(cookie)))
// ("nts family"). The flag is a concrete constant per harness so that CBMC prunes the
// Box<dyn Cipher> construction/drop glue (very expensive) from the plain family.
static FAMILY_NTS: crate::verif_common::Ghost<AtomicBool> = crate::verif_common::Ghost::new(0x6778f539ec16e1f3, AtomicBool::new(false));
static DESER_CALLS: crate::verif_common::Ghost<AtomicU8> = crate::verif_common::Ghost::new(0x67c02fc1a6a8fba2, AtomicU8::new(0));
// mode() / version() of the generated packet
static MODE: crate::verif_common::Ghost<AtomicU8> = crate::verif_common::Ghost::new(0x67ff8696f82671ae, AtomicU8::new(0));
static VERSION: crate::verif_common::Ghost<AtomicU8> = crate::verif_common::Ghost::new(0x67e3b57386a1b9c5, AtomicU8::new(0));
const S2C_TAG: u8 = 0x5c;
const C2S_TAG: u8 = 0xc5;

struct GhostCipher {
    key: [u8; 1],
}
impl zeroize::ZeroizeOnDrop for GhostCipher {}
impl Cipher for GhostCipher {
    fn encrypt(&self, _b: &mut [u8], _l: usize, _a: &[u8]) -> std::io::Result<EncryptResult> {
        Err(std::io::ErrorKind::Other.into())
    }
    fn decrypt(&self, _n: &[u8], _c: &[u8], _a: &[u8]) -> Result<Vec<u8>, DecryptError> {
        Err(DecryptError)
    }
    fn key_bytes(&self) -> &[u8] {
        &self.key
    }
}
fn ghost_cookie() -> DecodedServerCookie {
    DecodedServerCookie {
        algorithm: AeadAlgorithm::AeadAesSivCmac256,
        s2c: Box::new(GhostCipher { key: [S2C_TAG] }),
        c2s: Box::new(GhostCipher { key: [C2S_TAG] }),
    }
}

fn deser_gen<'a>(
    _data: &'a [u8],
    _cipher: &(impl CipherProvider + ?Sized),
) -> Result<(NtpPacket<'a>, Option<DecodedServerCookie>), PacketParsingError<'a>>
where
    'a: 'a,
{
    bump(&DESER_CALLS);
    if FAMILY_NTS.load(Relaxed) {
        return Ok((NtpPacket::default(), Some(ghost_cookie())));
    }
    match GEN_KIND.load(Relaxed) {
        GEN_ERR => {
            let w: u8 = kani::any();
            Err(match w % 6 {
                0 => PacketParsingError::InvalidVersion(kani::any()),
                1 => PacketParsingError::IncorrectLength,
                2 => PacketParsingError::MalformedNtsExtensionFields,
                3 => PacketParsingError::MalformedNonce,
                4 => PacketParsingError::MalformedCookiePlaceholder,
                _ => PacketParsingError::V5(crate::packet::v5::V5Error::InvalidDraftIdentification),
            })
        }
        GEN_DECRYPT_ERR => Err(PacketParsingError::DecryptError(NtpPacket::default())),
        _ => Ok((NtpPacket::default(), None)),
    }
}

fn mode_of(code: u8) -> NtpAssociationMode {
    match code {
        0 => NtpAssociationMode::Reserved,
        1 => NtpAssociationMode::SymmetricActive,
        2 => NtpAssociationMode::SymmetricPassive,
        3 => NtpAssociationMode::Client,
        4 => NtpAssociationMode::Server,
        5 => NtpAssociationMode::Broadcast,
        6 => NtpAssociationMode::Control,
        _ => NtpAssociationMode::Private,
    }
}
fn version_of(code: u8) -> NtpVersion {
    match code {
        3 => NtpVersion::V3,
        4 => NtpVersion::V4,
        _ => NtpVersion::V5,
    }
}
fn mode_stub<'a>(_p: &NtpPacket<'a>) -> NtpAssociationMode
where
    'a: 'a,
{
    mode_of(MODE.load(Relaxed))
}
fn version_stub<'a>(_p: &NtpPacket<'a>) -> NtpVersion
where
    'a: 'a,
{
    version_of(VERSION.load(Relaxed))
}

// --- response builders: recorders (the real V4/V5 kiss builders make Kani 0.68 ICE, intrinsics.rs:243;
// their own contracts are C18's). BUILT = the builder that ran.
const B_NONE: u8 = 0;
const B_NTS_NAK: u8 = 1;
const B_DENY: u8 = 2;
const B_NTS_DENY: u8 = 3;
const B_TIME: u8 = 4;
const B_NTS_TIME: u8 = 5;
static BUILT: crate::verif_common::Ghost<AtomicU8> = crate::verif_common::Ghost::new(0x67b7cdfb7cdb1780, AtomicU8::new(B_NONE));
static BUILD_CALLS: crate::verif_common::Ghost<AtomicU8> = crate::verif_common::Ghost::new(0x67f00668dc6be6d8, AtomicU8::new(0));
static BUILD_COOKIE_TAG: crate::verif_common::Ghost<AtomicU8> = crate::verif_common::Ghost::new(0x672a8880e970d458, AtomicU8::new(0));

fn built(code: u8) {
    bump(&BUILD_CALLS);
    BUILT.store(code, Relaxed);
}
fn nts_nak_rec<'a>(_p: NtpPacket<'a>) -> NtpPacket<'a>
where
    'a: 'a,
{
    built(B_NTS_NAK);
    NtpPacket::default()
}
fn deny_rec<'a>(_p: NtpPacket<'a>) -> NtpPacket<'a>
where
    'a: 'a,
{
    built(B_DENY);
    NtpPacket::default()
}
fn nts_deny_rec<'a>(_p: NtpPacket<'a>) -> NtpPacket<'a>
where
    'a: 'a,
{
    built(B_NTS_DENY);
    NtpPacket::default()
}
fn timestamp_rec<'a, C: NtpClock>(
    _server_info: NtpServerInfo,
    _input: NtpPacket<'a>,
    _recv_timestamp: NtpTimestamp,
    _clock: &C,
) -> NtpPacket<'a>
where
    'a: 'a,
{
    built(B_TIME);
    NtpPacket::default()
}
fn nts_timestamp_rec<'a, C: NtpClock>(
    _server_info: NtpServerInfo,
    _input: NtpPacket<'a>,
    _recv_timestamp: NtpTimestamp,
    _clock: &C,
    cookie: &DecodedServerCookie,
    _keyset: &KeySet,
) -> NtpPacket<'a>
where
    'a: 'a,
{
    built(B_NTS_TIME);
    BUILD_COOKIE_TAG.store(cookie.s2c.key_bytes()[0], Relaxed);
    NtpPacket::default()
}

// --- serializer model (contract of NtpPacket::serialize on a Cursor<&mut [u8]>: it only appends;
//     on Ok the position advanced by some n <= remaining; on Err nothing is promised)
static SER_OK: crate::verif_common::Ghost<AtomicBool> = crate::verif_common::Ghost::new(0x670c1e785cd37da5, AtomicBool::new(false));
static SER_N: crate::verif_common::Ghost<AtomicUsize> = crate::verif_common::Ghost::new(0x67ef7f098cdac956, AtomicUsize::new(0));
static SER_CALLS: crate::verif_common::Ghost<AtomicU8> = crate::verif_common::Ghost::new(0x6778c1aa4b8bf584, AtomicU8::new(0));
static SER_CIPHER_TAG: crate::verif_common::Ghost<AtomicU8> = crate::verif_common::Ghost::new(0x67dc63a9b830e306, AtomicU8::new(0)); // 0 = no cipher
static SER_DESIRED_SOME: crate::verif_common::Ghost<AtomicBool> = crate::verif_common::Ghost::new(0x6725ceafea803dff, AtomicBool::new(false));
static SER_DESIRED: crate::verif_common::Ghost<AtomicUsize> = crate::verif_common::Ghost::new(0x67d4f46a653ed8a9, AtomicUsize::new(0));

fn serialize_model<'a>(
    _this: &NtpPacket<'a>,
    w: &mut Cursor<&mut [u8]>,
    cipher: &(impl CipherProvider + ?Sized),
    desired_size: Option<usize>,
) -> std::io::Result<()>
where
    'a: 'a,
{
    bump(&SER_CALLS);
    let tag = match cipher.get(&[]) {
        Some(h) => {
            let c: &dyn Cipher = h.as_ref();
            c.key_bytes()[0]
        }
        None => 0,
    };
    SER_CIPHER_TAG.store(tag, Relaxed);
    SER_DESIRED_SOME.store(desired_size.is_some(), Relaxed);
    SER_DESIRED.store(desired_size.unwrap_or(0), Relaxed);
    let pos = w.position() as usize;
    let remaining = w.get_ref().len().saturating_sub(pos);
    let n = SER_N.load(Relaxed);
    if !SER_OK.load(Relaxed) || n > remaining {
        return Err(std::io::ErrorKind::WriteZero.into());
    }
    w.set_position((pos + n) as u64);
    Ok(())
}

// --- statistics recorder
static REG_CALLS: crate::verif_common::Ghost<AtomicU8> = crate::verif_common::Ghost::new(0x674c704d8447de48, AtomicU8::new(0));
static REG_VERSION: crate::verif_common::Ghost<AtomicU8> = crate::verif_common::Ghost::new(0x67cf52bcf6632d11, AtomicU8::new(0));
static REG_NTS: crate::verif_common::Ghost<AtomicBool> = crate::verif_common::Ghost::new(0x67a4f7618c0b9fd2, AtomicBool::new(false));
static REG_REASON: crate::verif_common::Ghost<AtomicU8> = crate::verif_common::Ghost::new(0x67f9d56d3942d902, AtomicU8::new(0));
static REG_RESPONSE: crate::verif_common::Ghost<AtomicU8> = crate::verif_common::Ghost::new(0x6769d3fa186c4eab, AtomicU8::new(0));
const R_RATELIMIT: u8 = 1;
const R_PARSE: u8 = 2;
const R_CRYPTO: u8 = 3;
const R_INTERNAL: u8 = 4;
const R_POLICY: u8 = 5;
const S_NAK: u8 = 1;
const S_DENY: u8 = 2;
const S_IGNORE: u8 = 3;
const S_TIME: u8 = 4;
struct RecStats;
impl ServerStatHandler for RecStats {
    fn register(&mut self, version: u8, nts: bool, reason: ServerReason, response: ServerResponse) {
        bump(&REG_CALLS);
        REG_VERSION.store(version, Relaxed);
        REG_NTS.store(nts, Relaxed);
        REG_REASON.store(
            match reason {
                ServerReason::RateLimit => R_RATELIMIT,
                ServerReason::ParseError => R_PARSE,
                ServerReason::InvalidCrypto => R_CRYPTO,
                ServerReason::InternalError => R_INTERNAL,
                ServerReason::Policy => R_POLICY,
            },
            Relaxed,
        );
        REG_RESPONSE.store(
            match response {
                ServerResponse::NTSNak => S_NAK,
                ServerResponse::Deny => S_DENY,
                ServerResponse::Ignore => S_IGNORE,
                ServerResponse::ProvideTime => S_TIME,
            },
            Relaxed,
        );
    }
}

// --- clock (assumption: reading the clock succeeds; `timestamp_response` does `.expect(..)`)
#[derive(Clone)]
struct AnyClock;
impl NtpClock for AnyClock {
    type Error = std::io::Error;
    fn now(&self) -> Result<NtpTimestamp, Self::Error> {
        Ok(NtpTimestamp::from_bits(kani::any()))
    }
    fn set_frequency(&self, _f: f64) -> Result<NtpTimestamp, Self::Error> {
        Err(std::io::ErrorKind::Other.into())
    }
    fn get_frequency(&self) -> Result<f64, Self::Error> {
        Err(std::io::ErrorKind::Other.into())
    }
    fn step_clock(&self, _o: NtpDuration) -> Result<NtpTimestamp, Self::Error> {
        Err(std::io::ErrorKind::Other.into())
    }
    fn disable_ntp_algorithm(&self) -> Result<(), Self::Error> {
        Err(std::io::ErrorKind::Other.into())
    }
    fn error_estimate_update(&self, _e: NtpDuration, _m: NtpDuration) -> Result<(), Self::Error> {
        Err(std::io::ErrorKind::Other.into())
    }
    fn status_update(&self, _l: NtpLeapIndicator) -> Result<(), Self::Error> {
        Err(std::io::ErrorKind::Other.into())
    }
}
use crate::packet::NtpLeapIndicator;
use crate::time_types::NtpDuration;

// ================================================================ generators
fn any_ip() -> IpAddr {
    if kani::any() {
        IpAddr::V4(Ipv4Addr::from(kani::any::<[u8; 4]>()))
    } else {
        IpAddr::V6(Ipv6Addr::from(kani::any::<[u8; 16]>()))
    }
}
fn any_filter_action() -> FilterAction {
    if kani::any() {
        FilterAction::Ignore
    } else {
        FilterAction::Deny
    }
}
fn any_duration() -> Duration {
    let n: u32 = kani::any();
    kani::assume(n < 1_000_000_000);
    Duration::new(kani::any(), n)
}
/// every accepted-version list of length <= 3 (all subsets, orders, duplicates)
fn any_version() -> NtpVersion {
    let c: u8 = kani::any();
    kani::assume(c >= 3 && c <= 5);
    version_of(c)
}
/// plain copy of the configuration fields the postconditions mention (ServerConfig::clone of the
/// empty subnet vectors trips CBMC's allocator checks, so the harness keeps its own copy)
#[derive(Clone, Copy, PartialEq, Eq)]
struct CfgSnap {
    deny_action: FilterAction,
    allow_action: FilterAction,
    require_nts: Option<FilterAction>,
    n_versions: usize,
    versions: [NtpVersion; 3],
    cutoff: Duration,
}
fn any_config() -> (ServerConfig, CfgSnap) {
    // accepted versions: literal + truncate: no reallocation, no loop (Vec growth is very expensive in CBMC)
    let n: usize = kani::any();
    kani::assume(n <= 3);
    let versions = [any_version(), any_version(), any_version()];
    let mut v = vec![versions[0], versions[1], versions[2]];
    v.truncate(n);
    let snap = CfgSnap {
        deny_action: any_filter_action(),
        allow_action: any_filter_action(),
        require_nts: if kani::any() { Some(any_filter_action()) } else { None },
        n_versions: n,
        versions,
        cutoff: any_duration(),
    };
    (
        ServerConfig {
            denylist: FilterList { filter: vec![], action: snap.deny_action },
            allowlist: FilterList { filter: vec![], action: snap.allow_action },
            rate_limiting_cache_size: kani::any(),
            rate_limiting_cutoff: snap.cutoff,
            require_nts: snap.require_nts,
            accepted_versions: v,
        },
        snap,
    )
}
fn config_unchanged(c: &ServerConfig, s: &CfgSnap) -> bool {
    c.denylist.action == s.deny_action
        && c.allowlist.action == s.allow_action
        && c.denylist.filter.is_empty()
        && c.allowlist.filter.is_empty()
        && c.require_nts == s.require_nts
        && c.rate_limiting_cutoff == s.cutoff
        && c.accepted_versions.len() == s.n_versions
}
fn empty_keyset() -> Arc<KeySet> {
    // the keyset is only handed to stubbed callees; built through the keyset.rs harness module
    // (fields are private to keyset.rs)
    use crate::verif_common::FromParts;
    Arc::new(KeySet::from_parts(()))
}
fn any_server(cache_len: usize) -> (Server<AnyClock>, CfgSnap) {
    let mut elements = vec![None, None, None];
    elements.truncate(cache_len);
    let (config, snap) = any_config();
    // IpFilter::new is the only constructor and costs CBMC ~30 s per call: build once, clone
    // (the contents are never read: IpFilter::is_in is replaced by its contract)
    let filter = IpFilter::new(&[]);
    (Server {
        config,
        clock: AnyClock,
        denyfilter: filter.clone(),
        allowfilter: filter,
        client_cache: TimestampedCache { randomstate: RandomState::new(), elements },
        server_info: Arc::new(RwLock::new(NtpServerInfo::default())),
        keyset: empty_keyset(),
    }, snap)
}
/// fix the ghost inputs (arbitrary) and tell the filter stub which filter is which
fn arm_ghosts(s: &Server<AnyClock>, ip: IpAddr, nts_family: bool) {
    let _ = s;
    IN_DENY.store(kani::any(), Relaxed);
    IN_ALLOW.store(kani::any(), Relaxed);
    CACHE_RES.store(kani::any(), Relaxed);
    remember_ip(ip);
    FAMILY_NTS.store(nts_family, Relaxed);
    let g: u8 = if nts_family { GEN_NTS } else { kani::any() };
    kani::assume(g <= 3 && (g == GEN_NTS) == nts_family);
    GEN_KIND.store(g, Relaxed);
    let m: u8 = kani::any();
    kani::assume(m <= 7);
    MODE.store(m, Relaxed);
    let v: u8 = kani::any();
    kani::assume(v >= 3 && v <= 5);
    // contract of the parser: NTS outcomes (cookie / decrypt error) never come with a V3 packet
    kani::assume(!(g == GEN_DECRYPT_ERR || g == GEN_NTS) || v != 3);
    VERSION.store(v, Relaxed);
    SER_OK.store(kani::any(), Relaxed);
    SER_N.store(kani::any(), Relaxed);
}

/// what the access lists say, from the statement: deny list first, then allow list
#[derive(PartialEq, Eq, Clone, Copy)]
enum ListVerdict {
    Ignore,
    Deny,
    Pass,
}
fn spec_lists(cfg: &CfgSnap) -> ListVerdict {
    let act = |a: FilterAction| match a {
        FilterAction::Ignore => ListVerdict::Ignore,
        FilterAction::Deny => ListVerdict::Deny,
    };
    if IN_DENY.load(Relaxed) {
        act(cfg.deny_action)
    } else if !IN_ALLOW.load(Relaxed) {
        act(cfg.allow_action)
    } else {
        ListVerdict::Pass
    }
}
fn version_accepted(cfg: &CfgSnap) -> bool {
    let v = version_of(VERSION.load(Relaxed));
    (cfg.n_versions > 0 && cfg.versions[0] == v)
        || (cfg.n_versions > 1 && cfg.versions[1] == v)
        || (cfg.n_versions > 2 && cfg.versions[2] == v)
}

/// Result of one call of the real `Server::handle` under the callee contracts.
struct Run {
    cfg: CfgSnap,
    responded: bool,
    msg_len: usize,
    msg_is_buffer_prefix: bool,
    buf_len: usize,
    req_len: usize,
    first_byte_version: u8,
}
const MSG_MAX: usize = 8; // request/buffer bytes are opaque to server.rs (only byte 0 and the lengths are read)
fn run_handle(request_sized_buffer: bool, nts_family: bool) -> Run {
    let (mut srv, cfg) = any_server(0);
    let ip = any_ip();
    arm_ghosts(&srv, ip, nts_family);
    let msg: [u8; MSG_MAX] = kani::any();
    let req_len: usize = kani::any();
    kani::assume(req_len <= MSG_MAX);
    let mut buf = [0u8; MSG_MAX];
    let buf_len: usize = if request_sized_buffer { req_len } else { kani::any() };
    kani::assume(buf_len <= MSG_MAX);
    let buf_ptr = buf.as_ptr();
    let mut stats = RecStats;
    let first_byte_version = if req_len == 0 { 0 } else { (msg[0] >> 3) & 7 };
    let action = srv.handle(
        ip,
        NtpTimestamp::from_bits(kani::any()),
        &msg[..req_len],
        &mut buf[..buf_len],
        &mut stats,
    );
    let (responded, msg_len, prefix) = match action {
        ServerAction::Ignore => (false, 0, true),
        ServerAction::Respond { message } => (true, message.len(), message.as_ptr() == buf_ptr),
    };
    Run {
        cfg,
        responded,
        msg_len,
        msg_is_buffer_prefix: prefix,
        buf_len,
        req_len,
        first_byte_version,
    }
}
fn built_time() -> bool {
    let b = BUILT.load(Relaxed);
    b == B_TIME || b == B_NTS_TIME
}

/// attribute bundle shared by all `handle` harnesses
macro_rules! handle_harness_one {
    ($fam:ident = $val:expr; $(#[$m:meta])* fn $name:ident() $body:block) => {
        harness! {
            #[kani::unwind(18)]
            #[kani::stub(IpFilter::is_in, is_in_stub)]
            #[kani::stub(TimestampedCache::is_allowed, is_allowed_stub)]
            #[kani::stub(NtpPacket::deserialize, deser_gen)]
            #[kani::stub(NtpPacket::mode, mode_stub)]
            #[kani::stub(NtpPacket::version, version_stub)]
            #[kani::stub(NtpPacket::nts_nak_response, nts_nak_rec)]
            #[kani::stub(NtpPacket::deny_response, deny_rec)]
            #[kani::stub(NtpPacket::nts_deny_response, nts_deny_rec)]
            #[kani::stub(NtpPacket::timestamp_response, timestamp_rec)]
            #[kani::stub(NtpPacket::nts_timestamp_response, nts_timestamp_rec)]
            #[kani::stub(NtpPacket::serialize, serialize_model)]
            $(#[$m])*
            fn $name() {
                #[allow(unused_variables)]
                let $fam: bool = $val;
                $body
            }
        }
    };
}
/// one body, two harnesses: `$plain` (parser outcomes without cookie) and `$nts` (cookie decoded)
macro_rules! handle_harness {
    ($(#[$m:meta])* fn $plain:ident() fn $nts:ident() with $fam:ident $body:block) => {
        handle_harness_one! { $fam = false; $(#[$m])* fn $plain() $body }
        handle_harness_one! { $fam = true; $(#[$m])* fn $nts() $body }
    };
}
/// cover that only makes sense in one family (trivially satisfied in the other)
macro_rules! cover_fam {
    ($fam:ident, $want:expr, $cond:expr, $msg:expr) => {
        kani::cover!(if $fam == $want { $cond } else { true }, $msg)
    };
}

// ================================================================ C15 access policy
harness! {
    // intended_action: the complete decision table, and the order of consultation.
    #[kani::unwind(18)]
    #[kani::stub(IpFilter::is_in, is_in_stub)]
    #[kani::stub(TimestampedCache::is_allowed, is_allowed_stub)]
    fn c15_p_intended_action_table() {
        let (mut srv, cfg) = any_server(0);
        let ip = any_ip();
        arm_ghosts(&srv, ip, false);
        let (resp, reason) = srv.intended_action(ip);
        let in_deny = IN_DENY.load(Relaxed);
        let in_allow = IN_ALLOW.load(Relaxed);
        let cache_ok = CACHE_RES.load(Relaxed);
        if in_deny {
            assert!(resp == ServerResponse::from(cfg.deny_action) && reason == ServerReason::Policy);
        } else if !in_allow {
            assert!(resp == ServerResponse::from(cfg.allow_action) && reason == ServerReason::Policy);
        } else if !cache_ok {
            assert!(resp == ServerResponse::Ignore && reason == ServerReason::RateLimit);
        } else {
            assert!(resp == ServerResponse::ProvideTime && reason == ServerReason::Policy);
        }
        // FilterAction -> ServerResponse is the obvious map
        assert!(ServerResponse::from(FilterAction::Ignore) == ServerResponse::Ignore);
        assert!(ServerResponse::from(FilterAction::Deny) == ServerResponse::Deny);
        // order and frame: deny list first, the allow list only after a deny-list miss, the
        // cache (C20) only after both lists passed; always with the client's address
        assert!(DENY_CALLS.load(Relaxed) == 1 && !ALLOW_BEFORE_DENY.load(Relaxed));
        assert!(ALLOW_CALLS.load(Relaxed) == if in_deny { 0 } else { 1 });
        assert!(CACHE_CALLS.load(Relaxed) == if !in_deny && in_allow { 1 } else { 0 });
        assert!(!CACHE_CALL_BEFORE_LISTS_PASSED.load(Relaxed));
        assert!(OTHER_FILTER_CALLS.load(Relaxed) == 0 && !FILTER_WRONG_IP.load(Relaxed));
        assert!(config_unchanged(&srv.config, &cfg));
        kani::cover!(in_deny && resp == ServerResponse::Deny, "deny-list hit with deny action");
        kani::cover!(!in_deny && !in_allow && resp == ServerResponse::Ignore, "allow-list miss, ignore");
        kani::cover!(reason == ServerReason::RateLimit, "rate limited");
        kani::cover!(resp == ServerResponse::ProvideTime, "accepted");
    }
}

harness! {
    #[kani::unwind(18)]
    #[kani::stub(IpFilter::is_in, is_in_stub)]
    #[kani::stub(TimestampedCache::is_allowed, is_allowed_stub)]
    fn c15_canary_intended_action_never_accepts() {
        let (mut srv, _cfg) = any_server(0);
        let ip = any_ip();
        arm_ghosts(&srv, ip, false);
        let (resp, _reason) = srv.intended_action(ip);
        assert!(resp != ServerResponse::ProvideTime, "CANARY: must be refuted");
    }
}

handle_harness! {
    // listed clients: Ignore => nothing; Deny => at most a DENY kiss; never time. Deny list wins.
    fn c15_tp_handle_lists_plain() fn c15_tp_handle_lists_nts() with fam {
        let r = run_handle(false, fam);
        let verdict = spec_lists(&r.cfg);
        let b = BUILT.load(Relaxed);
        if verdict == ListVerdict::Ignore {
            assert!(!r.responded, "ignore action: the client receives nothing");
            assert!(b == B_NONE && DESER_CALLS.load(Relaxed) == 0 && SER_CALLS.load(Relaxed) == 0);
        }
        if verdict == ListVerdict::Deny {
            assert!(b == B_NONE || b == B_DENY || b == B_NTS_DENY, "deny action: at most a DENY kiss");
            assert!(!built_time(), "denied client never receives time");
            if r.responded {
                assert!(REG_RESPONSE.load(Relaxed) == S_DENY);
            }
        }
        // the rate limiter is consulted only for clients that passed both lists (C20 position)
        assert!(CACHE_CALLS.load(Relaxed) == if verdict == ListVerdict::Pass { 1 } else { 0 });
        assert!(!CACHE_CALL_BEFORE_LISTS_PASSED.load(Relaxed) && !ALLOW_BEFORE_DENY.load(Relaxed));
        assert!(!FILTER_WRONG_IP.load(Relaxed) && OTHER_FILTER_CALLS.load(Relaxed) == 0);
        // rate-limited clients get no answer
        if verdict == ListVerdict::Pass && !CACHE_RES.load(Relaxed) {
            assert!(!r.responded && b == B_NONE);
        }
        kani::cover!(verdict == ListVerdict::Deny && r.responded, "DENY kiss sent");
        kani::cover!(verdict == ListVerdict::Ignore, "ignored by list");
        kani::cover!(IN_DENY.load(Relaxed) && IN_ALLOW.load(Relaxed) && verdict == ListVerdict::Deny, "deny list wins over allow list");
    }
}

handle_harness! {
    // malformed datagrams and non-accepted versions are never answered; plain requests never get time under require_nts
    fn c15_tp_handle_gating_plain() fn c15_tp_handle_gating_nts() with fam {
        let r = run_handle(false, fam);
        let g = GEN_KIND.load(Relaxed);
        if g == GEN_ERR {
            assert!(!r.responded && BUILT.load(Relaxed) == B_NONE, "parse error: never answered");
        }
        if DESER_CALLS.load(Relaxed) == 1 && g != GEN_ERR && !version_accepted(&r.cfg) {
            assert!(!r.responded && BUILT.load(Relaxed) == B_NONE, "non-accepted version: never answered");
        }
        if r.cfg.require_nts.is_some() && g == GEN_PLAIN {
            assert!(!built_time(), "plain request never receives time when NTS is required");
            if r.cfg.require_nts == Some(FilterAction::Ignore) {
                assert!(!r.responded);
            }
            if r.responded {
                assert!(BUILT.load(Relaxed) == B_DENY && REG_RESPONSE.load(Relaxed) == S_DENY);
            }
        }
        cover_fam!(fam, false, g == GEN_ERR, "parse error");
        cover_fam!(fam, false, g == GEN_PLAIN && r.cfg.require_nts == Some(FilterAction::Deny) && r.responded, "require_nts deny answered");
        cover_fam!(fam, true, g == GEN_NTS && !version_accepted(&r.cfg), "nts request in non-accepted version");
    }
}

handle_harness! {
    // statement: "non-client packets ... are never answered" (every parser outcome that yields a packet)
    fn c15_tp_handle_nonclient_never_answered_plain() fn c15_tp_handle_nonclient_never_answered_nts() with fam {
        let r = run_handle(false, fam);
        let g = GEN_KIND.load(Relaxed);
        if DESER_CALLS.load(Relaxed) == 1 && g != GEN_ERR && MODE.load(Relaxed) != 3 {
            assert!(!r.responded, "non-client packet: never answered");
            assert!(BUILT.load(Relaxed) == B_NONE, "non-client packet: no response built");
        }
        cover_fam!(fam, false, g == GEN_PLAIN && MODE.load(Relaxed) == 4, "server-mode packet");
        cover_fam!(fam, false, g == GEN_DECRYPT_ERR && MODE.load(Relaxed) == 4, "server-mode packet with failing NTS fields");
    }
}

// ---- quick-tier slice of the handle-level contract: non-client packets are never answered.
// handle_inner is called directly (no serialisation), the parser outcome is restricted to the two
// that yield a packet without a cookie (plain packet / packet whose NTS fields fail to decrypt),
// the mode is any of the seven non-client modes. Regression obligation of the repaired defect
// (a non-client packet with undecryptable NTS fields was answered with an NTS NAK).
handle_harness_one! { fam = false;
    fn c15_tb_handle_inner_nonclient_never_answered() {
        let (mut srv, _cfg) = any_server(0);
        let ip = any_ip();
        arm_ghosts(&srv, ip, false);
        let g = GEN_KIND.load(Relaxed);
        kani::assume(g == GEN_PLAIN || g == GEN_DECRYPT_ERR);
        kani::assume(MODE.load(Relaxed) != 3);
        let msg: [u8; MSG_MAX] = kani::any();
        let mut stats = RecStats;
        let r = srv.handle_inner(ip, NtpTimestamp::from_bits(kani::any()), &msg[..], &mut stats);
        assert!(matches!(r, Err(ServerAction::Ignore)), "non-client packet: never answered");
        assert!(BUILT.load(Relaxed) == B_NONE, "non-client packet: no response built");
        assert!(REG_CALLS.load(Relaxed) == 1 && REG_RESPONSE.load(Relaxed) == S_IGNORE);
        kani::cover!(g == GEN_DECRYPT_ERR && MODE.load(Relaxed) == 4 && DESER_CALLS.load(Relaxed) == 1, "server-mode packet with failing NTS fields reaches the parser");
        kani::cover!(g == GEN_PLAIN && MODE.load(Relaxed) == 1 && DESER_CALLS.load(Relaxed) == 1, "symmetric-active packet reaches the parser");
    }
}
handle_harness_one! { fam = false;
    fn c15_tcanary_handle_inner_client_never_answered() {
        let (mut srv, _cfg) = any_server(0);
        let ip = any_ip();
        arm_ghosts(&srv, ip, false);
        kani::assume(GEN_KIND.load(Relaxed) == GEN_DECRYPT_ERR && MODE.load(Relaxed) == 3);
        let msg: [u8; MSG_MAX] = kani::any();
        let mut stats = RecStats;
        let r = srv.handle_inner(ip, NtpTimestamp::from_bits(kani::any()), &msg[..], &mut stats);
        assert!(r.is_err());
    }
}

// quick-tier regression obligation of the repaired defect, with the policy outcome fixed ("passes
// both lists, not rate limited", the only one under which the defect answered): a packet in any
// non-client mode whose NTS fields fail to decrypt (or a plain non-client packet) is ignored.
handle_harness_one! { fam = false;
    fn c15_tb_nonclient_with_failing_nts_is_ignored() {
        let (mut srv, _cfg) = any_server(0);
        let ip = any_ip();
        arm_ghosts(&srv, ip, false);
        IN_DENY.store(false, Relaxed);
        IN_ALLOW.store(true, Relaxed);
        CACHE_RES.store(true, Relaxed);
        let g = GEN_KIND.load(Relaxed);
        kani::assume(g == GEN_PLAIN || g == GEN_DECRYPT_ERR);
        kani::assume(MODE.load(Relaxed) != 3);
        let msg = [0x23u8; MSG_MAX];
        let mut stats = RecStats;
        let r = srv.handle_inner(ip, NtpTimestamp::from_bits(kani::any()), &msg[..], &mut stats);
        let ignored = matches!(r, Err(ServerAction::Ignore));
        core::mem::forget(r);
        assert!(ignored, "non-client packet: never answered");
        assert!(BUILT.load(Relaxed) == B_NONE, "non-client packet: no response built");
        assert!(REG_CALLS.load(Relaxed) == 1 && REG_RESPONSE.load(Relaxed) == S_IGNORE);
        kani::cover!(g == GEN_DECRYPT_ERR && MODE.load(Relaxed) == 4, "server-mode packet with failing NTS fields");
        kani::cover!(g == GEN_PLAIN && MODE.load(Relaxed) == 1, "symmetric-active packet");
        core::mem::forget(srv);
    }
}

// the narrowest slice of the same obligation, at quick-tier cost: parser outcome fixed to "packet whose
// NTS fields fail to decrypt", NTPv4, client passes both lists and the limiter; the mode is any of
// the seven non-client modes. Ignored, nothing built, and the one statistics entry says Ignore.
handle_harness_one! { fam = false;
    fn c15_b_nonclient_decrypt_failure_ignored() {
        let (mut srv, _cfg) = any_server(0);
        let ip = any_ip();
        arm_ghosts(&srv, ip, false);
        IN_DENY.store(false, Relaxed);
        IN_ALLOW.store(true, Relaxed);
        CACHE_RES.store(true, Relaxed);
        GEN_KIND.store(GEN_DECRYPT_ERR, Relaxed);
        VERSION.store(4, Relaxed);
        kani::assume(MODE.load(Relaxed) != 3);
        let msg = [0x23u8; MSG_MAX];
        let mut stats = RecStats;
        let r = srv.handle_inner(ip, NtpTimestamp::from_bits(kani::any()), &msg[..], &mut stats);
        let ignored = matches!(r, Err(ServerAction::Ignore));
        core::mem::forget(r);
        assert!(ignored, "non-client packet: never answered");
        assert!(BUILT.load(Relaxed) == B_NONE, "non-client packet: no response built");
        assert!(REG_CALLS.load(Relaxed) == 1 && REG_RESPONSE.load(Relaxed) == S_IGNORE, "registered once, as ignored");
        kani::cover!(MODE.load(Relaxed) == 4 && DESER_CALLS.load(Relaxed) == 1, "server-mode packet with failing NTS fields reaches the parser");
        core::mem::forget(srv);
    }
}

// ---- further quick-tier slices of the handle-level contract (the complete versions are the
// thorough-tier harnesses c15_tp_*): handle_inner is called directly, the list / limiter verdicts
// are FIXED per slice, everything else (configured actions, require_nts, accepted versions, mode,
// wire version, parser outcome where stated) stays symbolic.
fn inner_outcome(r: &Result<HandleInnerData<'_>, ServerAction<'_>>) -> (bool, u8) {
    match r {
        Err(_) => (false, S_IGNORE),
        Ok(d) => (true, match d.action {
            ServerResponse::NTSNak => S_NAK,
            ServerResponse::Deny => S_DENY,
            ServerResponse::Ignore => S_IGNORE,
            ServerResponse::ProvideTime => S_TIME,
        }),
    }
}
handle_harness_one! { fam = false;
    // a client on the deny list sending a plain client-mode request: Ignore action => nothing at all
    // (not even parsed); Deny action => at most a DENY kiss, never time; the rate limiter is not
    // consulted; the allow list does not matter
    fn c15_b_slice_denylisted_client() {
        let (mut srv, cfg) = any_server(0);
        let ip = any_ip();
        arm_ghosts(&srv, ip, false);
        IN_DENY.store(true, Relaxed);
        GEN_KIND.store(GEN_PLAIN, Relaxed);
        MODE.store(3, Relaxed);
        let msg = [0x23u8; MSG_MAX];
        let mut stats = RecStats;
        let r = srv.handle_inner(ip, NtpTimestamp::from_bits(kani::any()), &msg[..], &mut stats);
        let (answered, what) = inner_outcome(&r);
        core::mem::forget(r);
        let b = BUILT.load(Relaxed);
        if cfg.deny_action == FilterAction::Ignore {
            assert!(!answered && b == B_NONE && DESER_CALLS.load(Relaxed) == 0, "ignore action: nothing, not even parsed");
        } else {
            assert!(b == B_NONE || b == B_DENY || b == B_NTS_DENY, "deny action: at most a DENY kiss");
            assert!(!answered || what == S_DENY);
        }
        assert!(!built_time(), "a deny-listed client never receives time");
        assert!(CACHE_CALLS.load(Relaxed) == 0, "rate limiter not consulted for listed clients");
        assert!(!ALLOW_BEFORE_DENY.load(Relaxed) && !FILTER_WRONG_IP.load(Relaxed));
        kani::cover!(answered && what == S_DENY, "DENY kiss built");
        kani::cover!(IN_ALLOW.load(Relaxed) && cfg.deny_action == FilterAction::Ignore, "deny list wins over allow list");
        core::mem::forget(srv);
    }
}
handle_harness_one! { fam = false;
    // a client that passes both lists but is refused by the limiter gets nothing; registered as rate-limited
    fn c15_b_slice_rate_limited_client() {
        let (mut srv, _cfg) = any_server(0);
        let ip = any_ip();
        arm_ghosts(&srv, ip, false);
        IN_DENY.store(false, Relaxed);
        IN_ALLOW.store(true, Relaxed);
        CACHE_RES.store(false, Relaxed);
        let msg = [0x23u8; MSG_MAX];
        let mut stats = RecStats;
        let r = srv.handle_inner(ip, NtpTimestamp::from_bits(kani::any()), &msg[..], &mut stats);
        let (answered, _what) = inner_outcome(&r);
        core::mem::forget(r);
        assert!(!answered && BUILT.load(Relaxed) == B_NONE, "rate-limited: no answer");
        assert!(CACHE_CALLS.load(Relaxed) == 1 && !CACHE_CALL_BEFORE_LISTS_PASSED.load(Relaxed));
        assert!(REG_CALLS.load(Relaxed) == 1 && REG_RESPONSE.load(Relaxed) == S_IGNORE && REG_REASON.load(Relaxed) == R_RATELIMIT);
        kani::cover!(true, "reachable");
        core::mem::forget(srv);
    }
}
handle_harness_one! { fam = false;
    // a plain client-mode request from a client that passes both lists and the limiter: time iff the
    // wire version is accepted and NTS is not required; require_nts Ignore => nothing, Deny => DENY;
    // a non-accepted version is never answered
    fn c15_b_slice_plain_client_request() {
        let (mut srv, cfg) = any_server(0);
        let ip = any_ip();
        arm_ghosts(&srv, ip, false);
        IN_DENY.store(false, Relaxed);
        IN_ALLOW.store(true, Relaxed);
        CACHE_RES.store(true, Relaxed);
        GEN_KIND.store(GEN_PLAIN, Relaxed);
        MODE.store(3, Relaxed);
        let msg = [0x23u8; MSG_MAX];
        let mut stats = RecStats;
        let r = srv.handle_inner(ip, NtpTimestamp::from_bits(kani::any()), &msg[..], &mut stats);
        let (answered, what) = inner_outcome(&r);
        core::mem::forget(r);
        let b = BUILT.load(Relaxed);
        if !version_accepted(&cfg) {
            assert!(!answered && b == B_NONE, "non-accepted version: never answered");
        } else {
            match cfg.require_nts {
                None => assert!(answered && what == S_TIME && b == B_TIME && BUILD_CALLS.load(Relaxed) == 1, "eligible request gets time"),
                Some(FilterAction::Ignore) => assert!(!answered && b == B_NONE, "NTS required (ignore): nothing"),
                Some(FilterAction::Deny) => assert!(answered && what == S_DENY && b == B_DENY, "NTS required (deny): DENY kiss"),
            }
        }
        assert!(b != B_NTS_TIME && b != B_NTS_NAK && b != B_NTS_DENY, "no NTS answer to a plain request");
        kani::cover!(answered && what == S_TIME, "time served");
        kani::cover!(!version_accepted(&cfg), "non-accepted version");
        core::mem::forget(srv);
    }
}

handle_harness_one! { fam = false;
    // C21, NTS flag: a client-mode request whose NTS fields fail to decrypt and that IS answered (NTS NAK,
    // or DENY for a client on a list with action deny) is accounted as an NTS request
    fn c21_b_slice_answered_nts_failure_is_flagged() {
        let (mut srv, _cfg) = any_server(0);
        let ip = any_ip();
        arm_ghosts(&srv, ip, false);
        CACHE_RES.store(true, Relaxed);
        GEN_KIND.store(GEN_DECRYPT_ERR, Relaxed);
        MODE.store(3, Relaxed);
        let msg = [0x23u8; MSG_MAX];
        let mut stats = RecStats;
        let r = srv.handle_inner(ip, NtpTimestamp::from_bits(kani::any()), &msg[..], &mut stats);
        let (answered, what) = inner_outcome(&r);
        let flagged = matches!(&r, Ok(d) if d.nts);
        core::mem::forget(r);
        if answered {
            assert!(what == S_NAK || what == S_DENY, "never time after a decrypt failure");
            assert!(flagged, "NTS flag set for every NTS request that is answered");
        } else {
            assert!(REG_CALLS.load(Relaxed) == 1, "an ignored request is registered by handle_inner itself");
        }
        kani::cover!(answered && what == S_DENY, "DENY after a decrypt failure (listed client)");
        kani::cover!(answered && what == S_NAK, "NTS NAK");
        core::mem::forget(srv);
    }
}

handle_harness! {
    // positive clause: well-formed accepted-version client request passing both lists and the limiter receives time
    fn c15_tp_handle_serves_time_plain() fn c15_tp_handle_serves_time_nts() with fam {
        let r = run_handle(false, fam);
        let g = GEN_KIND.load(Relaxed);
        let eligible = spec_lists(&r.cfg) == ListVerdict::Pass
            && CACHE_RES.load(Relaxed)
            && (g == GEN_PLAIN || g == GEN_NTS)
            && MODE.load(Relaxed) == 3
            && version_accepted(&r.cfg)
            && (g == GEN_NTS || r.cfg.require_nts.is_none());
        if eligible {
            assert!(BUILT.load(Relaxed) == if g == GEN_NTS { B_NTS_TIME } else { B_TIME });
            assert!(BUILD_CALLS.load(Relaxed) == 1 && SER_CALLS.load(Relaxed) == 1);
            // the V5 padding target is the request length
            assert!(SER_DESIRED_SOME.load(Relaxed) && SER_DESIRED.load(Relaxed) == r.req_len);
            if SER_OK.load(Relaxed) && SER_N.load(Relaxed) <= r.buf_len {
                assert!(r.responded && r.msg_len == SER_N.load(Relaxed));
                assert!(REG_RESPONSE.load(Relaxed) == S_TIME && REG_REASON.load(Relaxed) == R_POLICY);
            }
        }
        // and conversely time is built only for eligible requests
        if built_time() {
            assert!(eligible);
        }
        cover_fam!(fam, true, eligible && g == GEN_NTS && r.responded, "NTS time served");
        cover_fam!(fam, false, eligible && g == GEN_PLAIN && r.responded, "plain time served");
    }
}

handle_harness! {
    fn c15_tcanary_time_never_served_plain() fn c15_tcanary_time_never_served_nts() with fam {
        let _r = run_handle(false, fam);
        assert!(!built_time(), "CANARY: must be refuted");
    }
}
handle_harness! {
    fn c15_tcanary_denied_never_answered_plain() fn c15_tcanary_denied_never_answered_nts() with fam {
        let r = run_handle(false, fam);
        if spec_lists(&r.cfg) == ListVerdict::Deny {
            assert!(!r.responded, "CANARY: must be refuted");
        }
    }
}

// ================================================================ C16 response <= request
handle_harness! {
    // any buffer: the message is a prefix of the caller's buffer
    fn c16_tp_message_is_buffer_prefix_plain() fn c16_tp_message_is_buffer_prefix_nts() with fam {
        let r = run_handle(false, fam);
        if r.responded {
            assert!(r.msg_is_buffer_prefix && r.msg_len <= r.buf_len);
        }
        kani::cover!(r.responded && r.msg_len == r.buf_len && r.buf_len > 0, "buffer filled completely");
        kani::cover!(r.responded && r.msg_len < r.buf_len, "shorter answer");
    }
}
handle_harness! {
    // the daemon's call shape (anchor): buffer.len() == request length  =>  answer <= request
    fn c16_tp_request_sized_buffer_plain() fn c16_tp_request_sized_buffer_nts() with fam {
        let r = run_handle(true, fam);
        if r.responded {
            assert!(r.msg_len <= r.req_len, "answer never longer than the request");
        }
        kani::cover!(r.responded && r.msg_len == r.req_len && r.req_len == MSG_MAX, "answer as long as the request");
    }
}
handle_harness! {
    fn c16_tcanary_strictly_shorter_plain() fn c16_tcanary_strictly_shorter_nts() with fam {
        let r = run_handle(true, fam);
        if r.responded {
            assert!(r.msg_len < r.req_len, "CANARY: must be refuted");
        }
    }
}

// ================================================================ `handle` alone, against handle_inner's contract
// Server::handle = handle_inner (policy, parsing, builder choice: thorough-tier harnesses above) followed by
// serialisation into the caller's buffer and exactly one statistics entry. Here handle_inner is replaced
// by its contract -- Err(Ignore) after exactly one registration, or Ok(arbitrary HandleInnerData) with no
// registration -- and NtpPacket::serialize by its model (Err, or Ok after advancing the cursor by
// n <= remaining). This isolates what C16 and C21 need from `handle` itself, at quick-tier cost.
static HI_OK: crate::verif_common::Ghost<AtomicBool> = crate::verif_common::Ghost::new(0x67b1f6c2f511693b, AtomicBool::new(false));
static HI_ACTION: crate::verif_common::Ghost<AtomicU8> = crate::verif_common::Ghost::new(0x67f678f801260e24, AtomicU8::new(0));
static HI_REASON: crate::verif_common::Ghost<AtomicU8> = crate::verif_common::Ghost::new(0x677bf854c2f5e1fc, AtomicU8::new(0));
static HI_VERSION: crate::verif_common::Ghost<AtomicU8> = crate::verif_common::Ghost::new(0x67f438d786bf8db9, AtomicU8::new(0));
static HI_NTS: crate::verif_common::Ghost<AtomicBool> = crate::verif_common::Ghost::new(0x67178ac485ec30be, AtomicBool::new(false));
fn reason_of(c: u8) -> ServerReason {
    match c {
        R_RATELIMIT => ServerReason::RateLimit,
        R_PARSE => ServerReason::ParseError,
        R_CRYPTO => ServerReason::InvalidCrypto,
        R_INTERNAL => ServerReason::InternalError,
        _ => ServerReason::Policy,
    }
}
impl<C: NtpClock> Server<C> {
fn handle_inner_contract<'a>(
    &mut self,
    _client_ip: IpAddr,
    _recv_timestamp: NtpTimestamp,
    _message: &'a [u8],
    stats_handler: &mut impl ServerStatHandler,
) -> Result<HandleInnerData<'a>, ServerAction<'static>> {
    let reason = reason_of(HI_REASON.load(Relaxed));
    let version = version_of(HI_VERSION.load(Relaxed));
    if !HI_OK.load(Relaxed) {
        stats_handler.register(version.into(), HI_NTS.load(Relaxed), reason, ServerResponse::Ignore);
        return Err(ServerAction::Ignore);
    }
    let action = match HI_ACTION.load(Relaxed) {
        S_NAK => ServerResponse::NTSNak,
        S_DENY => ServerResponse::Deny,
        _ => ServerResponse::ProvideTime,
    };
    let cipher: Option<Box<dyn Cipher>> = if kani::any() { Some(Box::new(GhostCipher { key: [S2C_TAG] })) } else { None };
    Ok(HandleInnerData {
        action,
        reason,
        version,
        nts: HI_NTS.load(Relaxed),
        packet: NtpPacket::default(),
        cipher,
        desired_size: if kani::any() { Some(kani::any()) } else { None },
    })
}
}
fn arm_handle_alone() {
    HI_OK.store(kani::any(), Relaxed);
    let a: u8 = kani::any();
    kani::assume(a == S_NAK || a == S_DENY || a == S_TIME);
    HI_ACTION.store(a, Relaxed);
    let r: u8 = kani::any();
    kani::assume(r >= 1 && r <= 5);
    HI_REASON.store(r, Relaxed);
    let v: u8 = kani::any();
    kani::assume(v >= 3 && v <= 5);
    HI_VERSION.store(v, Relaxed);
    HI_NTS.store(kani::any(), Relaxed);
    SER_OK.store(kani::any(), Relaxed);
    SER_N.store(kani::any(), Relaxed);
}
macro_rules! handle_alone_harness {
    (fn $name:ident() $body:block) => {
        harness! {
            #[kani::unwind(18)]
            #[kani::stub(Server::handle_inner, Server::handle_inner_contract)]
            #[kani::stub(NtpPacket::serialize, serialize_model)]
            fn $name() $body
        }
    };
}

handle_alone_harness! {
    // C16: an answer is a prefix of the caller's buffer, hence never longer than a request-sized buffer
    fn c16_p_handle_alone_message_is_buffer_prefix() {
        let (mut srv, _cfg) = any_server(0);
        arm_handle_alone();
        let msg: [u8; MSG_MAX] = kani::any();
        let req_len: usize = kani::any();
        kani::assume(req_len <= MSG_MAX);
        let mut buf = [0u8; MSG_MAX];
        let request_sized: bool = kani::any();
        let buf_len: usize = if request_sized { req_len } else { kani::any() };
        kani::assume(buf_len <= MSG_MAX);
        let buf_ptr = buf.as_ptr();
        let mut stats = RecStats;
        let action = srv.handle(any_ip(), NtpTimestamp::from_bits(kani::any()), &msg[..req_len], &mut buf[..buf_len], &mut stats);
        match action {
            ServerAction::Ignore => {}
            ServerAction::Respond { message } => {
                assert!(message.as_ptr() == buf_ptr);
                assert!(message.len() <= buf_len);
                assert!(message.len() == SER_N.load(Relaxed));
                if request_sized {
                    assert!(message.len() <= req_len);
                }
                assert!(HI_OK.load(Relaxed) && SER_OK.load(Relaxed) && SER_CALLS.load(Relaxed) == 1);
            }
        }
        kani::cover!(matches!(action, ServerAction::Respond { message } if message.len() == req_len && req_len == MSG_MAX), "answer as long as the request");
        kani::cover!(matches!(action, ServerAction::Ignore) && HI_OK.load(Relaxed), "serialisation failure reachable");
    }
}
handle_alone_harness! {
    // C21: exactly one statistics entry per datagram; it says what was done
    fn c21_p_handle_alone_registers_exactly_once() {
        let (mut srv, _cfg) = any_server(0);
        arm_handle_alone();
        let msg: [u8; MSG_MAX] = kani::any();
        let mut buf = [0u8; MSG_MAX];
        let buf_len: usize = kani::any();
        kani::assume(buf_len <= MSG_MAX);
        let mut stats = RecStats;
        let action = srv.handle(any_ip(), NtpTimestamp::from_bits(kani::any()), &msg[..], &mut buf[..buf_len], &mut stats);
        assert!(REG_CALLS.load(Relaxed) == 1);
        let responded = matches!(action, ServerAction::Respond { .. });
        if !HI_OK.load(Relaxed) {
            // handle_inner already ignored (and registered) the datagram
            assert!(!responded && REG_RESPONSE.load(Relaxed) == S_IGNORE && SER_CALLS.load(Relaxed) == 0);
        } else if responded {
            assert!(REG_RESPONSE.load(Relaxed) == HI_ACTION.load(Relaxed));
            assert!(REG_REASON.load(Relaxed) == HI_REASON.load(Relaxed));
            assert!(REG_NTS.load(Relaxed) == HI_NTS.load(Relaxed));
            assert!(REG_VERSION.load(Relaxed) == HI_VERSION.load(Relaxed));
        } else {
            // the answer could not be serialised: accounted as an internal error, nothing sent
            assert!(REG_RESPONSE.load(Relaxed) == S_IGNORE && REG_REASON.load(Relaxed) == R_INTERNAL);
            assert!(REG_NTS.load(Relaxed) == HI_NTS.load(Relaxed) && REG_VERSION.load(Relaxed) == HI_VERSION.load(Relaxed));
        }
        kani::cover!(responded && REG_RESPONSE.load(Relaxed) == S_TIME, "time answer reachable");
        kani::cover!(!responded && HI_OK.load(Relaxed), "internal error reachable");
    }
}
handle_alone_harness! {
    fn c16_canary_handle_alone_strictly_shorter() {
        let (mut srv, _cfg) = any_server(0);
        arm_handle_alone();
        let msg: [u8; MSG_MAX] = kani::any();
        let mut buf = [0u8; MSG_MAX];
        let mut stats = RecStats;
        let action = srv.handle(any_ip(), NtpTimestamp::from_bits(kani::any()), &msg[..], &mut buf[..], &mut stats);
        if let ServerAction::Respond { message } = action {
            assert!(message.len() < MSG_MAX);
        }
    }
}
handle_alone_harness! {
    fn c21_canary_handle_alone_always_registers_what_was_asked() {
        let (mut srv, _cfg) = any_server(0);
        arm_handle_alone();
        kani::assume(HI_OK.load(Relaxed));
        let msg: [u8; MSG_MAX] = kani::any();
        let mut buf = [0u8; MSG_MAX];
        let mut stats = RecStats;
        let _ = srv.handle(any_ip(), NtpTimestamp::from_bits(kani::any()), &msg[..], &mut buf[..], &mut stats);
        assert!(REG_RESPONSE.load(Relaxed) == HI_ACTION.load(Relaxed));
    }
}

// ================================================================ C21 statistics
handle_harness! {
    // exactly one registration; kind matches what was done
    fn c21_tp_exactly_one_matching_registration_plain() fn c21_tp_exactly_one_matching_registration_nts() with fam {
        let r = run_handle(false, fam);
        assert!(REG_CALLS.load(Relaxed) == 1, "exactly one statistics entry per datagram");
        let resp = REG_RESPONSE.load(Relaxed);
        let b = BUILT.load(Relaxed);
        // response kind <=> what was actually done
        assert!(r.responded == (resp != S_IGNORE));
        assert!((resp == S_TIME) == (r.responded && (b == B_TIME || b == B_NTS_TIME)));
        assert!((resp == S_DENY) == (r.responded && (b == B_DENY || b == B_NTS_DENY)));
        assert!((resp == S_NAK) == (r.responded && b == B_NTS_NAK));
        assert!(BUILD_CALLS.load(Relaxed) <= 1 && SER_CALLS.load(Relaxed) <= 1 && DESER_CALLS.load(Relaxed) <= 1);
        // serialize failure => (InternalError, Ignore)
        if SER_CALLS.load(Relaxed) == 1 && !r.responded {
            assert!(REG_REASON.load(Relaxed) == R_INTERNAL && resp == S_IGNORE);
        }
        // reasons
        if REG_REASON.load(Relaxed) == R_RATELIMIT {
            assert!(spec_lists(&r.cfg) == ListVerdict::Pass && !CACHE_RES.load(Relaxed) && !r.responded);
        }
        if REG_REASON.load(Relaxed) == R_PARSE {
            assert!(!r.responded && DESER_CALLS.load(Relaxed) == 1);
        }
        if REG_REASON.load(Relaxed) == R_CRYPTO {
            assert!(GEN_KIND.load(Relaxed) == GEN_DECRYPT_ERR && resp == S_NAK);
        }
        kani::cover!(resp == S_TIME, "time registered");
        kani::cover!(resp == S_DENY, "deny registered");
        cover_fam!(fam, false, resp == S_NAK, "nak registered");
        kani::cover!(REG_REASON.load(Relaxed) == R_INTERNAL, "serialize failure registered");
    }
}
handle_harness! {
    // NTS flag never set for plain requests
    fn c21_tp_nts_flag_never_for_plain_plain() fn c21_tp_nts_flag_never_for_plain_nts() with fam {
        let _r = run_handle(false, fam);
        let g = GEN_KIND.load(Relaxed);
        if g == GEN_PLAIN || g == GEN_ERR || DESER_CALLS.load(Relaxed) == 0 {
            assert!(!REG_NTS.load(Relaxed), "NTS flag never set for plain (or unparsed) requests");
        }
        cover_fam!(fam, false, g == GEN_PLAIN && REG_RESPONSE.load(Relaxed) == S_TIME, "plain time");
    }
}
handle_harness! {
    // NTS flag set for every answered NTS request whose authentication succeeded
    fn c21_tp_nts_flag_for_answered_authenticated_plain() fn c21_tp_nts_flag_for_answered_authenticated_nts() with fam {
        let r = run_handle(false, fam);
        if r.responded && GEN_KIND.load(Relaxed) == GEN_NTS {
            assert!(REG_NTS.load(Relaxed));
        }
        cover_fam!(fam, true, r.responded && GEN_KIND.load(Relaxed) == GEN_NTS && REG_RESPONSE.load(Relaxed) == S_DENY, "nts deny");
    }
}
handle_harness! {
    // NTS flag set for every answered NTS request, including those answered after a decrypt failure
    fn c21_tp_nts_flag_for_every_answered_nts_plain() fn c21_tp_nts_flag_for_every_answered_nts_nts() with fam {
        let r = run_handle(false, fam);
        let g = GEN_KIND.load(Relaxed);
        if r.responded && (g == GEN_NTS || g == GEN_DECRYPT_ERR) {
            assert!(REG_NTS.load(Relaxed), "NTS flag set for every NTS request that is answered");
        }
        cover_fam!(fam, false, r.responded && g == GEN_DECRYPT_ERR, "answered after decrypt failure");
    }
}
handle_harness! {
    fn c21_tcanary_never_ignored_plain() fn c21_tcanary_never_ignored_nts() with fam {
        let _r = run_handle(false, fam);
        assert!(REG_RESPONSE.load(Relaxed) != S_IGNORE, "CANARY: must be refuted");
    }
}

handle_harness_one! { fam = false;
    // obligation at handle_inner level (thorough tier: did not finish in 20 min) (plain family): handle_inner registers exactly once
    // on every Err (ignored) path and never on the Ok path (handle registers after serializing)
    fn c21_tp_handle_inner_registers_iff_ignored() {
        let (mut srv, _cfg) = any_server(0);
        let ip = any_ip();
        arm_ghosts(&srv, ip, fam);
        let msg: [u8; 8] = kani::any();
        let mut stats = RecStats;
        let r = srv.handle_inner(ip, NtpTimestamp::from_bits(kani::any()), &msg, &mut stats);
        let ignored = r.is_err();
        assert!(REG_CALLS.load(Relaxed) == if ignored { 1 } else { 0 });
        if ignored {
            assert!(REG_RESPONSE.load(Relaxed) == S_IGNORE && BUILT.load(Relaxed) == B_NONE);
        } else {
            assert!(BUILD_CALLS.load(Relaxed) == 1);
        }
        kani::cover!(ignored, "ignored");
        kani::cover!(!ignored, "answer prepared");
    }
}

// ================================================================ C19 (server side)
handle_harness! {
    // decrypt failure => action in {NTSNak, Deny}; never time; cipher choice
    fn c19_tp_decrypt_error_never_time_plain() fn c19_tp_decrypt_error_never_time_nts() with fam {
        let r = run_handle(false, fam);
        let g = GEN_KIND.load(Relaxed);
        let b = BUILT.load(Relaxed);
        if g == GEN_DECRYPT_ERR {
            assert!(!built_time(), "failed NTS authentication is never answered with time");
            assert!(b == B_NONE || b == B_NTS_NAK || b == B_DENY);
            if r.responded {
                let resp = REG_RESPONSE.load(Relaxed);
                assert!(resp == S_NAK || resp == S_DENY);
                // DENY only if policy denies the client
                if resp == S_DENY {
                    assert!(spec_lists(&r.cfg) == ListVerdict::Deny);
                }
            }
            if SER_CALLS.load(Relaxed) == 1 {
                assert!(SER_CIPHER_TAG.load(Relaxed) == 0, "no key is used for an unauthenticated request");
            }
        }
        // answers to authenticated requests are protected with the cookie's server-to-client key
        if SER_CALLS.load(Relaxed) == 1 {
            let tag = SER_CIPHER_TAG.load(Relaxed);
            // the key handed to the serializer is the cookie's s2c key exactly for authenticated requests
            assert!(tag == if g == GEN_NTS { S2C_TAG } else { 0 });
            assert!((b == B_NTS_TIME || b == B_NTS_DENY) == (g == GEN_NTS));
            if b == B_NTS_TIME {
                assert!(BUILD_COOKIE_TAG.load(Relaxed) == S2C_TAG);
            }
        }
        cover_fam!(fam, false, g == GEN_DECRYPT_ERR && r.responded && REG_RESPONSE.load(Relaxed) == S_NAK, "NAK sent");
        cover_fam!(fam, false, g == GEN_DECRYPT_ERR && r.responded && REG_RESPONSE.load(Relaxed) == S_DENY, "DENY sent on decrypt failure");
        cover_fam!(fam, true, b == B_NTS_TIME && r.responded, "authenticated time answer");
    }
}
handle_harness! {
    fn c19_tcanary_decrypt_error_never_answered_plain() fn c19_tcanary_decrypt_error_never_answered_nts() with fam {
        let r = run_handle(false, fam);
        if GEN_KIND.load(Relaxed) == GEN_DECRYPT_ERR {
            assert!(!r.responded, "CANARY: must be refuted");
        }
    }
}

// ---- quick-tier slices of the C19 server-side contract (the complete versions are c19_tp_*):
// handle_inner is called directly, the request is a client-mode packet, the parser outcome is fixed
// per slice; lists, limiter, configured actions, require_nts, accepted versions and wire version
// stay symbolic.
handle_harness_one! { fam = false;
    // a client-mode request whose NTS fields fail to decrypt: never a time builder; what is built is
    // an NTS NAK, or a DENY exactly when the lists deny the client; no key reaches the serializer
    fn c19_b_slice_decrypt_failure_never_time() {
        let (mut srv, cfg) = any_server(0);
        let ip = any_ip();
        arm_ghosts(&srv, ip, false);
        GEN_KIND.store(GEN_DECRYPT_ERR, Relaxed);
        MODE.store(3, Relaxed);
        kani::assume(VERSION.load(Relaxed) != 3);
        let msg = [0x23u8; MSG_MAX];
        let mut stats = RecStats;
        let r = srv.handle_inner(ip, NtpTimestamp::from_bits(kani::any()), &msg[..], &mut stats);
        let (answered, what) = inner_outcome(&r);
        let keyless = matches!(&r, Ok(d) if d.cipher.is_none());
        core::mem::forget(r);
        let b = BUILT.load(Relaxed);
        assert!(!built_time(), "failed NTS authentication is never answered with time");
        assert!(b == B_NONE || b == B_NTS_NAK || b == B_DENY, "only a NAK or a plain DENY is ever built");
        if answered {
            assert!(what == S_NAK || what == S_DENY, "answer is an NTS NAK or a DENY");
            assert!((what == S_DENY) == (spec_lists(&cfg) == ListVerdict::Deny), "DENY exactly when policy denies the client");
            assert!(b == if what == S_DENY { B_DENY } else { B_NTS_NAK }, "the builder matches the announced action");
            assert!(keyless, "no key is used for an unauthenticated request");
            assert!(BUILD_CALLS.load(Relaxed) == 1);
        } else {
            assert!(b == B_NONE);
        }
        kani::cover!(answered && what == S_NAK, "NTS NAK");
        kani::cover!(answered && what == S_DENY, "DENY after a decrypt failure");
        kani::cover!(!answered && DESER_CALLS.load(Relaxed) == 1, "parsed but not answered (version not accepted)");
        core::mem::forget(srv);
    }
}
handle_harness_one! { fam = true;
    // an authenticated client-mode request (the parser decoded a cookie): whatever is answered is
    // protected with the cookie's server-to-client key, and a time answer is built by the NTS
    // builder from that same cookie; never a plain builder
    fn c19_b_slice_authenticated_answer_uses_s2c_key() {
        let (mut srv, cfg) = any_server(0);
        let ip = any_ip();
        arm_ghosts(&srv, ip, true);
        MODE.store(3, Relaxed);
        let msg = [0x23u8; MSG_MAX];
        let mut stats = RecStats;
        let r = srv.handle_inner(ip, NtpTimestamp::from_bits(kani::any()), &msg[..], &mut stats);
        let (answered, what) = inner_outcome(&r);
        let key_tag = match &r {
            Ok(d) => match &d.cipher {
                Some(c) => c.key_bytes()[0],
                None => 0,
            },
            Err(_) => 0,
        };
        let flagged = matches!(&r, Ok(d) if d.nts);
        core::mem::forget(r);
        let b = BUILT.load(Relaxed);
        assert!(b == B_NONE || b == B_NTS_TIME || b == B_NTS_DENY, "only NTS builders for an authenticated request");
        if answered {
            assert!(key_tag == S2C_TAG, "the answer is protected with the cookie's server-to-client key");
            assert!(flagged);
            assert!(what == S_TIME || what == S_DENY, "never a NAK for an authenticated request");
            if what == S_TIME {
                assert!(b == B_NTS_TIME && BUILD_COOKIE_TAG.load(Relaxed) == S2C_TAG, "fresh cookies are made from the request's cookie");
                assert!(spec_lists(&cfg) == ListVerdict::Pass && CACHE_RES.load(Relaxed) && version_accepted(&cfg));
            } else {
                assert!(b == B_NTS_DENY && spec_lists(&cfg) == ListVerdict::Deny);
            }
            assert!(BUILD_CALLS.load(Relaxed) == 1);
        } else {
            assert!(b == B_NONE);
        }
        kani::cover!(answered && what == S_TIME, "authenticated time answer");
        kani::cover!(answered && what == S_DENY, "authenticated DENY");
        core::mem::forget(srv);
    }
}
handle_harness_one! { fam = true;
    // the whole Server::handle on the same slice with the access policy fixed to "passes": the key that
    // reaches the serializer is the cookie's server-to-client key (handle hands
    // HandleInnerData.cipher on unchanged), the NTS time builder ran exactly once with that cookie,
    // and what is sent is registered as an NTS time answer
    fn c19_tb_slice_handle_serializes_with_s2c_key() {
        let (mut srv, cfg) = any_server(0);
        let ip = any_ip();
        arm_ghosts(&srv, ip, true);
        IN_DENY.store(false, Relaxed);
        IN_ALLOW.store(true, Relaxed);
        CACHE_RES.store(true, Relaxed);
        MODE.store(3, Relaxed);
        let msg = [0x23u8; MSG_MAX];
        let mut buf = [0u8; MSG_MAX];
        let mut stats = RecStats;
        let action = srv.handle(ip, NtpTimestamp::from_bits(kani::any()), &msg[..], &mut buf[..], &mut stats);
        let responded = matches!(action, ServerAction::Respond { .. });
        core::mem::forget(action);
        if version_accepted(&cfg) {
            assert!(BUILT.load(Relaxed) == B_NTS_TIME && BUILD_CALLS.load(Relaxed) == 1 && BUILD_COOKIE_TAG.load(Relaxed) == S2C_TAG);
            assert!(SER_CALLS.load(Relaxed) == 1 && SER_CIPHER_TAG.load(Relaxed) == S2C_TAG, "serialized under the cookie's server-to-client key");
            if responded {
                assert!(REG_RESPONSE.load(Relaxed) == S_TIME && REG_NTS.load(Relaxed));
            }
        } else {
            assert!(!responded && BUILT.load(Relaxed) == B_NONE && SER_CALLS.load(Relaxed) == 0);
        }
        kani::cover!(responded, "authenticated time answer sent");
        core::mem::forget(srv);
    }
}
handle_harness_one! { fam = false;
    fn c19_canary_slice_decrypt_failure_never_answered() {
        let (mut srv, _cfg) = any_server(0);
        let ip = any_ip();
        arm_ghosts(&srv, ip, false);
        GEN_KIND.store(GEN_DECRYPT_ERR, Relaxed);
        MODE.store(3, Relaxed);
        kani::assume(VERSION.load(Relaxed) != 3);
        let msg = [0x23u8; MSG_MAX];
        let mut stats = RecStats;
        let r = srv.handle_inner(ip, NtpTimestamp::from_bits(kani::any()), &msg[..], &mut stats);
        let (answered, _what) = inner_outcome(&r);
        core::mem::forget(r);
        assert!(!answered, "CANARY: must be refuted");
        core::mem::forget(srv);
    }
}

// ================================================================ C22 (server side)
handle_harness! {
    // handle/handle_inner/intended_action return normally for every configuration, address, parser
    // outcome, serializer outcome and buffer (panics, overflow and slice checks are Kani obligations)
    fn c22_tp_handle_total_under_callee_contracts_plain() fn c22_tp_handle_total_under_callee_contracts_nts() with fam {
        let r = run_handle(false, fam);
        assert!(REG_CALLS.load(Relaxed) >= 1);
        kani::cover!(r.responded, "answered");
        kani::cover!(!r.responded && SER_CALLS.load(Relaxed) == 1, "serialize failed");
        kani::cover!(r.req_len == 0, "empty datagram");
    }
}
handle_harness! {
    fn c22_tcanary_never_responds_plain() fn c22_tcanary_never_responds_nts() with fam {
        let r = run_handle(false, fam);
        assert!(!r.responded, "CANARY: must be refuted");
    }
}

// ================================================================ C20 TimestampedCache
// index(): memoised uninterpreted function. The harness knows the argument of each call, so the
// table is indexed by call number; consistency (equal items => equal slot) is set up by the harness.
static IDX_SEQ0: crate::verif_common::Ghost<AtomicUsize> = crate::verif_common::Ghost::new(0x67c011a661788900, AtomicUsize::new(0));
static IDX_SEQ1: crate::verif_common::Ghost<AtomicUsize> = crate::verif_common::Ghost::new(0x670111e216201014, AtomicUsize::new(0));
static IDX_SEQ2: crate::verif_common::Ghost<AtomicUsize> = crate::verif_common::Ghost::new(0x677f30872e78328a, AtomicUsize::new(0));
static IDX_CALLS: crate::verif_common::Ghost<AtomicU8> = crate::verif_common::Ghost::new(0x6738825a70cb1c19, AtomicU8::new(0));
fn index_uf<T: std::hash::Hash + Eq>(this: &TimestampedCache<T>, _item: &T) -> usize {
    let k = IDX_CALLS.load(Relaxed);
    bump(&IDX_CALLS);
    let i = match k {
        0 => IDX_SEQ0.load(Relaxed),
        1 => IDX_SEQ1.load(Relaxed),
        _ => IDX_SEQ2.load(Relaxed),
    };
    // contract of index (proved in c20_b_index_in_bounds): result < len
    assert!(i < this.elements.len());
    i
}

const CACHE_MAX: usize = 3;
fn offs() -> Duration {
    // offsets from a base instant; < 2^36 s so that Instant + Duration cannot overflow
    let s: u64 = kani::any();
    kani::assume(s < (1 << 36));
    let n: u32 = kani::any();
    kani::assume(n < 1_000_000_000);
    Duration::new(s, n)
}
fn elapsed(from: Duration, to: Duration) -> Duration {
    // mathematical "to - from", clamped at zero (Instant::duration_since saturates)
    to.checked_sub(from).unwrap_or(Duration::ZERO)
}
fn any_slot(base: Instant) -> Option<(IpAddr, Instant)> {
    if kani::any() {
        Some((any_ip(), base + offs()))
    } else {
        None
    }
}
fn any_cache(n: usize, base: Instant) -> TimestampedCache<IpAddr> {
    // n <= CACHE_MAX slots with arbitrary contents (literal + truncate: no reallocation, no loop)
    let mut elements = vec![any_slot(base), any_slot(base), any_slot(base)];
    elements.truncate(n);
    TimestampedCache { randomstate: RandomState::new(), elements }
}

harness! {
    // one call, a cache of 3 slots with arbitrary contents, any slot index, any item, any two instants, any cutoff
    // bound: cache length == 3 (the function is loop-free; only the frame "all other slots unchanged"
    // depends on the length; length 1 is c20_p_cutoff_boundary, length 2 the history harness)
    #[kani::unwind(18)]
    #[kani::stub(TimestampedCache::index, index_uf)]
    fn c20_b_is_allowed_contract() {
        let base = Instant::now();
        let mut c = any_cache(CACHE_MAX, base);
        let i: usize = kani::any();
        kani::assume(i < CACHE_MAX);
        IDX_SEQ0.store(i, Relaxed);
        let item = any_ip();
        let ts = base + offs();
        let cutoff = any_duration();
        let old = [c.elements[0], c.elements[1], c.elements[2]];
        let r = c.is_allowed(item, ts, cutoff);
        assert!(IDX_CALLS.load(Relaxed) == 1);
        // result false <=> old slot i == Some((item, t0)) and ts - t0 < cutoff
        let limited = match old[i] {
            Some((it0, t0)) => it0 == item && ts.saturating_duration_since(t0) < cutoff,
            None => false,
        };
        assert!(r == !limited);
        // slot i updated to (item, ts); all other slots unchanged; length unchanged
        assert!(c.elements.len() == CACHE_MAX);
        assert!(c.elements[i] == Some((item, ts)));
        assert!(i == 0 || c.elements[0] == old[0]);
        assert!(i == 1 || c.elements[1] == old[1]);
        assert!(i == 2 || c.elements[2] == old[2]);
        kani::cover!(!r, "rate limited");
        kani::cover!(r && matches!(old[i], Some((it0, _)) if it0 == item), "same client after the cutoff");
        kani::cover!(r && matches!(old[i], Some((it0, _)) if it0 != item), "slot taken over from another client");
        kani::cover!(i == 1, "middle slot of three");
    }
}

harness! {
    // the boundary is exactly the cutoff, measured on the offsets (independent of Instant's own subtraction)
    #[kani::unwind(18)]
    #[kani::stub(TimestampedCache::index, index_uf)]
    fn c20_p_cutoff_boundary() {
        let base = Instant::now();
        let item = any_ip();
        let d0 = offs();
        let d1 = offs();
        let cutoff = any_duration();
        let mut c: TimestampedCache<IpAddr> = TimestampedCache {
            randomstate: RandomState::new(),
            elements: vec![Some((item, base + d0))],
        };
        IDX_SEQ0.store(0, Relaxed);
        let r = c.is_allowed(item, base + d1, cutoff);
        assert!(r == !(elapsed(d0, d1) < cutoff));
        if cutoff == Duration::ZERO {
            assert!(r, "cutoff zero never limits");
        }
        kani::cover!(!r && d1 > d0, "limited");
        kani::cover!(r && elapsed(d0, d1) == cutoff && cutoff > Duration::ZERO, "exactly at the cutoff: allowed");
    }
}

harness! {
    // cache disabled (no slots): always allowed, nothing stored, index never consulted
    #[kani::unwind(18)]
    #[kani::stub(TimestampedCache::index, index_uf)]
    fn c20_p_empty_cache_never_limits() {
        let base = Instant::now();
        let mut c = any_cache(0, base);
        let r1 = c.is_allowed(any_ip(), base + offs(), any_duration());
        let r2 = c.is_allowed(any_ip(), base + offs(), any_duration());
        assert!(r1 && r2);
        assert!(c.elements.is_empty() && IDX_CALLS.load(Relaxed) == 0);
        kani::cover!(true, "reachable");
    }
}

harness! {
    // cache size 0 (the configuration value reaches new() unchanged, see anchors): no slots, never limited
    #[kani::unwind(18)]
    fn c20_p_new_zero_never_limits() {
        let mut c: TimestampedCache<IpAddr> = TimestampedCache::new(0);
        assert!(c.elements.is_empty());
        let base = Instant::now();
        let ip = any_ip();
        assert!(c.is_allowed(ip, base, any_duration()));
        assert!(c.is_allowed(ip, base, any_duration()));
        assert!(c.elements.is_empty());
        kani::cover!(true, "reachable");
    }
}

harness! {
    // TimestampedCache::new(n): n empty slots; bound: n in {1, 3}
    #[kani::unwind(18)]
    fn c20_b_new_makes_empty_slots() {
        let c1: TimestampedCache<IpAddr> = TimestampedCache::new(1);
        assert!(c1.elements.len() == 1 && c1.elements[0].is_none());
        let c3: TimestampedCache<IpAddr> = TimestampedCache::new(3);
        assert!(c3.elements.len() == 3);
        assert!(c3.elements[0].is_none() && c3.elements[1].is_none() && c3.elements[2].is_none());
        kani::cover!(true, "reachable");
    }
}

harness! {
    // index: any hash value (the shim's hash is an arbitrary u64), any non-empty cache => result < len, no panic
    #[kani::unwind(18)]
    fn c20_b_index_in_bounds() {
        let base = Instant::now();
        let n: usize = kani::any();
        kani::assume(n >= 1 && n <= CACHE_MAX);
        let c = any_cache(n, base);
        let i = c.index(&any_ip());
        assert!(i < n);
        kani::cover!(i == n - 1 && n == CACHE_MAX, "last slot");
    }
}

harness! {
    // history lemma over the real code, three requests a@t1, x@t2, a@t3 (x arbitrary, possibly = a,
    // possibly sharing a's slot), cache of 2 slots with arbitrary contents:
    #[kani::unwind(18)]
    #[kani::stub(TimestampedCache::index, index_uf)]
    fn c20_tb_history_three_requests() {
        let base = Instant::now();
        let n: usize = 2;
        let mut c = any_cache(n, base);
        let a = any_ip();
        let x = any_ip();
        let ia: usize = kani::any();
        let ix: usize = kani::any();
        kani::assume(ia < n && ix < n);
        kani::assume(a != x || ia == ix); // index is a function of the item
        IDX_SEQ0.store(ia, Relaxed);
        IDX_SEQ1.store(ix, Relaxed);
        IDX_SEQ2.store(ia, Relaxed);
        let (d1, d2, d3) = (offs(), offs(), offs());
        kani::assume(d1 <= d2 && d2 <= d3); // arrival order
        let cutoff = any_duration();
        let _r1 = c.is_allowed(a, base + d1, cutoff);
        let _r2 = c.is_allowed(x, base + d2, cutoff);
        let r3 = c.is_allowed(a, base + d3, cutoff);
        if x == a {
            assert!(r3 == !(elapsed(d2, d3) < cutoff));
        } else if ix == ia {
            assert!(r3, "another address used the slot in between: not limited");
        } else {
            assert!(r3 == !(elapsed(d1, d3) < cutoff), "limited iff own previous request within the cutoff");
        }
        // never limited unless the client's own previous request was within the cutoff
        if !r3 {
            let prev = if x == a { d2 } else { d1 };
            assert!(elapsed(prev, d3) < cutoff);
        }
        kani::cover!(!r3 && x != a, "limited with an unrelated request in between");
        kani::cover!(r3 && x != a && ix == ia && elapsed(d1, d3) < cutoff, "slot stolen: allowed inside the cutoff");
    }
}

harness! {
    // intended_action feeds the REAL cache (one slot, real index) with the client's address and the
    // current instant, and only after both lists passed
    #[kani::unwind(18)]
    #[kani::stub(IpFilter::is_in, is_in_stub)]
    fn c20_p_intended_action_records_client() {
        let (mut srv, _cfg) = any_server(1);
        let ip = any_ip();
        arm_ghosts(&srv, ip, false);
        let before = Instant::now();
        let (resp1, reason1) = srv.intended_action(ip);
        let passed = !IN_DENY.load(Relaxed) && IN_ALLOW.load(Relaxed);
        if passed {
            assert!(resp1 == ServerResponse::ProvideTime, "first request into an empty cache is served");
            assert!(matches!(srv.client_cache.elements[0], Some((it, t)) if it == ip && t >= before));
        } else {
            assert!(srv.client_cache.elements[0].is_none(), "listed clients do not touch the cache");
            assert!(reason1 == ServerReason::Policy);
        }
        kani::cover!(passed, "passed");
        kani::cover!(!passed, "listed");
    }
}

harness! {
    // ... and a client whose previous accepted request is in the slot is limited exactly when less
    // than the configured cutoff elapsed (real cache, real clock model)
    #[kani::unwind(18)]
    #[kani::stub(IpFilter::is_in, is_in_stub)]
    fn c20_p_intended_action_limits_by_cutoff() {
        let (mut srv, _cfg) = any_server(1);
        let ip = any_ip();
        arm_ghosts(&srv, ip, false);
        IN_DENY.store(false, Relaxed);
        IN_ALLOW.store(true, Relaxed);
        let cutoff = srv.config.rate_limiting_cutoff;
        let t0 = Instant::now();
        srv.client_cache.elements[0] = Some((ip, t0));
        let (resp2, reason2) = srv.intended_action(ip);
        let t1 = srv.client_cache.elements[0].unwrap().1;
        let limited = t1.saturating_duration_since(t0) < cutoff;
        assert!((resp2 == ServerResponse::Ignore && reason2 == ServerReason::RateLimit) == limited);
        assert!((resp2 == ServerResponse::ProvideTime && reason2 == ServerReason::Policy) == !limited);
        kani::cover!(limited, "second request limited");
        kani::cover!(!limited, "second request served");
    }
}

harness! {
    #[kani::unwind(18)]
    #[kani::stub(TimestampedCache::index, index_uf)]
    fn c20_canary_never_limited() {
        let base = Instant::now();
        let mut c = any_cache(1, base);
        IDX_SEQ0.store(0, Relaxed);
        let r = c.is_allowed(any_ip(), base + offs(), any_duration());
        assert!(r, "CANARY: must be refuted");
    }
}

#[cfg(all(kani, test))]
mod replay {
    use super::*;
    include!(concat!(env!("VERIF_REPLAY_DIR"), "/ntp_proto__server.rs"));
}
