// Contract harnesses for ntp-proto/src/algorithm/kalman/source.rs (C10: the filter's desired poll
// interval stays within the configured limits).
#![allow(unused_imports, dead_code)]
use super::*;
use crate::verif_common::harness;
use crate::packet::NtpLeapIndicator;

fn dur(v: i64) -> NtpDuration {
    NtpDuration::from_bits(v.to_be_bytes())
}

fn any_filter(desired: PollInterval, poll_score: i32) -> SourceFilter<NtpDuration, AveragingBuffer> {
    SourceFilter {
        state: KalmanState {
            state: Vector::new_vector([kani::any(), kani::any()]),
            uncertainty: Matrix::new([[kani::any(), kani::any()], [kani::any(), kani::any()]]),
            time: NtpTimestamp::from_bits(kani::any()),
        },
        clock_wander: kani::any(),
        noise_estimator: AveragingBuffer::default(),
        precision_score: kani::any(),
        poll_score,
        desired_poll_interval: desired,
        last_measurement: InternalMeasurement {
            delay: dur(kani::any()),
            offset: dur(kani::any()),
            localtime: NtpTimestamp::from_bits(kani::any()),
            root_delay: dur(kani::any()),
            root_dispersion: dur(kani::any()),
            leap: NtpLeapIndicator::NoWarning,
            precision: kani::any(),
        },
        last_monotime: tokio::time::Instant::now(),
        prev_was_outlier: kani::any(),
        last_iter: NtpTimestamp::from_bits(kani::any()),
    }
}

/// invariant of SourceFilter: limits.min <= desired_poll_interval <= limits.max and |poll_score| < hysteresis.
/// requires: limits.min <= limits.max, hysteresis >= 1 (configuration), invariant holds before;
/// ensures: invariant holds after, for EVERY p / weight / measurement period (including NaN, inf);
/// never panics (no i32 / i8 overflow).
harness! {
    fn c10_p_update_desired_poll_keeps_limits() {
        let min: i8 = kani::any();
        let max: i8 = kani::any();
        kani::assume(min <= max);
        let limits = PollIntervalLimits { min: PollInterval::from_byte(min as u8), max: PollInterval::from_byte(max as u8) };
        let d: i8 = kani::any();
        kani::assume(min <= d && d <= max);
        let hyst: i32 = kani::any();
        kani::assume(hyst >= 1);
        let score: i32 = kani::any();
        kani::assume(score > -hyst && score < hyst);
        let mut f = any_filter(PollInterval::from_byte(d as u8), score);
        let sc = SourceConfig { poll_interval_limits: limits, initial_poll_interval: PollInterval::from_byte(d as u8) };
        let mut ac = AlgorithmConfig::default();
        ac.poll_interval_hysteresis = hyst;
        ac.poll_interval_low_weight = kani::any();
        ac.poll_interval_high_weight = kani::any();
        ac.poll_interval_step_threshold = kani::any();
        let p: f64 = kani::any();
        let weight: f64 = kani::any();
        let period: f64 = kani::any();
        f.update_desired_poll(&sc, &ac, p, weight, period);
        let nd = f.desired_poll_interval.as_log();
        assert!(min <= nd && nd <= max);
        assert!(f.poll_score > -hyst && f.poll_score < hyst);
        // it moves by at most one step, or jumps to the minimum
        assert!(nd == d || nd == min || nd as i16 == d as i16 + 1 || nd as i16 == d as i16 - 1);
        kani::cover!(nd as i16 == d as i16 + 1, "increase reachable");
        kani::cover!(nd as i16 == d as i16 - 1 && nd != min, "decrease reachable");
        kani::cover!(nd == min && d as i16 > min as i16 + 1, "reset to minimum reachable");
    }
}

/// the interval reported to the source (SourceState::get_desired_poll): the minimum while the
/// filter initialises, otherwise the filter's own desired interval (within limits by the invariant).
harness! {
    fn c10_p_get_desired_poll() {
        let min: i8 = kani::any();
        let max: i8 = kani::any();
        kani::assume(min <= max);
        let limits = PollIntervalLimits { min: PollInterval::from_byte(min as u8), max: PollInterval::from_byte(max as u8) };
        let d: i8 = kani::any();
        kani::assume(min <= d && d <= max);
        let stable = SourceState(SourceStateInner::Stable(any_filter(PollInterval::from_byte(d as u8), 0)));
        assert!(stable.get_desired_poll(&limits).as_log() == d);
        let initial: SourceState<NtpDuration, AveragingBuffer> = SourceState(SourceStateInner::Initial(InitialSourceFilter {
            noise_estimator: AveragingBuffer::default(),
            init_offset: AveragingBuffer::default(),
            last_measurement: None,
            samples: kani::any(),
        }));
        assert!(initial.get_desired_poll(&limits).as_log() == min);
        kani::cover!(true, "reachable");
    }
}

harness! {
    fn c10_canary_desired_poll_unbounded() {
        let limits = PollIntervalLimits::default();
        let mut f = any_filter(limits.max, 0);
        let sc = SourceConfig { poll_interval_limits: limits, initial_poll_interval: limits.min };
        let mut ac = AlgorithmConfig::default();
        ac.poll_interval_hysteresis = 1;
        f.update_desired_poll(&sc, &ac, kani::any(), kani::any(), kani::any());
        assert!(f.desired_poll_interval == limits.max);
    }
}

#[cfg(all(kani, test))]
mod replay {
    use super::*;
    include!(concat!(env!("VERIF_REPLAY_DIR"), "/ntp_proto__algorithm__kalman__source.rs"));
}
