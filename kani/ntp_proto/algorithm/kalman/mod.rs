// Contract harnesses for ntp-proto/src/algorithm/kalman/mod.rs (C01, C02, C03, C04 link, C37).
// Compiled in the transformed copy (HashMap -> VecMap, see /verif/transforms.json).
#![allow(unused_imports, dead_code)]
use super::*;
use crate::config::StepThreshold;
use crate::verif_common::harness;
use std::sync::atomic::{AtomicBool, AtomicI64, AtomicU64, AtomicU8, Ordering::Relaxed};

// ---------------------------------------------------------------- recording clock (ghost state)
static STEPS: crate::verif_common::Ghost<AtomicU8> = crate::verif_common::Ghost::new(0x67ab11634f664a80, AtomicU8::new(0));
static STEP_RAW: crate::verif_common::Ghost<AtomicI64> = crate::verif_common::Ghost::new(0x67cec61c12c2cf25, AtomicI64::new(0));
static FREQS: crate::verif_common::Ghost<AtomicU8> = crate::verif_common::Ghost::new(0x67de32e4e7d879bd, AtomicU8::new(0));
static FREQ_BITS: crate::verif_common::Ghost<AtomicU64> = crate::verif_common::Ghost::new(0x677797fcf0d6ef49, AtomicU64::new(0));
static LEAPS: crate::verif_common::Ghost<AtomicU8> = crate::verif_common::Ghost::new(0x672514464529d6b9, AtomicU8::new(0));
static LEAP_VAL: crate::verif_common::Ghost<AtomicU8> = crate::verif_common::Ghost::new(0x671d51c3494ec817, AtomicU8::new(0));
static ERR_UPDATES: crate::verif_common::Ghost<AtomicU8> = crate::verif_common::Ghost::new(0x67849e943c2df703, AtomicU8::new(0));
static EXITED: crate::verif_common::Ghost<AtomicBool> = crate::verif_common::Ghost::new(0x679bac580d75a428, AtomicBool::new(false));

pub(super) fn raw(d: NtpDuration) -> i64 {
    i64::from_be_bytes((NtpTimestamp::from_bits([0; 8]) + d).to_bits())
}
fn dur(v: i64) -> NtpDuration {
    NtpDuration::from_bits(v.to_be_bytes())
}
fn leap_code(l: NtpLeapIndicator) -> u8 {
    match l {
        NtpLeapIndicator::NoWarning => 0,
        NtpLeapIndicator::Leap61 => 1,
        NtpLeapIndicator::Leap59 => 2,
        NtpLeapIndicator::Unknown => 3,
        NtpLeapIndicator::Unsynchronized => 4,
    }
}

#[derive(Clone)]
struct RecClock;
impl NtpClock for RecClock {
    type Error = std::io::Error;
    fn now(&self) -> Result<NtpTimestamp, Self::Error> {
        Ok(NtpTimestamp::from_bits(kani::any()))
    }
    fn set_frequency(&self, freq: f64) -> Result<NtpTimestamp, Self::Error> {
        FREQS.store(FREQS.load(Relaxed).saturating_add(1), Relaxed);
        FREQ_BITS.store(freq.to_bits(), Relaxed);
        Ok(NtpTimestamp::from_bits(kani::any()))
    }
    fn get_frequency(&self) -> Result<f64, Self::Error> {
        Ok(kani::any())
    }
    fn step_clock(&self, offset: NtpDuration) -> Result<NtpTimestamp, Self::Error> {
        STEPS.store(STEPS.load(Relaxed).saturating_add(1), Relaxed);
        STEP_RAW.store(raw(offset), Relaxed);
        Ok(NtpTimestamp::from_bits(kani::any()))
    }
    fn disable_ntp_algorithm(&self) -> Result<(), Self::Error> {
        Ok(())
    }
    fn error_estimate_update(&self, _e: NtpDuration, _m: NtpDuration) -> Result<(), Self::Error> {
        ERR_UPDATES.store(ERR_UPDATES.load(Relaxed).saturating_add(1), Relaxed);
        Ok(())
    }
    fn status_update(&self, leap: NtpLeapIndicator) -> Result<(), Self::Error> {
        LEAPS.store(LEAPS.load(Relaxed).saturating_add(1), Relaxed);
        LEAP_VAL.store(leap_code(leap), Relaxed);
        Ok(())
    }
}

/// contract of the exit path (assumption A4: exit does not return): the daemon stops *instead of*
/// stepping, i.e. no step has been issued when exit is reached.
fn exit_stub(_code: i32) -> ! {
    assert!(STEPS.load(Relaxed) == 0, "exit is reached only before any step");
    EXITED.store(true, Relaxed);
    kani::assume(false);
    unreachable!()
}

// NtpDuration::from_seconds as an uninterpreted (memoised) function: callers in this unit are
// checked against "deterministic function of its argument" only; its own contract (sign,
// saturation, integer part) is discharged under C32.
static FS_SET: crate::verif_common::Ghost<AtomicBool> = crate::verif_common::Ghost::new(0x679bafd188e21b3e, AtomicBool::new(false));
static FS_ARG: crate::verif_common::Ghost<AtomicU64> = crate::verif_common::Ghost::new(0x67ca9b6510765997, AtomicU64::new(0));
static FS_RES: crate::verif_common::Ghost<AtomicI64> = crate::verif_common::Ghost::new(0x6723f019d62af931, AtomicI64::new(0));
fn from_seconds_uf(s: f64) -> NtpDuration {
    if FS_SET.load(Relaxed) && FS_ARG.load(Relaxed) == s.to_bits() {
        return dur(FS_RES.load(Relaxed));
    }
    // any other argument: arbitrary result (over-approximation)
    dur(kani::any())
}
/// fix the (arbitrary) value of from_seconds at the one argument the unit cares about
fn uf_register(s: f64) {
    FS_ARG.store(s.to_bits(), Relaxed);
    FS_RES.store(kani::any(), Relaxed);
    FS_SET.store(true, Relaxed);
}

fn any_opt_nonneg() -> Option<NtpDuration> {
    if kani::any() {
        let v: i64 = kani::any();
        kani::assume(v >= 0);
        Some(dur(v))
    } else {
        None
    }
}
/// thresholds as C39's postcondition guarantees them: every present bound is >= 0
fn any_thr() -> StepThreshold {
    StepThreshold { forward: any_opt_nonneg(), backward: any_opt_nonneg() }
}
/// mathematical reading of "within the threshold" (strict on both sides), in i128
fn spec_within(t: &StepThreshold, x: i64) -> bool {
    let f = match t.forward {
        None => true,
        Some(v) => (x as i128) < raw(v) as i128,
    };
    let b = match t.backward {
        None => true,
        Some(v) => (x as i128) > -(raw(v) as i128),
    };
    f && b
}

fn any_controller() -> KalmanClockController<RecClock> {
    let sc = SynchronizationConfig {
        minimum_agreeing_sources: kani::any(),
        single_step_panic_threshold: any_thr(),
        startup_step_panic_threshold: any_thr(),
        accumulated_step_panic_threshold: any_opt_nonneg(),
        local_stratum: kani::any(),
        reference_id: Default::default(),
        warn_on_jump: kani::any(),
    };
    let acc: i64 = kani::any();
    kani::assume(acc >= 0);
    KalmanClockController {
        sources: HashMap::new(),
        clock: RecClock,
        synchronization_config: sc,
        algo_config: AlgorithmConfig::default(),
        freq_offset: kani::any(),
        timedata: TimeSnapshot {
            accumulated_steps: dur(acc),
            accumulated_steps_threshold: sc.accumulated_step_panic_threshold,
            ..TimeSnapshot::default()
        },
        desired_freq: kani::any(),
        in_startup: kani::any(),
    }
}

// ---------------------------------------------------------------- C01

/// StepThreshold::is_within: requires bounds >= 0 (C39); ensures the mathematical predicate.
#[kani::proof]
fn c01_p_is_within_contract() {
    let t = any_thr();
    let x: i64 = kani::any();
    assert!(t.is_within(dur(x)) == spec_within(&t, x));
    kani::cover!(t.backward.is_some() && x == i64::MIN, "extreme reachable");
}

harness! {
    #[kani::stub(std::process::exit, exit_stub)]
    #[kani::stub(crate::time_types::NtpDuration::from_seconds, from_seconds_uf)]
    #[kani::unwind(3)]
    fn c01_p_check_offset_steer_contract() {
        let mut c = any_controller();
        let change: f64 = kani::any();
        kani::assume(change.is_finite());
        uf_register(change);
        let before_startup = c.in_startup;
        let before_acc = raw(c.timedata.accumulated_steps);
        let sc = c.synchronization_config;
        c.check_offset_steer(change);
        // returned normally => every threshold that applies is respected
        let x = raw(NtpDuration::from_seconds(change));
        assert!(c.in_startup == before_startup);
        if before_startup {
            assert!(spec_within(&sc.startup_step_panic_threshold, x));
            assert!(raw(c.timedata.accumulated_steps) == before_acc);
        } else {
            assert!(spec_within(&sc.single_step_panic_threshold, x));
            let abs = if x == i64::MIN { i64::MAX } else { x.abs() };
            assert!(raw(c.timedata.accumulated_steps) == before_acc.saturating_add(abs));
            if let Some(a) = sc.accumulated_step_panic_threshold {
                assert!(raw(c.timedata.accumulated_steps) <= raw(a));
            }
        }
        kani::cover!(!before_startup && x < 0, "post-startup backward step reachable");
        kani::cover!(before_startup, "startup reachable");
    }
}

harness! {
    #[kani::stub(std::process::exit, exit_stub)]
    #[kani::stub(crate::time_types::NtpDuration::from_seconds, from_seconds_uf)]
    #[kani::unwind(3)]
    fn c01_p_steer_offset_steps_within_thresholds() {
        let mut c = any_controller();
        let st: f64 = kani::any();
        kani::assume(st >= 0.0 && st.is_finite());
        c.algo_config.step_threshold = st;
        let change: f64 = kani::any();
        kani::assume(change.is_finite());
        let freq_delta: f64 = kani::any();
        kani::assume(freq_delta.is_finite() && c.freq_offset.is_finite() && c.desired_freq.is_finite());
        kani::assume(change.abs() > st); // the jump arm (the slew arm is c02_p_slew_*)
        uf_register(change);
        let before_startup = c.in_startup;
        let before_acc = raw(c.timedata.accumulated_steps);
        let sc = c.synchronization_config;
        let upd = c.steer_offset(change, freq_delta);
        // normal return from the jump arm: exactly one step, equal to the requested change,
        // inside every applicable threshold; accumulated steps account for it
        assert!(STEPS.load(Relaxed) == 1);
        let x = STEP_RAW.load(Relaxed);
        assert!(x == raw(NtpDuration::from_seconds(change)));
        if before_startup {
            assert!(spec_within(&sc.startup_step_panic_threshold, x));
        } else {
            assert!(spec_within(&sc.single_step_panic_threshold, x));
            let abs = if x == i64::MIN { i64::MAX } else { x.abs() };
            assert!(raw(c.timedata.accumulated_steps) == before_acc.saturating_add(abs));
            if let Some(a) = sc.accumulated_step_panic_threshold {
                assert!(raw(c.timedata.accumulated_steps) <= raw(a));
            }
        }
        assert!(c.in_startup == before_startup);
        assert!(matches!(upd.source_message, Some(KalmanControllerMessage { inner: KalmanControllerMessageInner::Step { steer } }) if steer == change));
        kani::cover!(!before_startup, "post-startup step reachable");
        kani::cover!(before_startup, "startup step reachable");
    }
}

harness! {
    #[kani::stub(std::process::exit, exit_stub)]
    #[kani::unwind(3)]
    fn c01_p_small_offsets_never_step() {
        let mut c = any_controller();
        let st: f64 = kani::any();
        kani::assume(st >= 0.0 && st.is_finite());
        c.algo_config.step_threshold = st;
        let change: f64 = kani::any();
        kani::assume(change.is_finite() && change.abs() >= 1e-12 && change.abs() <= st);
        kani::assume(st <= 1e6);
        let freq_delta: f64 = kani::any();
        kani::assume(freq_delta.is_finite() && c.freq_offset.is_finite() && c.desired_freq.is_finite());
        let acc = raw(c.timedata.accumulated_steps);
        let _ = c.steer_offset(change, freq_delta);
        assert!(STEPS.load(Relaxed) == 0);
        assert!(raw(c.timedata.accumulated_steps) == acc);
        kani::cover!(true, "slew arm reachable");
    }
}

/// canary: claims steps are also allowed beyond the forward threshold -- must be refuted
harness! {
    #[kani::stub(std::process::exit, exit_stub)]
    #[kani::unwind(3)]
    fn c01_canary_threshold_ignored() {
        let mut c = any_controller();
        let change: f64 = kani::any();
        kani::assume(change.is_finite());
        c.in_startup = false;
        c.check_offset_steer(change);
        assert!(c.synchronization_config.single_step_panic_threshold.forward.is_none());
    }
}

// ---------------------------------------------------------------- C02

/// requires: configured maximum finite >= 0, change and current offset finite (C06 is the unchecked
/// source of that); ensures: the frequency handed to the clock is within +-max and is what is stored.
harness! {
    #[kani::unwind(3)]
    fn c02_p_steer_frequency_clamped() {
        let mut c = any_controller();
        let max: f64 = kani::any();
        kani::assume(max.is_finite() && max >= 0.0);
        c.algo_config.maximum_frequency_steer = max;
        let change: f64 = kani::any();
        kani::assume(change.is_finite());
        kani::assume(c.freq_offset.is_finite()); // whatever the kernel reported, in or out of range
        let _ = c.steer_frequency(change);
        assert!(FREQS.load(Relaxed) == 1);
        let f = f64::from_bits(FREQ_BITS.load(Relaxed));
        assert!(f >= -max && f <= max);
        assert!(f.to_bits() == c.freq_offset.to_bits());
        assert!(STEPS.load(Relaxed) == 0);
        kani::cover!(f == max && max > 0.0, "clamping reachable");
    }
}

harness! {
    #[kani::unwind(3)]
    fn c02_p_change_desired_frequency_clamped() {
        let mut c = any_controller();
        let max: f64 = kani::any();
        kani::assume(max.is_finite() && max >= 0.0);
        c.algo_config.maximum_frequency_steer = max;
        let new_freq: f64 = kani::any();
        let delta: f64 = kani::any();
        kani::assume(new_freq.is_finite() && delta.is_finite() && c.desired_freq.is_finite() && c.freq_offset.is_finite());
        kani::assume(new_freq.abs() <= 1.0 && delta.abs() <= 1.0 && c.desired_freq.abs() <= 1.0);
        let _ = c.change_desired_frequency(new_freq, delta);
        let f = f64::from_bits(FREQ_BITS.load(Relaxed));
        assert!(FREQS.load(Relaxed) == 1 && f >= -max && f <= max);
        assert!(c.desired_freq.to_bits() == new_freq.to_bits());
        kani::cover!(true, "reachable");
    }
}

/// slew arm: requires 1e-12 <= |change| <= step_threshold <= 1e6, 1e-9 <= slew_max, 1e-3 <= slew_min_duration <= 1e6
/// (configuration ranges; stated in evidence); ensures |extra frequency| <= slew_max, applied frequency
/// within +-max, no panic in Duration::from_secs_f64, and a next_update is scheduled.
harness! {
    #[kani::stub(std::process::exit, exit_stub)]
    #[kani::unwind(3)]
    fn c02_p_slew_frequency_bounded() {
        let mut c = any_controller();
        let max: f64 = kani::any();
        kani::assume(max.is_finite() && max >= 0.0);
        c.algo_config.maximum_frequency_steer = max;
        let slew_max: f64 = kani::any();
        let min_dur: f64 = kani::any();
        let st: f64 = kani::any();
        kani::assume(slew_max >= 1e-9 && slew_max <= 1.0);
        kani::assume(min_dur >= 1e-3 && min_dur <= 1e6);
        kani::assume(st >= 0.0 && st <= 1e6);
        c.algo_config.slew_maximum_frequency_offset = slew_max;
        c.algo_config.slew_minimum_duration = min_dur;
        c.algo_config.step_threshold = st;
        let change: f64 = kani::any();
        kani::assume(change.is_finite() && change.abs() >= 1e-12 && change.abs() <= st);
        let freq_delta: f64 = kani::any();
        kani::assume(freq_delta.abs() <= 1.0 && c.freq_offset.is_finite());
        c.desired_freq = 0.0; // update_clock only starts a slew when no slew is active
        let upd = c.steer_offset(change, freq_delta);
        assert!(c.desired_freq.abs() <= slew_max);
        assert!(c.desired_freq != 0.0 && (c.desired_freq < 0.0) == (change > 0.0));
        let f = f64::from_bits(FREQ_BITS.load(Relaxed));
        assert!(FREQS.load(Relaxed) == 1 && f >= -max && f <= max);
        assert!(upd.next_update.is_some());
        assert!(STEPS.load(Relaxed) == 0);
        kani::cover!(c.desired_freq.abs() == slew_max, "maximum slew reachable");
    }
}

harness! {
    #[kani::unwind(3)]
    fn c02_canary_frequency_unclamped() {
        let mut c = any_controller();
        let max: f64 = kani::any();
        kani::assume(max.is_finite() && max >= 0.0);
        c.algo_config.maximum_frequency_steer = max;
        let change: f64 = kani::any();
        kani::assume(change.is_finite() && c.freq_offset.is_finite());
        let before = c.freq_offset;
        let _ = c.steer_frequency(change);
        assert!(c.freq_offset == (1.0 + before) * (1.0 + change) - 1.0);
    }
}


// ---------------------------------------------------------------- C03 / C04 / C37: update_clock against callee contracts
use super::matrix::{Matrix, Vector};

static SEL_N: crate::verif_common::Ghost<AtomicU8> = crate::verif_common::Ghost::new(0x6756fb37257ad18d, AtomicU8::new(255));
static SEL_ID0: crate::verif_common::Ghost<AtomicU64> = crate::verif_common::Ghost::new(0x6713703e9e93660b, AtomicU64::new(0));
static SEL_ID1: crate::verif_common::Ghost<AtomicU64> = crate::verif_common::Ghost::new(0x673ea76243eae433, AtomicU64::new(0));
static SEL_RETURN_ALL: crate::verif_common::Ghost<AtomicBool> = crate::verif_common::Ghost::new(0x671f359bd1204e93, AtomicBool::new(false));
static COMB_N: crate::verif_common::Ghost<AtomicU8> = crate::verif_common::Ghost::new(0x676edd87f1574497, AtomicU8::new(255));
static COMB_LEAP: crate::verif_common::Ghost<AtomicU8> = crate::verif_common::Ghost::new(0x67b934939d4265f6, AtomicU8::new(255)); // 255 = None, else leap_code
static PROGRESSED: crate::verif_common::Ghost<AtomicU8> = crate::verif_common::Ghost::new(0x672ef3ae028f0eba, AtomicU8::new(0));

fn leap_from(c: u8) -> NtpLeapIndicator {
    match c {
        0 => NtpLeapIndicator::NoWarning,
        1 => NtpLeapIndicator::Leap61,
        2 => NtpLeapIndicator::Leap59,
        3 => NtpLeapIndicator::Unknown,
        _ => NtpLeapIndicator::Unsynchronized,
    }
}

/// contract stand-in for select::select (its own contract: c03_*select* harnesses in select.rs):
/// records the candidate list it is given; returns either nothing or all candidates.
fn select_stub(
    _sc: &SynchronizationConfig,
    _ac: &AlgorithmConfig,
    candidates: &[SourceSnapshot],
) -> Vec<SourceSnapshot> {
    SEL_N.store(candidates.len() as u8, Relaxed);
    if candidates.len() > 0 {
        SEL_ID0.store(candidates[0].index.0, Relaxed);
    }
    if candidates.len() > 1 {
        SEL_ID1.store(candidates[1].index.0, Relaxed);
    }
    if SEL_RETURN_ALL.load(Relaxed) {
        candidates.to_vec()
    } else {
        Vec::new()
    }
}

/// contract stand-in for combiner::combine: None iff the selection is empty; the estimate is a
/// fixed quiescent one (no steering needed); the leap vote is whatever the harness chose.
fn combine_stub(selection: &[SourceSnapshot], _ac: &AlgorithmConfig) -> Option<combiner::Combine> {
    COMB_N.store(selection.len() as u8, Relaxed);
    let first = selection.first()?;
    let l = COMB_LEAP.load(Relaxed);
    Some(combiner::Combine {
        estimate: KalmanState {
            state: Vector::new_vector([0.0, 0.0]),
            uncertainty: Matrix::new([[1e-6, 0.0], [0.0, 1e-12]]),
            time: first.state.time,
        },
        sources: vec![first.index],
        delay: NtpDuration::ZERO,
        leap_indicator: if l == 255 { None } else { Some(leap_from(l)) },
    })
}

/// TimeSnapshot::root_dispersion is only forwarded to NtpClock::error_estimate_update (float-heavy:
/// powi, sqrt); irrelevant to the leap/selection obligations.
fn root_dispersion_stub(_t: &TimeSnapshot, _now: NtpTimestamp) -> NtpDuration {
    dur(kani::any())
}

fn progress_time_stub(s: &KalmanState, time: NtpTimestamp, _wander: f64, _period: Option<f64>) -> KalmanState {
    PROGRESSED.store(PROGRESSED.load(Relaxed).saturating_add(1), Relaxed);
    KalmanState { state: s.state, uncertainty: s.uncertainty, time }
}

fn any_snapshot(id: u64, t: NtpTimestamp) -> SourceSnapshot {
    SourceSnapshot {
        index: ClockId(id),
        state: KalmanState {
            state: Vector::new_vector([kani::any(), kani::any()]),
            uncertainty: Matrix::new([[kani::any(), kani::any()], [kani::any(), kani::any()]]),
            time: t,
        },
        wander: kani::any(),
        delay: kani::any(),
        period: if kani::any() { Some(kani::any()) } else { None },
        source_uncertainty: dur(kani::any()),
        source_delay: dur(kani::any()),
        leap_indicator: leap_from(kani::any::<u8>() % 5),
        last_update: t,
    }
}

/// controller with the single registered source 11 (with or without snapshot, usable or not)
fn controller_with_one_source(time: NtpTimestamp) -> (KalmanClockController<RecClock>, bool, bool) {
    let mut c = any_controller();
    let has: bool = kani::any();
    let usable: bool = kani::any();
    let back0: i64 = kani::any();
    kani::assume(back0 >= 0);
    let s0 = if has { Some(any_snapshot(11, time - dur(back0))) } else { None };
    c.sources.insert(ClockId(11), (s0, usable));
    c.desired_freq = 0.0;
    (c, has, usable)
}

struct TwoSources {
    has: [bool; 2],
    usable: [bool; 2],
}
/// controller with the registered sources 11 and 22: each with or without a snapshot, usable or not
fn controller_with_two_sources(time: NtpTimestamp) -> (KalmanClockController<RecClock>, TwoSources) {
    let mut c = any_controller();
    let ts = TwoSources { has: [kani::any(), kani::any()], usable: [kani::any(), kani::any()] };
    // snapshots are not in the future of `time`
    let back0: i64 = kani::any();
    let back1: i64 = kani::any();
    kani::assume(back0 >= 0 && back1 >= 0);
    let s0 = if ts.has[0] { Some(any_snapshot(11, time - dur(back0))) } else { None };
    let s1 = if ts.has[1] { Some(any_snapshot(22, time - dur(back1))) } else { None };
    c.sources.insert(ClockId(11), (s0, ts.usable[0]));
    c.sources.insert(ClockId(22), (s1, ts.usable[1]));
    c.desired_freq = 0.0;
    (c, ts)
}

/// C03 / C37: the candidates handed to selection are exactly the registered sources that have a
/// snapshot and were last reported usable; with an empty selection nothing touches the clock and
/// nothing observable changes.  bounded: 2 registered sources.
harness! {
    #[kani::stub(super::select::select, select_stub)]
    #[kani::stub(super::combiner::combine, combine_stub)]
    #[kani::stub(super::source::KalmanState::progress_time, progress_time_stub)]
    #[kani::stub(std::process::exit, exit_stub)]
    #[kani::unwind(4)]
    fn c03_tb_update_clock_only_usable_candidates_two_sources() {
        let time = NtpTimestamp::from_bits(kani::any());
        let (mut c, ts) = controller_with_two_sources(time);
        let startup = c.in_startup;
        let td = c.timedata;
        SEL_RETURN_ALL.store(false, Relaxed);
        let upd = c.update_clock(time);
        let want0 = ts.has[0] && ts.usable[0];
        let want1 = ts.has[1] && ts.usable[1];
        let n = SEL_N.load(Relaxed);
        assert!(n == (want0 as u8) + (want1 as u8));
        if want0 { assert!(SEL_ID0.load(Relaxed) == 11); }
        if !want0 && want1 { assert!(SEL_ID0.load(Relaxed) == 22); }
        if want0 && want1 { assert!(SEL_ID1.load(Relaxed) == 22); }
        // no consensus => the clock is not touched at all and no state changes
        assert!(STEPS.load(Relaxed) == 0 && FREQS.load(Relaxed) == 0 && LEAPS.load(Relaxed) == 0 && ERR_UPDATES.load(Relaxed) == 0);
        assert!(upd.used_sources.is_none() && upd.source_message.is_none() && upd.next_update.is_none());
        assert!(c.in_startup == startup);
        assert!(c.timedata == td);
        kani::cover!(n == 2, "two candidates reachable");
        kani::cover!(n == 0 && ts.has[0] && ts.has[1], "all unusable reachable");
    }
}

harness! {
    #[kani::stub(super::select::select, select_stub)]
    #[kani::stub(super::combiner::combine, combine_stub)]
    #[kani::stub(super::source::KalmanState::progress_time, progress_time_stub)]
    #[kani::stub(std::process::exit, exit_stub)]
    #[kani::unwind(3)]
    fn c03_b_update_clock_only_usable_candidates_no_consensus_no_steer() {
        let time = NtpTimestamp::from_bits(kani::any());
        let (mut c, has, usable) = controller_with_one_source(time);
        let startup = c.in_startup;
        let td = c.timedata;
        SEL_RETURN_ALL.store(false, Relaxed);
        let upd = c.update_clock(time);
        let n = SEL_N.load(Relaxed);
        assert!(n == (has && usable) as u8);
        if n == 1 { assert!(SEL_ID0.load(Relaxed) == 11); }
        // no consensus => the clock is not touched at all and no state changes
        assert!(STEPS.load(Relaxed) == 0 && FREQS.load(Relaxed) == 0 && LEAPS.load(Relaxed) == 0 && ERR_UPDATES.load(Relaxed) == 0);
        assert!(upd.used_sources.is_none() && upd.source_message.is_none() && upd.next_update.is_none());
        assert!(c.in_startup == startup);
        assert!(c.timedata == td);
        kani::cover!(n == 1, "candidate reachable");
        kani::cover!(n == 0 && has, "unusable source with snapshot reachable");
    }
}

/// C04 link: the indicator handed to the kernel / advertised is exactly the vote over the
/// SELECTION (Some(l) => status_update(l) once and stored; None => previous indicator kept).
harness! {
    #[kani::stub(super::select::select, select_stub)]
    #[kani::stub(super::combiner::combine, combine_stub)]
    #[kani::stub(super::source::KalmanState::progress_time, progress_time_stub)]
    #[kani::stub(crate::system::TimeSnapshot::root_dispersion, root_dispersion_stub)]
    #[kani::stub(std::process::exit, exit_stub)]
    #[kani::unwind(4)]
    fn c04_b_update_clock_applies_vote_or_keeps_previous() {
        let time = NtpTimestamp::from_bits(kani::any());
        let (mut c, has, usable) = controller_with_one_source(time);
        kani::assume(has && usable);
        let vote: u8 = kani::any();
        kani::assume(vote <= 2 || vote == 255);
        COMB_LEAP.store(vote, Relaxed);
        SEL_RETURN_ALL.store(true, Relaxed);
        let prev = c.timedata.leap_indicator;
        c.timedata.root_variance_base = 0.0;
        let upd = c.update_clock(time);
        // combine saw exactly what select returned
        assert!(COMB_N.load(Relaxed) == SEL_N.load(Relaxed));
        if vote == 255 {
            assert!(LEAPS.load(Relaxed) == 0);
            assert!(c.timedata.leap_indicator == prev);
        } else {
            assert!(LEAPS.load(Relaxed) == 1 && LEAP_VAL.load(Relaxed) == vote);
            assert!(c.timedata.leap_indicator == leap_from(vote));
        }
        assert!(!c.in_startup);
        assert!(upd.used_sources.is_some());
        assert!(STEPS.load(Relaxed) == 0);
        kani::cover!(vote == 2, "leap59 vote reachable");
        kani::cover!(vote == 255, "no majority reachable");
    }
}

/// C37 (a): measurements and usability reports of a source that is not (or no longer) registered
/// are ignored: default update, no state change, selection never runs, clock untouched;
/// remove_source really removes.  bounded: 1 remaining + 1 removed source.
harness! {
    #[kani::stub(super::select::select, select_stub)]
    #[kani::stub(super::combiner::combine, combine_stub)]
    #[kani::stub(super::source::KalmanState::progress_time, progress_time_stub)]
    #[kani::stub(std::process::exit, exit_stub)]
    #[kani::unwind(4)]
    fn c37_b_unregistered_or_removed_sources_are_ignored() {
        let time = NtpTimestamp::from_bits(kani::any());
        let mut c = any_controller();
        let usable11: bool = kani::any();
        c.sources.insert(ClockId(11), (None, usable11));
        c.sources.insert(ClockId(22), (None, kani::any()));
        // `other` is the removed source (22) or any never-registered id
        let other: u64 = kani::any();
        kani::assume(other != 11);
        c.remove_source(ClockId(22));
        assert!(!c.sources.contains_key(&ClockId(22)) && c.sources.len() == 1);
        // usability change of a removed / unknown source changes nothing
        c.source_update(ClockId(other), true);
        assert!(c.sources.len() == 1 && c.sources.get(&ClockId(11)).unwrap().1 == usable11);
        // a late measurement of the removed / unknown source
        let td = c.timedata;
        let u2 = c.source_message(ClockId(other), KalmanSourceMessage { inner: any_snapshot(other, time) });
        assert!(SEL_N.load(Relaxed) == 255, "selection never ran");
        assert!(u2.time_snapshot.is_none() && u2.used_sources.is_none() && u2.source_message.is_none());
        assert!(c.sources.len() == 1 && c.timedata == td);
        assert!(c.sources.get(&ClockId(11)).unwrap().0.is_none());
        assert!(STEPS.load(Relaxed) == 0 && FREQS.load(Relaxed) == 0 && LEAPS.load(Relaxed) == 0);
        kani::cover!(other == 22, "removed source reachable");
        kani::cover!(other != 22, "unknown source reachable");
    }
}

/// C37 (b): the usability flag follows the last report for that source, a registered source's
/// message is stored and selection then sees it only if it was last reported usable.
harness! {
    #[kani::stub(super::select::select, select_stub)]
    #[kani::stub(super::combiner::combine, combine_stub)]
    #[kani::stub(super::source::KalmanState::progress_time, progress_time_stub)]
    #[kani::stub(std::process::exit, exit_stub)]
    #[kani::unwind(3)]
    fn c37_b_registered_message_counts_only_if_last_reported_usable() {
        let time = NtpTimestamp::from_bits(kani::any());
        let mut c = any_controller();
        c.sources.insert(ClockId(11), (None, kani::any()));
        let flag: bool = kani::any();
        c.source_update(ClockId(11), flag);
        assert!(c.sources.get(&ClockId(11)).unwrap().1 == flag);
        SEL_RETURN_ALL.store(false, Relaxed);
        let _ = c.source_message(ClockId(11), KalmanSourceMessage { inner: any_snapshot(11, time) });
        assert!(c.sources.get(&ClockId(11)).unwrap().0.is_some());
        assert!(SEL_N.load(Relaxed) == flag as u8);
        kani::cover!(flag, "usable reachable");
    }
}

/// canary: claims a removed source's late message still reaches selection -- must be refuted
harness! {
    #[kani::stub(super::select::select, select_stub)]
    #[kani::stub(super::combiner::combine, combine_stub)]
    #[kani::stub(super::source::KalmanState::progress_time, progress_time_stub)]
    #[kani::stub(std::process::exit, exit_stub)]
    #[kani::unwind(3)]
    fn c37_canary_removed_source_still_counts() {
        let time = NtpTimestamp::from_bits(kani::any());
        let mut c = any_controller();
        c.sources.insert(ClockId(11), (None, true));
        c.remove_source(ClockId(11));
        SEL_RETURN_ALL.store(false, Relaxed);
        let _ = c.source_message(ClockId(11), KalmanSourceMessage { inner: any_snapshot(11, time) });
        assert!(SEL_N.load(Relaxed) == 1);
    }
}

harness! {
    #[kani::stub(super::select::select, select_stub)]
    #[kani::stub(super::combiner::combine, combine_stub)]
    #[kani::stub(super::source::KalmanState::progress_time, progress_time_stub)]
    #[kani::stub(std::process::exit, exit_stub)]
    #[kani::unwind(4)]
    fn c03_canary_unusable_sources_are_candidates() {
        let time = NtpTimestamp::from_bits(kani::any());
        let (mut c, has, _usable) = controller_with_one_source(time);
        SEL_RETURN_ALL.store(false, Relaxed);
        let _ = c.update_clock(time);
        assert!(SEL_N.load(Relaxed) == has as u8);
    }
}

#[cfg(all(kani, test))]
mod replay {
    use super::*;
    include!(concat!(env!("VERIF_REPLAY_DIR"), "/ntp_proto__algorithm__kalman__mod.rs"));
}

