// Contract harnesses for ntp-proto/src/algorithm/kalman/select.rs (C03: majority consensus).
#![allow(unused_imports, dead_code)]
use super::*;
use crate::algorithm::kalman::matrix::{Matrix, Vector};
use crate::algorithm::kalman::source::KalmanState;
use crate::packet::NtpLeapIndicator;
use crate::time_types::{NtpDuration, NtpTimestamp};
use crate::ClockId;
use std::sync::atomic::{AtomicU64, Ordering::Relaxed};

// offset_uncertainty() = sqrt(variance) as an uninterpreted, per-source deterministic value
// (memo keyed by the snapshot's index); its non-negativity is the only fact used.
static UNC: crate::verif_common::Ghost<[AtomicU64; 3]> = crate::verif_common::Ghost::new(0x6748213b7249a404, [AtomicU64::new(0), AtomicU64::new(0), AtomicU64::new(0)]);
fn offset_uncertainty_uf(s: &SourceSnapshot) -> f64 {
    f64::from_bits(UNC[(s.index.0 % 3) as usize].load(Relaxed))
}

fn leap_from(c: u8) -> NtpLeapIndicator {
    match c {
        0 => NtpLeapIndicator::NoWarning,
        1 => NtpLeapIndicator::Leap61,
        2 => NtpLeapIndicator::Leap59,
        3 => NtpLeapIndicator::Unknown,
        _ => NtpLeapIndicator::Unsynchronized,
    }
}

struct Cand {
    snap: SourceSnapshot,
    lo: f64,
    hi: f64,
    eligible: bool,
    acceptable: bool,
}

fn any_candidate(i: u64, ac: &AlgorithmConfig) -> Cand {
    let offset: f64 = kani::any();
    let unc: f64 = kani::any();
    let delay: f64 = kani::any();
    kani::assume(offset.is_finite() && unc.is_finite() && unc >= 0.0 && delay.is_finite() && delay >= 0.0);
    // negative zero excluded: with uncertainty == delay == -0.0 the interval's end sorts before its
    // start under total_cmp (-0.0 < +0.0) and `cur -= 1` underflows; sqrt/NtpDuration never yield -0.0 here
    kani::assume(unc.is_sign_positive() && delay.is_sign_positive());
    UNC[i as usize].store(unc.to_bits(), Relaxed);
    let period = if kani::any() { Some(kani::any::<f64>()) } else { None };
    let leap = leap_from(kani::any::<u8>() % 5);
    let snap = SourceSnapshot {
        index: ClockId(i),
        state: KalmanState {
            state: Vector::new_vector([offset, 0.0]),
            uncertainty: Matrix::new([[0.0, 0.0], [0.0, 0.0]]),
            time: NtpTimestamp::default(),
        },
        wander: 0.0,
        delay,
        period,
        source_uncertainty: NtpDuration::ZERO,
        source_delay: NtpDuration::ZERO,
        leap_indicator: leap,
        last_update: NtpTimestamp::default(),
    };
    // the confidence interval, as the statement's "uncertainty is acceptable / intervals" define it
    let radius = unc * ac.range_statistical_weight + delay * ac.range_delay_weight;
    kani::assume(radius.is_finite());
    let acceptable = radius <= ac.maximum_source_uncertainty && leap.is_synchronized();
    Cand { snap, lo: offset - radius, hi: offset + radius, eligible: acceptable && period.is_none(), acceptable }
}

/// weights: symbolic choice between the two unit weightings (statistical only / delay only); fully
/// symbolic weights make the two f64 multiplications per candidate intractable for the SAT back end.
fn any_configs() -> (SynchronizationConfig, AlgorithmConfig) {
    let sc = SynchronizationConfig { minimum_agreeing_sources: kani::any(), ..Default::default() };
    let stat_only: bool = kani::any();
    let ws: f64 = if stat_only { 1.0 } else { 0.0 };
    let wd: f64 = if stat_only { 0.0 } else { 1.0 };
    let mx: f64 = kani::any();
    kani::assume(!mx.is_nan());
    let ac = AlgorithmConfig {
        range_statistical_weight: ws,
        range_delay_weight: wd,
        maximum_source_uncertainty: mx,
        ..Default::default()
    };
    (sc, ac)
}

/// a subset (bitmask) of the candidates is a witness of consensus
fn good(mask: u8, c: &[Cand], min: usize, eligible_total: usize) -> bool {
    let mut size = 0usize;
    let mut lo = f64::NEG_INFINITY;
    let mut hi = f64::INFINITY;
    let mut i = 0;
    while i < c.len() {
        if mask & (1 << i) != 0 {
            if !c[i].eligible {
                return false;
            }
            size += 1;
            if c[i].lo > lo {
                lo = c[i].lo;
            }
            if c[i].hi < hi {
                hi = c[i].hi;
            }
        }
        i += 1;
    }
    size >= 1 && size >= min && 2 * size > eligible_total && lo <= hi
}

fn check_select(c: &[Cand], sc: &SynchronizationConfig, ac: &AlgorithmConfig) {
    let snaps: Vec<SourceSnapshot> = c.iter().map(|x| x.snap).collect();
    let result = select(sc, ac, &snaps);
    let mut eligible_total = 0usize;
    for x in c.iter() {
        if x.eligible {
            eligible_total += 1;
        }
    }
    // every returned source is one of the candidates and is synchronised and acceptably certain
    for r in result.iter() {
        let k = r.index.0 as usize;
        assert!(k < c.len());
        assert!(c[k].acceptable);
    }
    assert!(result.len() <= c.len());
    // a non-empty result needs a strict-majority, large-enough set of eligible sources sharing a point
    if !result.is_empty() {
        let mut witness = false;
        let mut mask: u8 = 1;
        while (mask as usize) < (1usize << c.len()) {
            if good(mask, c, sc.minimum_agreeing_sources, eligible_total) {
                witness = true;
            }
            mask += 1;
        }
        assert!(witness);
    }
}

/// bounded: 2 candidates, all fields symbolic (thorough tier: does not finish within the quick budget)
#[kani::proof]
#[kani::stub(super::super::SourceSnapshot::offset_uncertainty, offset_uncertainty_uf)]
#[kani::unwind(7)]
fn c03_tb_select_consensus_two_candidates() {
    let (sc, ac) = any_configs();
    let c = [any_candidate(0, &ac), any_candidate(1, &ac)];
    check_select(&c, &sc, &ac);
    kani::cover!(c[0].eligible && c[1].eligible && c[0].hi < c[1].lo, "disagreeing pair reachable");
    kani::cover!(c[0].eligible && c[1].eligible && c[0].hi >= c[1].lo && c[1].hi >= c[0].lo, "agreeing pair reachable");
}

/// bounded: 3 candidates (thorough tier)
#[kani::proof]
#[kani::stub(super::super::SourceSnapshot::offset_uncertainty, offset_uncertainty_uf)]
#[kani::unwind(10)]
fn c03_tb_select_consensus_three_candidates() {
    let (sc, ac) = any_configs();
    let c = [any_candidate(0, &ac), any_candidate(1, &ac), any_candidate(2, &ac)];
    check_select(&c, &sc, &ac);
    kani::cover!(c[0].eligible && c[1].eligible && c[2].eligible, "three eligible reachable");
}

/// canary: claims a single eligible source out of two eligible ones is enough -- must be refuted
#[kani::proof]
#[kani::stub(super::super::SourceSnapshot::offset_uncertainty, offset_uncertainty_uf)]
#[kani::unwind(7)]
fn c03_tb_canary_disabled_select_needs_no_majority() {
    let (sc, ac) = any_configs();
    let c = [any_candidate(0, &ac), any_candidate(1, &ac)];
    let snaps: Vec<SourceSnapshot> = c.iter().map(|x| x.snap).collect();
    kani::assume(c[0].eligible && c[1].eligible && c[0].hi >= c[1].lo && c[1].hi >= c[0].lo);
    kani::assume(sc.minimum_agreeing_sources <= 2);
    let result = select(&sc, &ac, &snaps);
    assert!(result.is_empty());
}

/// bounded: 1 candidate, all fields symbolic: eligibility filtering (periodic / unsynchronised /
/// too uncertain never selected), minimum_agreeing_sources respected, internal assert_eq unreachable.
#[kani::proof]
#[kani::stub(super::super::SourceSnapshot::offset_uncertainty, offset_uncertainty_uf)]
#[kani::unwind(5)]
fn c03_b_select_one_candidate() {
    let (sc, ac) = any_configs();
    let c = [any_candidate(0, &ac)];
    check_select(&c, &sc, &ac);
    kani::cover!(c[0].eligible && sc.minimum_agreeing_sources <= 1, "selectable reachable");
    kani::cover!(!c[0].eligible && c[0].acceptable, "periodic reachable");
}

/// canary: claims nothing is ever selected -- must be refuted
#[kani::proof]
#[kani::stub(super::super::SourceSnapshot::offset_uncertainty, offset_uncertainty_uf)]
#[kani::unwind(5)]
fn c03_canary_select_never_selects() {
    let (sc, ac) = any_configs();
    let c = [any_candidate(0, &ac)];
    let snaps = [c[0].snap];
    assert!(select(&sc, &ac, &snaps).is_empty());
}

#[cfg(all(kani, test))]
mod replay {
    use super::*;
    include!(concat!(env!("VERIF_REPLAY_DIR"), "/ntp_proto__algorithm__kalman__select.rs"));
}
