// Contract harnesses for ntp-proto/src/algorithm/mod.rs (C05: on-wire formulas in the wrappers).
// Compiled in the transformed copy (tokio mpsc channel -> FIFO queue shim, see transforms.json).
#![cfg(feature = "verif-xrepo")] // type-checks only against the transformed text (channel shim)
#![allow(unused_imports, dead_code)]
use super::*;
use std::sync::atomic::{AtomicBool, AtomicI64, AtomicU64, AtomicU8, Ordering::Relaxed};

static CALLS: crate::verif_common::Ghost<AtomicU8> = crate::verif_common::Ghost::new(0x67b0920f43715c71, AtomicU8::new(0));
static OFFSET: crate::verif_common::Ghost<AtomicI64> = crate::verif_common::Ghost::new(0x677aef41ab22f056, AtomicI64::new(0));
static DELAY: crate::verif_common::Ghost<AtomicI64> = crate::verif_common::Ghost::new(0x67028a676eda27c7, AtomicI64::new(0));
static LOCALTIME: crate::verif_common::Ghost<AtomicU64> = crate::verif_common::Ghost::new(0x67603fac58655170, AtomicU64::new(0));

fn raw(d: NtpDuration) -> i64 {
    i64::from_be_bytes((NtpTimestamp::from_bits([0; 8]) + d).to_bits())
}
fn ts(v: u64) -> NtpTimestamp {
    NtpTimestamp::from_bits(v.to_be_bytes())
}
fn clamp(v: i128) -> i64 {
    if v > i64::MAX as i128 {
        i64::MAX
    } else if v < i64::MIN as i128 {
        i64::MIN
    } else {
        v as i64
    }
}

/// recording inner controller: stores what the wrapper hands to the clock filter
struct RecTwoWay;
impl InternalSourceController for RecTwoWay {
    type ControllerMessage = ();
    type SourceMessage = ();
    type MeasurementDelay = NtpDuration;
    fn handle_message(&mut self, _m: ()) {}
    fn handle_measurement(&mut self, m: InternalMeasurement<NtpDuration>) -> Option<()> {
        CALLS.store(CALLS.load(Relaxed).saturating_add(1), Relaxed);
        OFFSET.store(raw(m.offset), Relaxed);
        DELAY.store(raw(m.delay), Relaxed);
        LOCALTIME.store(u64::from_be_bytes(m.localtime.to_bits()), Relaxed);
        None
    }
    fn desired_poll_interval(&self) -> PollInterval {
        PollInterval::default()
    }
    fn observe(&self) -> ObservableSourceTimedata {
        ObservableSourceTimedata::default()
    }
}
struct RecOneWay;
impl InternalSourceController for RecOneWay {
    type ControllerMessage = ();
    type SourceMessage = ();
    type MeasurementDelay = ();
    fn handle_message(&mut self, _m: ()) {}
    fn handle_measurement(&mut self, m: InternalMeasurement<()>) -> Option<()> {
        CALLS.store(CALLS.load(Relaxed).saturating_add(1), Relaxed);
        OFFSET.store(raw(m.offset), Relaxed);
        LOCALTIME.store(u64::from_be_bytes(m.localtime.to_bits()), Relaxed);
        None
    }
    fn desired_poll_interval(&self) -> PollInterval {
        PollInterval::default()
    }
    fn observe(&self) -> ObservableSourceTimedata {
        ObservableSourceTimedata::default()
    }
}

fn meas(sender_id: ClockId, receiver_id: ClockId, s: u64, r: u64) -> Measurement {
    Measurement {
        sender_id,
        receiver_id,
        sender_ts: ts(s),
        receiver_ts: ts(r),
        root_delay: NtpDuration::ZERO,
        root_dispersion: NtpDuration::ZERO,
        leap: NtpLeapIndicator::NoWarning,
        precision: kani::any(),
    }
}

/// post (from the statement): with era-extended true times T1..T4 whose used differences fit i64,
/// offset == ((T2-T1)+(T3-T4))/2 (truncating; the sum saturated if it does not fit) and
/// delay == (T4-T1)-(T3-T2) (saturated if it does not fit); the filter's local time is T4.
#[kani::proof]
#[kani::unwind(4)]
fn c05_p_two_way_on_wire_formulas() {
    let (tx, _rx) = crate::verif_common::chan::unbounded_channel();
    let mut w = TwoWaySourceControllerWrapper {
        id: ClockId(1),
        inner: Arc::new(Mutex::new(RecTwoWay)),
        last_outgoing_measurement: None,
        messages_for_system: tx,
    };
    let m: i128 = 1i128 << 64;
    // true (era-extended) times, units of 2^-32 s
    let t1: i128 = kani::any::<u64>() as i128;
    let d21: i64 = kani::any(); // T2 - T1
    let d32: i64 = kani::any(); // T3 - T2
    let d41: i64 = kani::any(); // T4 - T1
    let t2 = t1 + d21 as i128;
    let t3 = t2 + d32 as i128;
    let t4 = t1 + d41 as i128;
    let d34 = t3 - t4; // T3 - T4
    kani::assume(d34 >= i64::MIN as i128 && d34 <= i64::MAX as i128);
    let w64 = |t: i128| t.rem_euclid(m) as u64;
    // outgoing: sent at T1 (local), received by the server at T2
    w.handle_measurement(meas(ClockId::SYSTEM, ClockId(1), w64(t1), w64(t2)));
    assert!(CALLS.load(Relaxed) == 0);
    // incoming: sent by the server at T3, received locally at T4
    w.handle_measurement(meas(ClockId(1), ClockId::SYSTEM, w64(t3), w64(t4)));
    assert!(CALLS.load(Relaxed) == 1);
    let want_offset = clamp(d21 as i128 + d34).saturating_div(2);
    let want_delay = clamp(d41 as i128 - d32 as i128);
    assert!(OFFSET.load(Relaxed) == want_offset);
    assert!(DELAY.load(Relaxed) == want_delay);
    assert!(LOCALTIME.load(Relaxed) == w64(t4));
    // each request yields at most one measurement: a second answer finds no pending request
    w.handle_measurement(meas(ClockId(1), ClockId::SYSTEM, w64(t3), w64(t4)));
    assert!(CALLS.load(Relaxed) == 1);
    kani::cover!(t2 >= m && t1 < m, "era boundary between T1 and T2 reachable");
    kani::cover!(want_offset < 0 && want_delay > 0, "typical case reachable");
    core::mem::forget(w);
}

/// one-way sources: offset == remote (sender) time - local (receiver) time, across eras.
#[kani::proof]
#[kani::unwind(4)]
fn c05_p_one_way_offset() {
    let (tx, _rx) = crate::verif_common::chan::unbounded_channel();
    let mut w = OneWaySourceControllerWrapper {
        id: ClockId(1),
        inner: Arc::new(Mutex::new(RecOneWay)),
        messages_for_system: tx,
    };
    let m: i128 = 1i128 << 64;
    let local: i128 = kani::any::<u64>() as i128;
    let d: i64 = kani::any(); // remote - local (true difference, representable)
    let remote = local + d as i128;
    w.handle_measurement(meas(ClockId(1), ClockId::SYSTEM, remote.rem_euclid(m) as u64, local as u64));
    assert!(CALLS.load(Relaxed) == 1);
    assert!(OFFSET.load(Relaxed) == d);
    assert!(LOCALTIME.load(Relaxed) == local as u64);
    kani::cover!(remote >= m, "era boundary reachable");
    core::mem::forget(w);
}

#[kani::proof]
#[kani::unwind(4)]
fn c05_canary_offset_sign_flipped() {
    let (tx, _rx) = crate::verif_common::chan::unbounded_channel();
    let mut w = OneWaySourceControllerWrapper {
        id: ClockId(1),
        inner: Arc::new(Mutex::new(RecOneWay)),
        messages_for_system: tx,
    };
    let a: u64 = kani::any();
    let b: u64 = kani::any();
    w.handle_measurement(meas(ClockId(1), ClockId::SYSTEM, a, b));
    assert!(OFFSET.load(Relaxed) == b.wrapping_sub(a) as i64);
    core::mem::forget(w);
}

/// C37: "ignores data arriving for a source after its removal" starts with the removal being
/// announced: dropping a source controller wrapper (one-way or two-way) sends exactly one
/// `Dropped` message for its id to the system task, which then calls remove_source (anchor in
/// units/C37.json); set_usable sends exactly one UsabilityChange carrying the flag.
#[kani::proof]
#[kani::unwind(4)]
fn c37_p_wrapper_drop_announces_removal() {
    let (tx, mut rx) = crate::verif_common::chan::unbounded_channel();
    let one_way: bool = kani::any();
    let id: u64 = kani::any();
    let flag: bool = kani::any();
    if one_way {
        let mut w = OneWaySourceControllerWrapper {
            id: ClockId(id),
            inner: Arc::new(Mutex::new(RecOneWay)),
            messages_for_system: tx,
        };
        w.set_usable(flag);
        drop(w);
    } else {
        let mut w = TwoWaySourceControllerWrapper {
            id: ClockId(id),
            inner: Arc::new(Mutex::new(RecTwoWay)),
            last_outgoing_measurement: None,
            messages_for_system: tx,
        };
        w.set_usable(flag);
        drop(w);
    }
    assert!(rx.len() == 2);
    match rx.try_pop() {
        Some((ClockId(i), WrapperMessage::UsabilityChange(f))) => assert!(i == id && f == flag),
        _ => panic!("first message is the usability change"),
    }
    match rx.try_pop() {
        Some((ClockId(i), WrapperMessage::Dropped)) => assert!(i == id),
        _ => panic!("dropping the wrapper announces the removal"),
    }
    kani::cover!(one_way, "one-way reachable");
    kani::cover!(!one_way, "two-way reachable");
}

#[kani::proof]
#[kani::unwind(4)]
fn c37_canary_drop_is_silent() {
    let (tx, rx) = crate::verif_common::chan::unbounded_channel();
    let w = OneWaySourceControllerWrapper {
        id: ClockId(1),
        inner: Arc::new(Mutex::new(RecOneWay)),
        messages_for_system: tx,
    };
    drop(w);
    assert!(rx.len() == 0);
}

#[cfg(all(kani, test))]
mod replay {
    use super::*;
    include!(concat!(env!("VERIF_REPLAY_DIR"), "/ntp_proto__algorithm__mod.rs"));
}
