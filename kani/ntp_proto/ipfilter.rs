// Contract harnesses for ntp-proto/src/ipfilter.rs (child module: sees private items).
// Property C31: an address is listed exactly when it lies in at least one configured subnet
// (IPv4, IPv6, IPv4-mapped IPv6, every mask length); subnet strings are accepted exactly when the
// address parses and the mask fits the canonicalised family.
#![allow(unused_imports)]
use super::*;

// ---------------------------------------------------------------- naive specification

// prefix (p, l) contains x  <=>  the top l bits agree (written without the function under test)
fn spec_contains(p: u128, l: u8, x: u128) -> bool {
    if l == 0 {
        true
    } else {
        (p >> (128 - l as u32)) == (x >> (128 - l as u32))
    }
}

// ---------------------------------------------------------------- leaves (complete)

// top_nibble: the 4 most significant bits, for every u128.
#[kani::proof]
fn c31_p_top_nibble() {
    let v: u128 = kani::any();
    let n = top_nibble(v);
    assert!(n < 16);
    assert!((n as u128) == v >> 124);
    assert!(top_nibble(v << 4) as u128 == (v >> 120) & 0xF);
    kani::cover!(n == 15, "reachable");
}

// apply_mask: keeps exactly the top `len` bits and clears the rest, for every u128 and len <= 128;
// never panics there.  (The doc comment in the source says "top 128 - len bits"; the statement and
// all callers need "top len bits", which is what is checked.)
#[kani::proof]
fn c31_p_apply_mask() {
    let v: u128 = kani::any();
    let len: u8 = kani::any();
    kani::assume(len <= 128);
    let m = apply_mask(v, len);
    // bit i (from the top, 0-based) is kept iff i < len
    let i: u32 = kani::any();
    kani::assume(i < 128);
    let bit = |x: u128| (x >> (127 - i)) & 1;
    if i < len as u32 {
        assert!(bit(m) == bit(v));
    } else {
        assert!(bit(m) == 0);
    }
    // idempotent, and masked equality is the containment spec
    assert!(apply_mask(m, len) == m);
    let x: u128 = kani::any();
    assert!((apply_mask(x, len) == m) == spec_contains(v, len, x));
    kani::cover!(len == 0 && v != 0, "len 0 reachable");
    kani::cover!(len == 128, "len 128 reachable");
}

// ---------------------------------------------------------------- IpFilter::is_in dispatch (complete)

fn leaf(inset: u16) -> BitTree {
    BitTree { nodes: vec![TreeNode { child_offset: 1, inset, outset: !inset }] }
}

// is_in: canonicalises the address, then asks the v4 tree with the address in the top 32 bits, or
// the v6 tree with the full 128 bits.  Checked for every address against one-node trees whose
// answer is a function of the top nibble only (so the harness observes WHICH tree was asked WHAT).
#[kani::proof]
#[kani::unwind(18)]
fn c31_p_is_in_dispatch() {
    let in4: u16 = kani::any();
    let in6: u16 = kani::any();
    let f = IpFilter { ipv4_filter: leaf(in4), ipv6_filter: leaf(in6) };
    let bytes: [u8; 16] = kani::any();
    if kani::any() {
        let a = Ipv4Addr::new(bytes[0], bytes[1], bytes[2], bytes[3]);
        let want = in4 & (1 << (bytes[0] >> 4)) != 0;
        assert!(f.is_in(IpAddr::V4(a)) == want);
        // the same host written as an IPv4-mapped IPv6 address is treated identically
        assert!(f.is_in(IpAddr::V6(a.to_ipv6_mapped())) == want);
        assert!(f.is_in4(a) == f.ipv4_filter.lookup((u32::from_be_bytes(a.octets()) as u128) << 96));
    } else {
        let a = Ipv6Addr::from(bytes);
        let mapped = bytes[..10] == [0u8; 10] && bytes[10] == 0xff && bytes[11] == 0xff;
        let got = f.is_in(IpAddr::V6(a));
        if mapped {
            assert!(got == (in4 & (1 << (bytes[12] >> 4)) != 0));
        } else {
            assert!(got == (in6 & (1 << (bytes[0] >> 4)) != 0));
            assert!(got == f.ipv6_filter.lookup(u128::from_be_bytes(bytes)));
        }
        kani::cover!(mapped, "mapped address reachable");
        kani::cover!(!mapped && got, "plain v6 reachable");
    }
}

// ---------------------------------------------------------------- IpFilter::new list building (bounded: 2 subnets)

// IpFilter::new puts each subnet into the tree of its family with the v4 address in the top 32
// bits; with <= 2 subnets (symbolic family, address, mask <= 8 so the trees stay 2 levels deep)
// is_in(addr) == exists subnet of the (canonical) family of addr containing it.
#[kani::proof]
#[kani::unwind(18)]
fn c31_tb_new_and_is_in_two_subnets() {
    let mk = |v4: bool, hi: u8, mask: u8| -> IpSubnet {
        if v4 {
            IpSubnet { addr: IpAddr::V4(Ipv4Addr::new(hi, 0, 0, 0)), mask }
        } else {
            IpSubnet { addr: IpAddr::V6(Ipv6Addr::new((hi as u16) << 8, 0, 0, 0, 0, 0, 0, 0)), mask }
        }
    };
    let (f1, h1, m1): (bool, u8, u8) = (kani::any(), kani::any(), kani::any());
    let (f2, h2, m2): (bool, u8, u8) = (kani::any(), kani::any(), kani::any());
    kani::assume(m1 <= 8 && m2 <= 8);
    let subnets = [mk(f1, h1, m1), mk(f2, h2, m2)];
    let filter = IpFilter::new(&subnets);
    let (qf, qh): (bool, u8) = (kani::any(), kani::any());
    let q = mk(qf, qh, 0).addr;
    let want = (f1 == qf && spec_contains((h1 as u128) << 120, m1, (qh as u128) << 120))
        || (f2 == qf && spec_contains((h2 as u128) << 120, m2, (qh as u128) << 120));
    assert!(filter.is_in(q) == want);
    kani::cover!(want && f1 != f2, "hit with mixed families");
    kani::cover!(!want, "miss reachable");
}

// ---------------------------------------------------------------- BitTree against the naive spec (bounded)

fn tree_vs_spec<const N: usize>(maxlen: u8, topbits: u32) {
    let mut data: [(u128, u8); N] = [(0, 0); N];
    let mut orig: [(u128, u8); N] = [(0, 0); N];
    for k in 0..N {
        let p: u128 = kani::any();
        let l: u8 = kani::any();
        kani::assume(l <= maxlen);
        // only the top `topbits` bits are symbolic (lower bits are masked away by create anyway)
        kani::assume(p & (u128::MAX >> topbits) == 0);
        data[k] = (p, l);
        orig[k] = (p, l);
    }
    // exactly N entries; duplicates and nested prefixes are allowed, so shorter lists are covered as
    // lists with repeated entries (the empty list is c31_p_tree_empty_and_all)
    let n = N;
    let tree = BitTree::create(&mut data[..]);
    let x: u128 = kani::any();
    let got = tree.lookup(x);
    let mut want = false;
    for k in 0..N {
        if k < n && spec_contains(orig[k].0, orig[k].1, x) {
            want = true;
        }
    }
    assert!(got == want, "lookup == exists subnet containing the address");
    kani::cover!(got && n == N, "hit with all subnets present");
    kani::cover!(!got && n == N, "miss with all subnets present");
}

// thorough (timed out at 600 s on the loaded build machine; NOT discharged yet): <= 2 prefixes of length <= 8 (2 trie levels), every address
#[kani::proof]
#[kani::unwind(18)]
fn c31_tb_tree_2x8() {
    tree_vs_spec::<2>(8, 8);
}

// thorough: <= 3 prefixes of length <= 12 (3 trie levels)
#[kani::proof]
#[kani::unwind(18)]
fn c31_tb_tree_3x12() {
    tree_vs_spec::<3>(12, 12);
}

// lookup is memory safe and terminates on every tree produced by create (same bound as above is
// implied there); here: the empty list gives the empty set and /0 gives everything, any address.
#[kani::proof]
#[kani::unwind(18)]
fn c31_tp_tree_empty_and_all() {
    let x: u128 = kani::any();
    let mut none: [(u128, u8); 0] = [];
    assert!(!BitTree::create(&mut none).lookup(x));
    let p: u128 = kani::any();
    let mut all = [(p, 0u8)];
    assert!(BitTree::create(&mut all).lookup(x));
    kani::cover!(true, "reachable");
}

// ---------------------------------------------------------------- IpSubnet::from_str (bounded: fixed address texts)

// text "<addr>/<m>" for every decimal m in 0..=999 (so also values that do not fit u8)
fn subnet_text(addr: &str, m: u16) -> String {
    let mut s = String::from(addr);
    s.push('/');
    if m >= 100 {
        s.push((b'0' + (m / 100) as u8) as char);
    }
    if m >= 10 {
        s.push((b'0' + ((m / 10) % 10) as u8) as char);
    }
    s.push((b'0' + (m % 10) as u8) as char);
    s
}

// post<=statement: accepted exactly when the mask fits the canonicalised family; the stored address
// is the canonical one and the stored mask counts bits of that family.
// Bounded: three fixed address texts (v4, v6, v4-mapped v6) x every mask text 0..=999.
macro_rules! from_str_harness {
    ($name:ident, $text:expr, $lo:expr, $hi:expr, $sub:expr, $want:expr) => {
        #[kani::proof]
        #[kani::unwind(48)]
        fn $name() {
            let m: u16 = kani::any();
            kani::assume(m <= 999);
            let r: Result<IpSubnet, _> = subnet_text($text, m).parse();
            match &r {
                Ok(sn) => {
                    assert!(m >= $lo && m <= $hi);
                    assert!(sn.mask as u16 == m - $sub);
                    assert!(sn.addr == $want);
                }
                Err(_) => { assert!(m < $lo || m > $hi) }
            }
            kani::cover!(r.is_ok(), "accepted");
            kani::cover!(r.is_err(), "rejected");
        }
    };
}
from_str_harness!(c31_tb_from_str_v4, "10.1.2.3", 0, 32, 0, IpAddr::V4(Ipv4Addr::new(10, 1, 2, 3)));
from_str_harness!(c31_tb_from_str_v6, "2001:db8::1", 0, 128, 0, IpAddr::V6(Ipv6Addr::new(0x2001, 0xdb8, 0, 0, 0, 0, 0, 1)));
from_str_harness!(c31_tb_from_str_mapped, "::ffff:192.168.0.1", 96, 128, 96, IpAddr::V4(Ipv4Addr::new(192, 168, 0, 1)));

// ---------------------------------------------------------------- canaries

// FALSE: a /4 prefix also matches its neighbour nibble.
#[kani::proof]
#[kani::unwind(18)]
fn c31_canary_tree_overmatches() {
    let mut d = [(0x3u128 << 124, 4u8)];
    let t = BitTree::create(&mut d);
    let x: u128 = kani::any();
    kani::assume(top_nibble(x) == 2);
    assert!(t.lookup(x));
}

// FALSE: apply_mask keeps the low bits.
#[kani::proof]
fn c31_canary_apply_mask_identity() {
    let v: u128 = kani::any();
    let len: u8 = kani::any();
    kani::assume(len <= 128);
    assert!(apply_mask(v, len) == v);
}

#[cfg(all(kani, test))]
mod replay {
    use super::*;
    include!(concat!(env!("VERIF_REPLAY_DIR"), "/ntp_proto__ipfilter.rs"));
}
