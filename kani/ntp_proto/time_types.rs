// Contract harnesses for ntp-proto/src/time_types.rs (child module: sees private fields).
// Properties: C32 (time arithmetic), C10 (poll interval leaf functions).
// Every harness quantifies over the full bit domain of its inputs; none contains a loop.
use super::*;

fn any_ts() -> NtpTimestamp {
    NtpTimestamp { timestamp: kani::any() }
}
fn any_dur() -> NtpDuration {
    NtpDuration { duration: kani::any() }
}
fn clamp(v: i128) -> i64 {
    if v > i64::MAX as i128 {
        i64::MAX
    } else if v < i64::MIN as i128 {
        i64::MIN
    } else {
        v as i64
    }
}

// ---------------------------------------------------------------- C32: timestamps

/// post: (a - b) is the representative of a-b (mod 2^64) in [-2^63, 2^63): the shortest signed
/// difference across era boundaries; adding it back restores a; subtracting it from a restores b.
#[kani::proof]
fn c32_p_ts_sub_shortest_and_roundtrip() {
    let a = any_ts();
    let b = any_ts();
    let d = a - b;
    let m: i128 = 1i128 << 64;
    let diff = (a.timestamp as i128) - (b.timestamp as i128);
    // congruent mod 2^64
    assert!((diff - d.duration as i128).rem_euclid(m) == 0);
    // minimal norm among all representatives diff + k*2^64
    let n = (d.duration as i128).abs();
    assert!(n <= (diff + m).abs() && n <= (diff - m).abs() && n <= diff.abs());
    assert!(b + d == a);
    assert!(a - d == b);
    let mut c = b;
    c += d;
    assert!(c == a);
    let mut c = a;
    c -= d;
    assert!(c == b);
    kani::cover!(a.timestamp < b.timestamp && d.duration > 0, "era wrap reachable");
}

/// post: timestamp +/- duration is wrapping (mod 2^64) and never panics, inverse of each other.
#[kani::proof]
fn c32_p_ts_add_sub_duration_wrapping() {
    let a = any_ts();
    let d = any_dur();
    let m: i128 = 1i128 << 64;
    let s = a + d;
    assert!(((a.timestamp as i128 + d.duration as i128) - s.timestamp as i128).rem_euclid(m) == 0);
    let t = a - d;
    assert!(((a.timestamp as i128 - d.duration as i128) - t.timestamp as i128).rem_euclid(m) == 0);
    assert!((a + d) - d == a);
    assert!(s - a == d);
    // is_before agrees with the sign of the wrapped difference
    let b = any_ts();
    assert!(a.is_before(b) == ((a - b).duration < 0));
    kani::cover!(true, "reachable");
}

#[kani::proof]
#[kani::solver(z3)]
fn c32_p_ts_from_seconds_nanos() {
    let s: u32 = kani::any();
    let n: u32 = kani::any();
    kani::assume(n < 1_000_000_000);
    let t = NtpTimestamp::from_seconds_nanos_since_ntp_era(s, n);
    assert!((t.timestamp >> 32) as u32 == s);
    let frac = t.timestamp & 0xFFFF_FFFF;
    // fraction is floor(n * 2^32 / 1e9)
    assert!(frac == ((n as u64) << 32) / 1_000_000_000);
    assert!(NtpTimestamp::from_bits(t.to_bits()) == t);
    let bits: u8 = kani::any();
    let tr = t.truncated_second_bits(bits);
    if bits >= 32 {
        assert!(tr.timestamp == 0);
    } else {
        assert!(tr.timestamp & 0xFFFF_FFFF == 0);
        assert!((tr.timestamp >> 32) == ((s as u64) >> bits) << bits);
    }
    kani::cover!(true, "reachable");
}

// ---------------------------------------------------------------- C32: durations saturate

#[kani::proof]
fn c32_p_dur_add_sub_saturate() {
    let a = any_dur();
    let b = any_dur();
    assert!((a + b).duration == clamp(a.duration as i128 + b.duration as i128));
    assert!((a - b).duration == clamp(a.duration as i128 - b.duration as i128));
    let mut c = a;
    c += b;
    assert!(c == a + b);
    let mut c = a;
    c -= b;
    assert!(c == a - b);
    kani::cover!((a + b).duration == i64::MAX && a.duration < i64::MAX && b.duration < i64::MAX, "saturation reachable");
}

/// post (from the property statement): negation and absolute value saturate and never panic.
#[kani::proof]
fn c32_p_dur_neg_abs_saturate() {
    let a = any_dur();
    assert!((-a).duration == clamp(-(a.duration as i128)));
    assert!(a.abs().duration == clamp((a.duration as i128).abs()));
    assert!(a.abs().duration >= 0);
    let b = any_dur();
    let ad = a.abs_diff(b);
    assert!(ad.duration == clamp((clamp(a.duration as i128 - b.duration as i128) as i128).abs()));
    assert!(ad.duration >= 0);
    kani::cover!(a.duration == i64::MIN, "extreme reachable");
}

macro_rules! mul_harness {
    ($name:ident, $t:ty) => {
        #[kani::proof]
        #[kani::solver(z3)]
        fn $name() {
            let a = any_dur();
            let s: $t = kani::any();
            // oracle: exact product when it fits, else the bound on the side of the true sign
            let want = match a.duration.checked_mul(s as i64) {
                Some(v) => v,
                None => if (a.duration < 0) != ((s as i64) < 0) { i64::MIN } else { i64::MAX },
            };
            assert!((a * s).duration == want);
            assert!((s * a).duration == want);
            let mut c = a;
            c *= s;
            assert!(c.duration == want);
            kani::cover!(want == i64::MIN && a.duration != i64::MIN, "negative saturation reachable");
        }
    };
}
mul_harness!(c32_p_dur_mul_i8, i8);
mul_harness!(c32_p_dur_mul_i16, i16);
mul_harness!(c32_p_dur_mul_i32, i32);
mul_harness!(c32_p_dur_mul_i64, i64);
mul_harness!(c32_p_dur_mul_isize, isize);
mul_harness!(c32_p_dur_mul_u8, u8);
mul_harness!(c32_p_dur_mul_u16, u16);
mul_harness!(c32_p_dur_mul_u32, u32);

macro_rules! div_harness {
    ($name:ident, $t:ty) => {
        /// requires s != 0; post: mathematical truncating quotient, saturated; never panics.
        #[kani::proof]
        #[kani::solver(z3)]
        fn $name() {
            let a = any_dur();
            let s: $t = kani::any();
            kani::assume(s != 0);
            // oracle: truncating quotient, saturated in the single overflowing case MIN / -1
            let want = if a.duration == i64::MIN && (s as i64) == -1 { i64::MAX } else { a.duration.wrapping_div(s as i64) };
            assert!((a / s).duration == want);
            let mut c = a;
            c /= s;
            assert!(c.duration == want);
            kani::cover!(true, "reachable");
        }
    };
}
div_harness!(c32_p_dur_div_i8, i8);
div_harness!(c32_p_dur_div_i16, i16);
div_harness!(c32_p_dur_div_i32, i32);
div_harness!(c32_p_dur_div_i64, i64);
div_harness!(c32_p_dur_div_isize, isize);
div_harness!(c32_p_dur_div_u8, u8);
div_harness!(c32_p_dur_div_u16, u16);
div_harness!(c32_p_dur_div_u32, u32);

#[kani::proof]
#[kani::solver(z3)]
fn c32_p_dur_freq_tolerance_mul() {
    let a = any_dur();
    let ppm: u32 = kani::any();
    let r = a * FrequencyTolerance::ppm(ppm);
    // composition of the two operator contracts proved above (saturating mul, then truncating div):
    // never panics, never changes sign
    assert!(r.duration == 0 || (r.duration < 0) == (a.duration < 0));
    kani::cover!(true, "reachable");
}

// ---------------------------------------------------------------- C32: seconds conversions (bit-precise f64)

#[kani::proof]
fn c32_p_to_seconds_finite_sign() {
    let a = any_dur();
    let s = a.to_seconds();
    assert!(s.is_finite());
    assert!((a.duration > 0) == (s > 0.0));
    assert!((a.duration < 0) == (s < 0.0));
    assert!((a.duration == 0) == (s == 0.0));
    // monotone scale: |s| <= 2^31 * (1 + 2^-31)
    assert!(s.abs() <= 2147483648.5);
    kani::cover!(true, "reachable");
}

/// post: for every finite f64: no panic, sign preserved (never the opposite sign), saturating.
#[kani::proof]
fn c32_p_from_seconds_sign_saturate() {
    let s: f64 = kani::any();
    kani::assume(s.is_finite());
    let d = NtpDuration::from_seconds(s);
    if s > 0.0 {
        assert!(d.duration >= 0);
    }
    if s < 0.0 {
        assert!(d.duration <= 0);
    }
    if s == 0.0 {
        assert!(d.duration == 0);
    }
    if s >= 2147483648.0 {
        assert!(d.duration == i64::MAX);
    }
    if s < -2147483648.0 {
        assert!(d.duration == i64::MIN);
    }
    // integer part is exact inside the range
    if s >= -2147483648.0 && s < 2147483648.0 {
        assert!((d.duration >> 32) == s.floor() as i64);
    }
    kani::cover!(s > 1.0 && s < 2.0, "fractional reachable");
    kani::cover!(s < -1e300, "huge negative reachable");
}

/// post: from_seconds is monotone on the integer lattice and within one ppb + 1 unit after a round trip.
#[kani::proof]
fn c32_p_seconds_roundtrip_ppb() {
    let a = any_dur();
    let back = NtpDuration::from_seconds(a.to_seconds());
    let diff = (back.duration as i128 - a.duration as i128).abs();
    // "changes it by less than one part per billion plus one unit": diff < |a| * 1e-9 + 1
    assert!(diff * 1_000_000_000 < (a.duration as i128).abs() + 1_000_000_000);
    kani::cover!(diff > 0, "inexact case reachable");
}

// ---------------------------------------------------------------- C32: wire formats

#[kani::proof]
fn c32_p_bits_short_roundtrip() {
    let x: [u8; 4] = kani::any();
    let d = NtpDuration::from_bits_short(x);
    assert!(d.duration >= 0 && d.duration <= 0x0000_FFFF_FFFF_0000);
    assert!(d.to_bits_short() == x);
    let a = any_dur();
    kani::assume(a.duration >= 0 && a.duration <= 0x0000_FFFF_FFFF_FFFF);
    let r = NtpDuration::from_bits_short(a.to_bits_short());
    // within one unit (2^16) of the short format, never larger than the original
    assert!(r.duration <= a.duration && a.duration - r.duration < (1 << 16));
    kani::cover!(a.duration - r.duration == 0xFFFF, "max truncation reachable");
}

#[kani::proof]
fn c32_p_bits_time32_roundtrip() {
    let x: [u8; 4] = kani::any();
    let d = NtpDuration::from_bits_time32(x);
    assert!(d.duration >= 0 && d.duration <= 0xF_FFFF_FFF0);
    assert!(d.to_bits_time32() == x);
    let a = any_dur();
    kani::assume(a.duration >= 0 && a.duration <= 0xF_FFFF_FFFF);
    let r = NtpDuration::from_bits_time32(a.to_bits_time32());
    assert!(r.duration <= a.duration && a.duration - r.duration < (1 << 4));
    // too large non-negative values saturate instead of wrapping or panicking
    let b = any_dur();
    kani::assume(b.duration > 0xF_FFFF_FFFF);
    assert!(b.to_bits_time32() == [0xFF; 4]);
    kani::cover!(true, "reachable");
}

#[kani::proof]
fn c32_p_bits_roundtrip_misc() {
    let x: [u8; 8] = kani::any();
    assert!(NtpDuration::from_bits(x).duration == i64::from_be_bytes(x));
    let a = any_dur();
    let (s, n) = a.as_seconds_nanos();
    assert!(n < 1_000_000_000);
    assert!(s as i64 == a.duration >> 32);
    let frac = (a.duration & 0xFFFF_FFFF) as u64;
    assert!((n as u64) << 32 <= frac * 1_000_000_000 && ((n as u64 + 1) << 32) > frac * 1_000_000_000);
    kani::cover!(a.duration < 0, "negative reachable");
}

#[kani::proof]
fn c32_p_exponent_log2() {
    let e: i8 = kani::any();
    let d = NtpDuration::from_exponent(e);
    assert!(d.duration >= 0);
    if e > 30 {
        assert!(d.duration == i64::MAX);
    } else if e >= -32 {
        assert!(d.duration == 1i64 << (e as i64 + 32));
        assert!(d.log2() == e);
    } else {
        assert!(d.duration == 0);
    }
    let a = any_dur();
    kani::assume(a.duration > 0);
    let l = a.log2();
    assert!(l >= -32 && l <= 30);
    assert!((1i64 << (l as i64 + 32)) <= a.duration);
    assert!(l == 30 || a.duration < (1i64 << (l as i64 + 33)));
    assert!(NtpDuration::ZERO.log2() == i8::MIN);
    kani::cover!(true, "reachable");
}

#[kani::proof]
#[kani::solver(cvc5)]
fn c32_p_from_system_duration() {
    let sd: Duration = kani::any();
    let secs = sd.as_secs();
    let nanos = sd.subsec_nanos();
    kani::assume(nanos < 1_000_000_000);
    let d = NtpDuration::from_system_duration(sd);
    if secs < (1 << 31) {
        assert!(d.duration >= 0);
        assert!((d.duration >> 32) as u64 == secs);
        let frac = (d.duration & 0xFFFF_FFFF) as u64;
        assert!(frac == ((nanos as u64) << 32) / 1_000_000_000);
    }
    kani::cover!(secs > (1 << 40), "large reachable");
}

/// canary: a deliberately false claim (addition wraps) -- must be refuted, else the run is vacuous.
#[kani::proof]
fn c32_canary_add_wraps() {
    let a = any_dur();
    let b = any_dur();
    assert!((a + b).duration == a.duration.wrapping_add(b.duration));
}

// ---------------------------------------------------------------- C10: poll interval leaf functions

fn any_limits() -> PollIntervalLimits {
    let l = PollIntervalLimits { min: PollInterval(kani::any()), max: PollInterval(kani::any()) };
    l
}

/// post: inc/dec never panic for any i8 and any limits; results respect the limit they clamp to;
/// inc is "+1 capped at max", dec is "-1 floored at min".
#[kani::proof]
fn c10_p_poll_inc_dec() {
    let p = PollInterval(kani::any());
    let l = any_limits();
    let i = p.inc(l);
    assert!(i.0 as i16 == core::cmp::min(p.0 as i16 + 1, l.max.0 as i16));
    assert!(i <= l.max);
    let d = p.dec(l);
    assert!(d.0 as i16 == core::cmp::max(p.0 as i16 - 1, l.min.0 as i16));
    assert!(d >= l.min);
    // within [min,max] stays within [min,max]
    if l.min <= l.max && l.min <= p && p <= l.max {
        assert!(l.min <= i && i <= l.max && l.min <= d && d <= l.max);
    }
    let f = p.force_inc();
    assert!(f.0 as i16 == core::cmp::min(p.0 as i16 + 1, 127));
    kani::cover!(p.0 == i8::MAX, "extreme reachable");
}

#[kani::proof]
fn c10_p_poll_as_duration() {
    let p = PollInterval(kani::any());
    let d = p.as_duration();
    let e = core::cmp::max(core::cmp::min(p.0 as i64 + 32, 62), 0);
    assert!(d.duration == 1i64 << e);
    let s = p.as_system_duration();
    let e2 = core::cmp::max(core::cmp::min(p.0 as i64, 31), 0);
    assert!(s == Duration::from_secs(1u64 << e2));
    assert!(PollInterval::from_byte(p.as_byte()) == p);
    assert!(p.as_log() == p.0);
    // monotone
    let q = PollInterval(kani::any());
    if p <= q {
        assert!(p.as_duration() <= q.as_duration());
        assert!(p.as_system_duration() <= q.as_system_duration());
    }
    kani::cover!(true, "reachable");
}

#[kani::proof]
fn c10_canary_inc_unbounded() {
    let p = PollInterval(kani::any());
    let l = any_limits();
    assert!(p.inc(l).0 == p.0.wrapping_add(1));
}

// ---------------------------------------------------------------- C40: the GPSd measurement expression

/// the sock source computes `time - NtpDuration::from_seconds(sample.offset)`: for every finite
/// offset (what the validator lets through) and every clock reading this never panics.
#[kani::proof]
fn c40_p_measurement_expression_no_panic() {
    let offset: f64 = kani::any();
    kani::assume(offset.is_finite());
    let time = any_ts();
    let sender = time - NtpDuration::from_seconds(offset);
    // remote - local == offset as converted (wrapping-exact)
    assert!(sender - time == -NtpDuration::from_seconds(offset) || NtpDuration::from_seconds(offset).duration == i64::MIN);
    kani::cover!(offset < -1.0, "negative offset reachable");
}

#[kani::proof]
fn c40_canary_nan_offset_is_fine() {
    let offset: f64 = kani::any();
    let _ = NtpDuration::from_seconds(offset);
}

#[cfg(all(kani, test))]
mod replay {
    use super::*;
    include!(concat!(env!("VERIF_REPLAY_DIR"), "/ntp_proto__time_types.rs"));
}
