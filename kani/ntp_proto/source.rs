// Contract harnesses for ntp-proto/src/source.rs (child module: sees private items).
// Properties: C11 (reachability / reset), C12 (version negotiation), C09/C08/C07 (handle_incoming),
// C33 (accept_synchronization), and the source.rs parts of C10 (c10_*) and C05 (c05_*).
// Compiled in the transformed copy (HashMap -> VecMap, see /verif/transforms.json) with the C clock
// model (kani/clock.c) because NtpSource holds a HashMap and reads tokio::time::Instant::now().
#![cfg(feature = "verif-xrepo")] // compiled only in the transformed copy (needs the declared transforms)
#![allow(unused_imports, dead_code, clippy::all)]
use super::*;
use crate::packet::v5::{NtpClientCookie, NtpEra, NtpFlags, NtpHeaderV5, NtpMode, NtpServerCookie, NtpTimescale};
use crate::packet::{CipherProvider, NtpHeaderV3V4, NtpLeapIndicator};
use crate::time_types::{NtpDuration, PollIntervalLimits};
use crate::verif_common::{harness, EfLists, FromParts, Ghost, Parts, V3V4Parts};
use std::sync::atomic::{AtomicBool, AtomicI64, AtomicU64, AtomicU8, Ordering::Relaxed};

// ---------------------------------------------------------------- recording controller (ghost state)
// Every recording static is a `Ghost<_>` (common.rs): Kani 0.68 lets a plain `static X: AtomicU64 =
// AtomicU64::new(0)` share its storage with every constant made of the same bytes (e.g. the capacity
// of `Vec::new()`), so a store to X corrupted later `vec![]`s -- the tag makes the bytes unique.
static MEAS_CALLS: Ghost<AtomicU8> = Ghost::new(0x6768_6f73_7453_0000 + 1, AtomicU8::new(0));
static USABLE_CALLS: Ghost<AtomicU8> = Ghost::new(0x6768_6f73_7453_0000 + 2, AtomicU8::new(0));
static USABLE_LAST: Ghost<AtomicBool> = Ghost::new(0x6768_6f73_7453_0000 + 3, AtomicBool::new(false));
static STOP_AT_POLL_QUERY: Ghost<AtomicBool> = Ghost::new(0x6768_6f73_7453_0000 + 4, AtomicBool::new(false));
// first / second measurement handed to the controller (timestamps as raw u64)
static M0_SENDER_TS: Ghost<AtomicU64> = Ghost::new(0x6768_6f73_7453_0000 + 5, AtomicU64::new(0));
static M0_RECEIVER_TS: Ghost<AtomicU64> = Ghost::new(0x6768_6f73_7453_0000 + 6, AtomicU64::new(0));
static M1_SENDER_TS: Ghost<AtomicU64> = Ghost::new(0x6768_6f73_7453_0000 + 7, AtomicU64::new(0));
static M1_RECEIVER_TS: Ghost<AtomicU64> = Ghost::new(0x6768_6f73_7453_0000 + 8, AtomicU64::new(0));

fn ts_raw(t: NtpTimestamp) -> u64 {
    u64::from_be_bytes(t.to_bits())
}
fn ts(v: u64) -> NtpTimestamp {
    NtpTimestamp::from_bits(v.to_be_bytes())
}
fn any_ts() -> NtpTimestamp {
    ts(kani::any())
}
fn any_poll() -> PollInterval {
    PollInterval::from_byte(kani::any())
}
fn plog(p: PollInterval) -> i8 {
    p.as_log()
}

struct RecCtl {
    desired: PollInterval,
}
impl SourceController for RecCtl {
    fn handle_measurement(&mut self, m: Measurement) {
        let n = MEAS_CALLS.load(Relaxed);
        if n == 0 {
            M0_SENDER_TS.store(ts_raw(m.sender_ts), Relaxed);
            M0_RECEIVER_TS.store(ts_raw(m.receiver_ts), Relaxed);
        } else if n == 1 {
            M1_SENDER_TS.store(ts_raw(m.sender_ts), Relaxed);
            M1_RECEIVER_TS.store(ts_raw(m.receiver_ts), Relaxed);
        }
        MEAS_CALLS.store(n.saturating_add(1), Relaxed);
    }
    fn set_usable(&mut self, usable: bool) {
        USABLE_CALLS.store(USABLE_CALLS.load(Relaxed).saturating_add(1), Relaxed);
        USABLE_LAST.store(usable, Relaxed);
    }
    fn desired_poll_interval(&self) -> PollInterval {
        if STOP_AT_POLL_QUERY.load(Relaxed) {
            // harnesses about decisions taken *before* the poll interval is queried set this flag:
            // getting here is then a failure, and the path ends (keeps the symbolic execution small)
            assert!(false, "handle_timer continued past the decision under contract");
            kani::assume(false);
        }
        self.desired
    }
    fn observe(&self) -> ObservableSourceTimedata {
        ObservableSourceTimedata::default()
    }
}

// ---------------------------------------------------------------- server ids
/// a fixed, valid server id (for harnesses in which the server id plays no role)
fn fixed_server_id() -> ServerId {
    ServerId::from_parts([1, 2, 3, 4, 5, 6, 7, 8, 9, 10])
}
/// any server id satisfying the type invariant established by ServerId::new:
/// ten 12-bit values, sorted, pairwise distinct
fn any_server_id() -> (ServerId, [u16; 10]) {
    let v: [u16; 10] = kani::any();
    kani::assume(v[9] < 4096);
    kani::assume(v[0] < v[1] && v[1] < v[2] && v[2] < v[3] && v[3] < v[4] && v[4] < v[5]);
    kani::assume(v[5] < v[6] && v[6] < v[7] && v[7] < v[8] && v[8] < v[9]);
    (ServerId::from_parts(v), v)
}

// ---------------------------------------------------------------- arbitrary source states
fn any_version() -> ProtocolVersion {
    match kani::any::<u8>() % 4 {
        0 => ProtocolVersion::V4,
        1 => ProtocolVersion::V4UpgradingToV5 { tries_left: kani::any() },
        2 => ProtocolVersion::UpgradedToV5,
        _ => ProtocolVersion::V5,
    }
}
fn any_addr_v4() -> SocketAddr {
    let o: [u8; 4] = kani::any();
    SocketAddr::new(IpAddr::V4(std::net::Ipv4Addr::new(o[0], o[1], o[2], o[3])), kani::any())
}
fn any_ident() -> RequestIdentifier {
    let uid: Option<[u8; 32]> = if kani::any() { Some(kani::any()) } else { None };
    RequestIdentifier::from_parts((any_ts(), uid))
}

/// Every field the properties talk about is symbolic; `nts`, the pending request and the shared
/// system info are supplied by the caller. Fixed: empty send buffer, freshly created remote Bloom
/// filter, empty snapshot map (none of them is read by the decisions under contract).
fn any_source(
    nts: Option<Box<SourceNtsData>>,
    pending: Option<(RequestIdentifier, tokio::time::Instant)>,
    info: NtpSourceInfo,
) -> NtpSource<RecCtl> {
    let source_addr = any_addr_v4();
    NtpSource {
        nts,
        last_poll_interval: any_poll(),
        remote_min_poll_interval: any_poll(),
        current_request_identifier: pending,
        have_deny_rstr_response: kani::any(),
        stratum: kani::any(),
        reference_id: ReferenceId::from_int(kani::any()),
        source_addr,
        source_id: ReferenceId::from_int(kani::any()),
        reach: Reach(kani::any()),
        tries: kani::any(),
        controller: RecCtl { desired: any_poll() },
        source_config: SourceConfig {
            poll_interval_limits: PollIntervalLimits { min: any_poll(), max: any_poll() },
            initial_poll_interval: any_poll(),
        },
        buffer: [0; 1024],
        protocol_version: any_version(),
        bloom_filter: RemoteBloomFilter::new(16).unwrap(),
        id: ClockId(kani::any()),
        source_info: Arc::new(RwLock::new(info)),
        source_snapshots: Arc::new(Mutex::new(HashMap::new())),
    }
}
fn plain_info() -> NtpSourceInfo {
    NtpSourceInfo { ip_list: Arc::from(Vec::<IpAddr>::new()), server_id: fixed_server_id(), local_stratum: kani::any() }
}

/// the scalar state of a source, for frame conditions ("nothing else changed"). All-integer on
/// purpose: derived equality on byte arrays / socket addresses goes through memcmp, which CBMC
/// has to unroll at every comparison.
#[derive(Clone, Copy, PartialEq, Eq)]
struct Snap {
    last_poll: PollInterval,
    remote_min: PollInterval,
    pending: bool,
    pending_origin: u64,
    pending_has_uid: bool,
    pending_uid: (u64, u64, u64, u64),
    pending_deadline: Option<tokio::time::Instant>,
    have_deny: bool,
    stratum: u8,
    reference_id: ReferenceId,
    addr_ip: u32,
    addr_port: u16,
    source_id: ReferenceId,
    reach: u8,
    tries: usize,
    desired: PollInterval,
    limits: PollIntervalLimits,
    version: ProtocolVersion,
    id: ClockId,
    cookies: Option<usize>,
    bloom_full: bool,
    snapshots: usize,
}
fn words(u: &[u8; 32]) -> (u64, u64, u64, u64) {
    (
        u64::from_be_bytes([u[0], u[1], u[2], u[3], u[4], u[5], u[6], u[7]]),
        u64::from_be_bytes([u[8], u[9], u[10], u[11], u[12], u[13], u[14], u[15]]),
        u64::from_be_bytes([u[16], u[17], u[18], u[19], u[20], u[21], u[22], u[23]]),
        u64::from_be_bytes([u[24], u[25], u[26], u[27], u[28], u[29], u[30], u[31]]),
    )
}
fn snap(s: &NtpSource<RecCtl>) -> Snap {
    let (pending, pending_origin, pending_has_uid, pending_uid, pending_deadline) = match &s.current_request_identifier {
        None => (false, 0, false, (0, 0, 0, 0), None),
        Some((id, dl)) => {
            let (o, u): (NtpTimestamp, Option<[u8; 32]>) = id.parts();
            match u {
                None => (true, ts_raw(o), false, (0, 0, 0, 0), Some(*dl)),
                Some(u) => (true, ts_raw(o), true, words(&u), Some(*dl)),
            }
        }
    };
    let (addr_ip, addr_port) = match s.source_addr {
        SocketAddr::V4(a) => (u32::from_be_bytes(a.ip().octets()), a.port()),
        SocketAddr::V6(a) => (0, a.port()),
    };
    Snap {
        last_poll: s.last_poll_interval,
        remote_min: s.remote_min_poll_interval,
        pending,
        pending_origin,
        pending_has_uid,
        pending_uid,
        pending_deadline,
        have_deny: s.have_deny_rstr_response,
        stratum: s.stratum,
        reference_id: s.reference_id,
        addr_ip,
        addr_port,
        source_id: s.source_id,
        reach: s.reach.0,
        tries: s.tries,
        desired: s.controller.desired,
        limits: s.source_config.poll_interval_limits,
        version: s.protocol_version,
        id: s.id,
        cookies: s.nts.as_ref().map(|n| n.cookies.len()),
        bloom_full: s.bloom_filter.full_filter().is_some(),
        snapshots: s.source_snapshots.lock().unwrap().len(),
    }
}
fn no_controller_calls() -> bool {
    MEAS_CALLS.load(Relaxed) == 0 && USABLE_CALLS.load(Relaxed) == 0
}

// ================================================================ C11: reach register

/// Reach::{never, is_reachable, received_packet, poll, unanswered_polls}: all 256 register values.
#[kani::proof]
fn c11_p_reach_ops() {
    assert!(Reach::never().0 == 0 && !Reach::never().is_reachable());
    assert!(Reach::never().unanswered_polls() == 8);
    let r0: u8 = kani::any();
    let r = Reach(r0);
    // reachable <=> one of the last eight polls was answered
    assert!(r.is_reachable() == (r0 != 0));
    // number of polls since the last answer = index of the lowest set bit, 8 if none
    let mut idx: u32 = 8;
    let mut i: u32 = 8;
    while i > 0 {
        i -= 1;
        if (r0 >> i) & 1 == 1 {
            idx = i;
        }
    }
    assert!(r.unanswered_polls() == idx);
    assert!((r.unanswered_polls() == 8) == !r.is_reachable());
    let mut a = r;
    a.received_packet();
    assert!(a.0 == r0 | 1 && a.is_reachable() && a.unanswered_polls() == 0);
    let mut p = r;
    p.poll();
    // shift: the answer bit of the oldest poll falls out, the new poll is unanswered
    assert!(p.0 as u16 == ((r0 as u16) << 1) & 0xFF);
    assert!(p.unanswered_polls() == core::cmp::min(r.unanswered_polls() + 1, 8));
    kani::cover!(r0 == 0x80 && !p.is_reachable(), "last answer ages out");
}

/// lemma: from ANY register value, after an answer and then k unanswered polls (k <= 9):
/// unanswered_polls == min(k, 8) and reachable <=> k < 8. (k > 9 adds nothing: the register is 0
/// from k = 8 on and poll() maps 0 to 0 -- checked in the same harness.)
#[kani::proof]
#[kani::unwind(11)]
fn c11_p_reach_lemma_k_polls() {
    let mut r = Reach(kani::any());
    r.received_packet();
    let k: u32 = kani::any();
    kani::assume(k <= 9);
    let mut i = 0;
    while i < k {
        r.poll();
        i += 1;
    }
    assert!(r.unanswered_polls() == core::cmp::min(k, 8));
    assert!(r.is_reachable() == (k < 8));
    if k >= 8 {
        assert!(r.0 == 0);
        r.poll();
        assert!(r.0 == 0);
    }
    kani::cover!(k == 9, "k = 9 reachable");
    kani::cover!(k == 7 && r.is_reachable(), "k = 7 still reachable");
}

/// a source that answers every poll is never unreachable at its timer: invariant "bit 0 set"
/// (established by received_packet) gives reachable after the next poll as well.
#[kani::proof]
fn c11_p_reach_answering_stays_reachable() {
    let mut r = Reach(kani::any());
    r.received_packet();
    assert!(r.is_reachable());
    r.poll();
    assert!(r.is_reachable() && r.unanswered_polls() == 1);
    r.received_packet();
    assert!(r.unanswered_polls() == 0);
    kani::cover!(true, "reachable");
}

#[kani::proof]
fn c11_canary_reach_nine_polls() {
    // false: claims nine bits of memory
    let mut r = Reach(kani::any());
    r.received_packet();
    let mut i = 0;
    while i < 8 {
        r.poll();
        i += 1;
    }
    assert!(r.is_reachable());
}

// ---------------------------------------------------------------- Duration::mul_f64 as a recorded call
// The jitter expression `interval.as_system_duration().mul_f64(gen_range(1.01..=1.05))` is split:
// the harnesses of handle_timer check WHAT is multiplied (recorded here, result arbitrary), and
// c10_p_mul_f64_jitter_range checks the real Duration::mul_f64 on exactly those arguments.
static MULF_CALLS: Ghost<AtomicU8> = Ghost::new(0x6768_6f73_7453_0000 + 9, AtomicU8::new(0));
static MULF_SELF_NS: Ghost<AtomicU64> = Ghost::new(0x6768_6f73_7453_0000 + 10, AtomicU64::new(0));
static MULF_RHS_BITS: Ghost<AtomicU64> = Ghost::new(0x6768_6f73_7453_0000 + 11, AtomicU64::new(0));
static MULF_RET_NS: Ghost<AtomicU64> = Ghost::new(0x6768_6f73_7453_0000 + 12, AtomicU64::new(0));
fn mul_f64_rec(d: Duration, rhs: f64) -> Duration {
    MULF_CALLS.store(MULF_CALLS.load(Relaxed).saturating_add(1), Relaxed);
    MULF_SELF_NS.store(d.as_nanos() as u64, Relaxed);
    MULF_RHS_BITS.store(rhs.to_bits(), Relaxed);
    let r: u64 = kani::any();
    MULF_RET_NS.store(r, Relaxed);
    Duration::from_nanos(r)
}

// ---------------------------------------------------------------- NtpPacket::serialize as a recorded call
// Quick-tier harnesses of handle_timer check the packet object handed to the encoder (version,
// poll, upgrade marker, request id); the encoder itself (bytes == header fields) is C24's subject
// and the thorough-tier twins (c12_tp_timer_wire_*) run the real encoder and look at the bytes.
static SER_CALLS: Ghost<AtomicU8> = Ghost::new(0x6768_6f73_7453_0000 + 13, AtomicU8::new(0));
static SER_VERSION: Ghost<AtomicU8> = Ghost::new(0x6768_6f73_7453_0000 + 14, AtomicU8::new(0));
static SER_POLL: Ghost<AtomicU8> = Ghost::new(0x6768_6f73_7453_0000 + 15, AtomicU8::new(0));
static SER_MODE_CLIENT: Ghost<AtomicBool> = Ghost::new(0x6768_6f73_7453_0000 + 16, AtomicBool::new(false));
static SER_UPGRADE: Ghost<AtomicBool> = Ghost::new(0x6768_6f73_7453_0000 + 17, AtomicBool::new(false));
static SER_ECHO: Ghost<AtomicU64> = Ghost::new(0x6768_6f73_7453_0000 + 18, AtomicU64::new(0));
static SER_N_AUTH: Ghost<AtomicU8> = Ghost::new(0x6768_6f73_7453_0000 + 19, AtomicU8::new(0));
static SER_N_UNTR: Ghost<AtomicU8> = Ghost::new(0x6768_6f73_7453_0000 + 20, AtomicU8::new(0));
static SER_HAS_CIPHER: Ghost<AtomicBool> = Ghost::new(0x6768_6f73_7453_0000 + 21, AtomicBool::new(false));
fn serialize_rec<'a>(
    pkt: &NtpPacket<'a>,
    w: &mut Cursor<&mut [u8]>,
    cipher: &(impl CipherProvider + ?Sized),
    _desired_size: Option<usize>,
) -> std::io::Result<()>
where
    'a: 'a,
{
    SER_CALLS.store(SER_CALLS.load(Relaxed).saturating_add(1), Relaxed);
    SER_VERSION.store(pkt.version().as_u8(), Relaxed);
    SER_POLL.store(pkt.poll().as_byte(), Relaxed);
    SER_MODE_CLIENT.store(pkt.mode() == NtpAssociationMode::Client, Relaxed);
    SER_UPGRADE.store(pkt.is_upgrade(), Relaxed);
    let echo = match pkt.header() {
        NtpHeader::V5(h) => h.client_cookie.0,
        _ => pkt.transmit_timestamp().to_bits(),
    };
    SER_ECHO.store(u64::from_be_bytes(echo), Relaxed);
    let (na, _ne, nu): (usize, usize, usize) = pkt.parts();
    SER_N_AUTH.store(na as u8, Relaxed);
    SER_N_UNTR.store(nu as u8, Relaxed);
    SER_HAS_CIPHER.store(cipher.get(&[]).is_some(), Relaxed);
    w.set_position(48);
    Ok(())
}

fn single_action(mut it: NtpSourceActionIterator) -> Option<NtpSourceAction> {
    let a = it.next();
    if it.next().is_some() {
        return None;
    }
    a
}

harness! {
    #[kani::unwind(10)]
    fn c11_p_timer_unreachable_resets() {
        let pending = if kani::any() { Some((any_ident(), tokio::time::Instant::now())) } else { None };
        let mut s = any_source(None, pending, plain_info());
        kani::assume(!s.reach.is_reachable() && s.tries >= 3);
        let before = snap(&s);
        STOP_AT_POLL_QUERY.store(true, Relaxed);
        let acts = s.handle_timer();
        let a = single_action(acts);
        // exactly one action: Demobilize iff a deny was seen, else Reset; nothing is sent
        match a {
            Some(NtpSourceAction::Demobilize) => assert!(before.have_deny),
            Some(NtpSourceAction::Reset) => assert!(!before.have_deny),
            _ => assert!(false, "unreachable source must produce exactly [Reset] or [Demobilize]"),
        }
        assert!(snap(&s) == before);
        assert!(no_controller_calls());
        kani::cover!(before.have_deny, "demobilize reachable");
        kani::cover!(!before.have_deny && before.tries == 3, "reset at third try reachable");
    }
}


// ================================================================ handle_timer: the send path

/// result of a handle_timer call that is expected to poll: the datagram and the timer
fn send_and_timer(mut it: NtpSourceActionIterator) -> Option<(Vec<u8>, Duration)> {
    let a = it.next();
    let b = it.next();
    if it.next().is_some() {
        return None;
    }
    match (a, b) {
        (Some(NtpSourceAction::Send(v)), Some(NtpSourceAction::SetTimer(d))) => Some((v, d)),
        _ => None,
    }
}

/// contract of handle_timer for a plain (non-NTS) source that is reachable or still starting up.
/// Written from C12 (version sent per state, fallback), C10 (poll byte, timer), C11 (a poll is
/// sent, reach/tries bookkeeping), C08 (pending request = what was sent, deadline now + 5 s).
fn timer_plain_send_contract(version: ProtocolVersion, wire: bool) {
    let pending = if kani::any() { Some((any_ident(), tokio::time::Instant::now())) } else { None };
    let mut s = any_source(None, pending, plain_info());
    s.protocol_version = version;
    kani::assume(s.reach.is_reachable() || s.tries < 3);
    let before = snap(&s);
    let missed_before = s.reach.unanswered_polls();
    let t0 = tokio::time::Instant::now();
    let acts = s.handle_timer();
    let t1 = tokio::time::Instant::now();
    let after = snap(&s);
    let Some((pkt, timer)) = send_and_timer(acts) else {
        assert!(false, "a reachable / starting plain source must send a poll and set its timer");
        return;
    };
    // --- C12: version state after the timer and version on the wire
    let version_after = match version {
        ProtocolVersion::UpgradedToV5 if missed_before >= 2 => ProtocolVersion::V4,
        v => v,
    };
    assert!(after.version == version_after);
    assert!(pkt.len() >= 48);
    // what was sent: from the datagram (wire) or from the packet object given to the encoder
    let (wire_version, mode_client, upgrade_marker, poll_byte, echo_v) = if wire {
        let v = (pkt[0] >> 3) & 7;
        let e = if v == 5 { &pkt[24..32] } else { &pkt[40..48] };
        let mut eb = [0u8; 8];
        eb.copy_from_slice(e);
        (v, pkt[0] & 7 == 3, pkt[16..24] == *b"NTP5DRFT", pkt[2], u64::from_be_bytes(eb))
    } else {
        assert!(SER_CALLS.load(Relaxed) == 1 && !SER_HAS_CIPHER.load(Relaxed));
        assert!(SER_N_AUTH.load(Relaxed) == 0);
        (SER_VERSION.load(Relaxed), SER_MODE_CLIENT.load(Relaxed), SER_UPGRADE.load(Relaxed), SER_POLL.load(Relaxed), SER_ECHO.load(Relaxed))
    };
    assert!(mode_client);
    match version_after {
        ProtocolVersion::V4 => {
            assert!(wire_version == 4);
            assert!(!upgrade_marker);
        }
        ProtocolVersion::V4UpgradingToV5 { .. } => {
            assert!(wire_version == 4);
            assert!(upgrade_marker);
        }
        ProtocolVersion::UpgradedToV5 | ProtocolVersion::V5 => assert!(wire_version == 5),
    }
    // --- C10: poll exponent on the wire == max(desired, remote minimum) == current_poll_interval
    let want_poll = core::cmp::max(plog(before.desired), plog(before.remote_min));
    assert!(poll_byte as i8 == want_poll);
    assert!(plog(after.last_poll) == want_poll);
    assert!(plog(s.current_poll_interval()) == want_poll);
    // next poll = (system duration of that interval) x (a factor in [1.01, 1.05]); the product
    // itself is the contract of Duration::mul_f64, see c10_p_mul_f64_jitter_range
    let base = PollInterval::from_byte(want_poll as u8).as_system_duration();
    assert!(MULF_CALLS.load(Relaxed) == 1);
    assert!(MULF_SELF_NS.load(Relaxed) as u128 == base.as_nanos());
    let factor = f64::from_bits(MULF_RHS_BITS.load(Relaxed));
    assert!(factor >= 1.01 && factor <= 1.05);
    assert!(timer == Duration::from_nanos(MULF_RET_NS.load(Relaxed)));
    // --- C11: bookkeeping
    assert!(after.reach == before.reach << 1);
    assert!(after.tries == before.tries.saturating_add(1));
    // --- C08: the pending request is the one just sent and expires 5 s from now
    assert!(after.pending && !after.pending_has_uid, "pending request recorded, without uid");
    let Some(deadline) = after.pending_deadline else {
        assert!(false, "deadline recorded");
        return;
    };
    assert!(echo_v == after.pending_origin);
    assert!(deadline >= t0 + POLL_WINDOW && deadline <= t1 + POLL_WINDOW);
    // --- frame
    assert!(after.remote_min == before.remote_min && after.have_deny == before.have_deny);
    assert!(after.stratum == before.stratum && after.reference_id == before.reference_id);
    assert!(after.source_id == before.source_id && after.addr_ip == before.addr_ip && after.addr_port == before.addr_port);
    assert!(after.limits == before.limits && after.desired == before.desired && after.id == before.id);
    assert!(MEAS_CALLS.load(Relaxed) == 0 && USABLE_CALLS.load(Relaxed) == 1);
    assert!(after.snapshots == 1);
    // C33 link: the usable flag given to the controller is accept_synchronization of the new state
    let usable_want = {
        let info = s.source_info.read().unwrap();
        NtpSourceSnapshot::from_source(&s).accept_synchronization(info.local_stratum, &info.ip_list, info.server_id).is_ok()
    };
    assert!(USABLE_LAST.load(Relaxed) == usable_want);
    kani::cover!(true, "send path reachable");
    kani::cover!(matches!(version, ProtocolVersion::UpgradedToV5) && after.version == ProtocolVersion::V4, "fallback reachable (only in the UpgradedToV5 harness)");
}



// ================================================================ C12: expected incoming version

#[kani::proof]
fn c12_p_expected_incoming_version() {
    let v = any_version();
    let inc = match kani::any::<u8>() % 3 {
        0 => NtpVersion::V3,
        1 => NtpVersion::V4,
        _ => NtpVersion::V5,
    };
    let got = v.is_expected_incoming_version(inc);
    // table from the statement: a V4 association accepts V4 (and V3, its wire-compatible
    // predecessor); while upgrading only V4 answers; once upgraded / configured for V5 only V5
    let want = match (v, inc) {
        (ProtocolVersion::V4, NtpVersion::V4) | (ProtocolVersion::V4, NtpVersion::V3) => true,
        (ProtocolVersion::V4UpgradingToV5 { .. }, NtpVersion::V4) => true,
        (ProtocolVersion::UpgradedToV5, NtpVersion::V5) | (ProtocolVersion::V5, NtpVersion::V5) => true,
        _ => false,
    };
    assert!(got == want);
    assert!(ProtocolVersion::v4_upgrading_to_v5_with_default_tries() == ProtocolVersion::V4UpgradingToV5 { tries_left: 8 });
    kani::cover!(got, "accepting case reachable");
}

// ================================================================ handle_incoming: decoder replaced by its contract
//
// `NtpPacket::deserialize` is out of CBMC's reach as a whole (see DESIGN.md 2.4); handle_incoming is
// verified against the decoder's *contract*: it returns Err(_) or Ok(packet) where the packet has an
// arbitrary V3/V4/V5 header (every field symbolic) and up to two extension fields per list
// (authenticated / encrypted / untrusted) of any kind. "Unauthenticated" = the authenticated and
// the encrypted list are empty (nothing verified under the s2c key). The harness fixes the
// (symbolic) description of the next decoded packet in NEXT_PKT; the stub builds the packet from it.

#[derive(Clone, Copy)]
struct EfSpec {
    kind: u8,
    data: [u8; 32],
    len_sel: u8,
    num: u16,
}
#[derive(Clone, Copy)]
struct PktSpec {
    parse_ok: bool,
    version: u8, // 3, 4, 5
    leap: u8,
    mode: u8,
    stratum: u8,
    poll: i8,
    precision: i8,
    root_delay: i64,
    root_dispersion: i64,
    reference_id: u32,
    reference_ts: u64,
    origin: u64, // V3/V4 origin timestamp, V5 client cookie
    recv: u64,
    xmit: u64,
    timescale: u8,
    era: u8,
    synchronized: bool,
    interleaved: bool,
    authnak: bool,
    server_cookie: [u8; 8],
    n: [u8; 3], // lengths of authenticated / encrypted / untrusted
    efs: [[EfSpec; 2]; 3],
}
static NEXT_PKT: Mutex<Option<PktSpec>> = Mutex::new(None);

const EF_UID: u8 = 0;
const EF_COOKIE: u8 = 1;
const EF_REFID_RESP: u8 = 7;
static RESP_BYTES_16: [u8; 16] = [0x5a; 16];
static RESP_BYTES_8: [u8; 8] = [0xa5; 8];

fn build_ef(e: &EfSpec) -> ExtensionField<'static> {
    match e.kind {
        // unique identifier: 32 bytes, or one shorter / one longer
        0 => match e.len_sel % 3 {
            0 => ExtensionField::UniqueIdentifier(e.data.to_vec().into()),
            1 => ExtensionField::UniqueIdentifier(e.data[..31].to_vec().into()),
            _ => {
                let mut v = e.data.to_vec();
                v.push(e.len_sel);
                ExtensionField::UniqueIdentifier(v.into())
            }
        },
        // cookie: tagged by its first two bytes
        1 => ExtensionField::NtsCookie(e.data[..2].to_vec().into()),
        2 => ExtensionField::NtsCookiePlaceholder { cookie_length: e.num },
        3 => ExtensionField::InvalidNtsEncryptedField,
        4 => ExtensionField::DraftIdentification(std::borrow::Cow::Borrowed(if e.len_sel & 1 == 0 { "draft-ietf-ntp-ntpv5-09" } else { "other" })),
        5 => ExtensionField::Padding(e.num as usize),
        6 => match crate::packet::v5::extension_fields::ReferenceIdRequest::new(16, (e.num % 32) * 16) {
            Some(r) => ExtensionField::ReferenceIdRequest(r),
            None => ExtensionField::InvalidNtsEncryptedField,
        },
        // reference id response: a well-sized chunk (16 bytes) or a wrongly sized one
        7 => ExtensionField::ReferenceIdResponse(crate::packet::v5::extension_fields::ReferenceIdResponse::decode(
            if e.len_sel & 1 == 0 { &RESP_BYTES_16[..] } else { &RESP_BYTES_8[..] },
        )),
        _ => ExtensionField::Unknown { type_id: e.num, data: e.data[..1].to_vec().into() },
    }
}
fn leap_of(b: u8) -> NtpLeapIndicator {
    match b % 4 {
        0 => NtpLeapIndicator::NoWarning,
        1 => NtpLeapIndicator::Leap61,
        2 => NtpLeapIndicator::Leap59,
        _ => NtpLeapIndicator::Unknown,
    }
}
fn mode_of(b: u8) -> NtpAssociationMode {
    match b % 8 {
        0 => NtpAssociationMode::Reserved,
        1 => NtpAssociationMode::SymmetricActive,
        2 => NtpAssociationMode::SymmetricPassive,
        3 => NtpAssociationMode::Client,
        4 => NtpAssociationMode::Server,
        5 => NtpAssociationMode::Broadcast,
        6 => NtpAssociationMode::Control,
        _ => NtpAssociationMode::Private,
    }
}
fn dur(v: i64) -> NtpDuration {
    NtpDuration::from_bits(v.to_be_bytes())
}
fn build_packet(p: &PktSpec) -> NtpPacket<'static> {
    let header = if p.version == 5 {
        NtpHeader::V5(NtpHeaderV5 {
            leap: leap_of(p.leap),
            // the V5 decoder only yields Request (3) / Response (4)
            mode: if p.mode % 8 == 4 { NtpMode::Response } else { NtpMode::Request },
            stratum: p.stratum,
            poll: PollInterval::from_byte(p.poll as u8),
            precision: p.precision,
            timescale: match p.timescale % 4 {
                0 => NtpTimescale::Utc,
                1 => NtpTimescale::Tai,
                2 => NtpTimescale::Ut1,
                _ => NtpTimescale::LeapSmearedUtc,
            },
            era: NtpEra(p.era),
            flags: NtpFlags { synchronized: p.synchronized, interleaved_mode: p.interleaved, authnak: p.authnak },
            root_delay: dur(p.root_delay),
            root_dispersion: dur(p.root_dispersion),
            server_cookie: NtpServerCookie(p.server_cookie),
            client_cookie: NtpClientCookie(p.origin.to_be_bytes()),
            receive_timestamp: ts(p.recv),
            transmit_timestamp: ts(p.xmit),
        })
    } else {
        let h = NtpHeaderV3V4::from_parts(V3V4Parts {
            leap: leap_of(p.leap),
            mode: mode_of(p.mode),
            stratum: p.stratum,
            poll: PollInterval::from_byte(p.poll as u8),
            precision: p.precision,
            root_delay: dur(p.root_delay),
            root_dispersion: dur(p.root_dispersion),
            reference_id: ReferenceId::from_int(p.reference_id),
            reference_timestamp: ts(p.reference_ts),
            origin_timestamp: ts(p.origin),
            receive_timestamp: ts(p.recv),
            transmit_timestamp: ts(p.xmit),
        });
        if p.version == 3 { NtpHeader::V3(h) } else { NtpHeader::V4(h) }
    };
    let mut a: Vec<ExtensionField<'static>> = Vec::new();
    let mut e: Vec<ExtensionField<'static>> = Vec::new();
    let mut u: Vec<ExtensionField<'static>> = Vec::new();
    let mut i = 0;
    while i < 2 {
        if (i as u8) < p.n[0] {
            a.push(build_ef(&p.efs[0][i]));
        }
        if (i as u8) < p.n[1] {
            e.push(build_ef(&p.efs[1][i]));
        }
        if (i as u8) < p.n[2] {
            u.push(build_ef(&p.efs[2][i]));
        }
        i += 1;
    }
    NtpPacket::from_parts((header, (a, e, u)))
}
/// the generator stub standing in for NtpPacket::deserialize
fn deserialize_stub<'a>(
    _data: &'a [u8],
    _cipher: &(impl CipherProvider + ?Sized),
) -> Result<(NtpPacket<'a>, Option<crate::keyset::DecodedServerCookie>), crate::packet::PacketParsingError<'a>>
where
    'a: 'a,
{
    let spec = NEXT_PKT.lock().unwrap().take();
    match spec {
        Some(p) if p.parse_ok => Ok((build_packet(&p), None)),
        _ => Err(crate::packet::PacketParsingError::IncorrectLength),
    }
}

fn any_ef(kinds: &[u8]) -> EfSpec {
    let k: usize = kani::any();
    kani::assume(k < kinds.len());
    EfSpec { kind: kinds[k], data: kani::any(), len_sel: kani::any(), num: kani::any() }
}
const NO_EF: EfSpec = EfSpec { kind: 3, data: [0; 32], len_sel: 0, num: 0 };
/// arbitrary header of the given wire version (3/4 or 5); extension-field lists filled by caller
fn any_pkt(v5: bool) -> PktSpec {
    let version: u8 = if v5 { 5 } else if kani::any() { 3 } else { 4 };
    PktSpec {
        parse_ok: kani::any(),
        version,
        leap: kani::any(),
        mode: kani::any(),
        stratum: kani::any(),
        poll: kani::any(),
        precision: kani::any(),
        root_delay: kani::any(),
        root_dispersion: kani::any(),
        reference_id: kani::any(),
        reference_ts: kani::any(),
        origin: kani::any(),
        recv: kani::any(),
        xmit: kani::any(),
        timescale: kani::any(),
        era: kani::any(),
        synchronized: kani::any(),
        interleaved: kani::any(),
        authnak: kani::any(),
        server_cookie: kani::any(),
        n: [0, 0, 0],
        efs: [[NO_EF; 2]; 3],
    }
}

// ---- oracle: what the statements say about a decoded packet, in terms of the spec only
fn spec_kiss(p: &PktSpec) -> bool {
    p.stratum == 0
}
#[derive(Clone, Copy, PartialEq, Eq)]
enum Kiss {
    None,
    Rate,
    Deny, // DENY or RSTR
    Ntsn,
    Unknown,
}
/// V3/V4: the reference id carries the code. V5 has no code field: "DENY" is poll == 127 (never),
/// "RATE" is a poll field above the interval we used, the auth-NAK flag is the NTS NAK.
/// Precedence (C07/C09): a packet that is an NTS not-acknowledge (V3/V4: code "NTSN"; V5: auth-NAK
/// flag, which can be combined with a deny / rate poll field) is an NTS NAK whatever else it says:
/// a NAK is the only answer taken without authentication, so it must never act as RATE / DENY.
fn spec_kiss_class(p: &PktSpec, last_poll: i8) -> Kiss {
    if p.stratum != 0 {
        return Kiss::None;
    }
    if spec_is_ntsn(p) {
        return Kiss::Ntsn;
    }
    if p.version == 5 {
        if p.poll > last_poll && p.poll != 127 {
            Kiss::Rate
        } else if p.poll == 127 {
            Kiss::Deny
        } else {
            Kiss::Unknown
        }
    } else {
        let c = p.reference_id;
        if c == code(b"RATE") {
            Kiss::Rate
        } else if c == code(b"DENY") || c == code(b"RSTR") {
            Kiss::Deny
        } else {
            Kiss::Unknown
        }
    }
}
const fn code(c: &[u8; 4]) -> u32 {
    u32::from_be_bytes(*c)
}
fn spec_mode_server(p: &PktSpec) -> bool {
    p.mode % 8 == 4
}
fn spec_expected_version(v: ProtocolVersion, wire: u8) -> bool {
    match v {
        ProtocolVersion::V4 => wire == 4 || wire == 3,
        ProtocolVersion::V4UpgradingToV5 { .. } => wire == 4,
        ProtocolVersion::UpgradedToV5 | ProtocolVersion::V5 => wire == 5,
    }
}
fn spec_is_upgrade(p: &PktSpec) -> bool {
    p.version == 4 && p.reference_ts == u64::from_be_bytes(*b"NTP5DRFT")
}
/// uid fields of list l: (some present, all present ones match)
fn spec_uid(p: &PktSpec, l: usize, uid: &[u8; 32]) -> (bool, bool) {
    let mut any = false;
    let mut all_ok = true;
    let mut i = 0;
    while i < 2 {
        if (i as u8) < p.n[l] && p.efs[l][i].kind == EF_UID {
            any = true;
            // a matching uid field carries at least the 32 bytes we sent, first
            let long_enough = p.efs[l][i].len_sel % 3 != 1;
            if !(long_enough && words(&p.efs[l][i].data) == words(uid)) {
                all_ok = false;
            }
        }
        i += 1;
    }
    (any, all_ok)
}
fn spec_unauthenticated(p: &PktSpec) -> bool {
    p.n[0] == 0 && p.n[1] == 0
}
/// "answers the pending request and is authenticated when NTS is used" (C07/C08):
/// origin / client cookie equals what we sent; with a uid in the request: a matching uid among the
/// authenticated or encrypted fields and no contradicting one there.
fn spec_bound_to_request(p: &PktSpec, origin: u64, uid: Option<[u8; 32]>) -> bool {
    if p.origin != origin {
        return false;
    }
    match uid {
        None => true,
        Some(u) => {
            let (a_any, a_ok) = spec_uid(p, 0, &u);
            let (e_any, e_ok) = spec_uid(p, 1, &u);
            (a_any || e_any) && a_ok && e_ok
        }
    }
}
fn spec_cookies_in(p: &PktSpec, l: usize) -> usize {
    let mut c = 0;
    let mut i = 0;
    while i < 2 {
        if (i as u8) < p.n[l] && p.efs[l][i].kind == EF_COOKIE {
            c += 1;
        }
        i += 1;
    }
    c
}

// ---- model cipher for NTS sources (never invoked by handle_incoming: the decoder is stubbed)
struct ModelCipher;
impl zeroize::ZeroizeOnDrop for ModelCipher {}
impl Cipher for ModelCipher {
    fn encrypt(&self, _buffer: &mut [u8], _plaintext_length: usize, _associated_data: &[u8]) -> std::io::Result<crate::packet::EncryptResult> {
        Err(std::io::ErrorKind::Other.into())
    }
    fn decrypt(&self, _nonce: &[u8], _ciphertext: &[u8], _associated_data: &[u8]) -> Result<Vec<u8>, crate::packet::DecryptError> {
        Err(crate::packet::DecryptError)
    }
    fn key_bytes(&self) -> &[u8] {
        &[]
    }
}
/// NTS session data with an arbitrary well-formed cookie stash (tagged one-byte cookies)
fn any_nts() -> Box<SourceNtsData> {
    let read: usize = kani::any();
    let valid: usize = kani::any();
    kani::assume(read < 8 && valid <= 8);
    let t: [u8; 8] = kani::any();
    let cookies = [vec![t[0]], vec![t[1]], vec![t[2]], vec![t[3]], vec![t[4]], vec![t[5]], vec![t[6]], vec![t[7]]];
    Box::new(SourceNtsData {
        cookies: CookieStash::from_parts((cookies, read, valid)),
        c2s: Box::new(ModelCipher),
        s2c: Box::new(ModelCipher),
    })
}

#[derive(Clone, Copy, PartialEq, Eq)]
enum Deadline {
    Future, // certainly not passed when the packet is handled
    Past,   // certainly passed
}

/// The complete one-call contract of handle_incoming, written from C07, C08, C09, C12 (and the
/// T1..T4 mapping of C05). `p` is the decoded packet (contract of the decoder), `nts` whether the
/// source uses NTS. Covers are placed by the callers.
fn incoming_contract(nts: bool, p: PktSpec) -> (Snap, Snap, PktSpec, bool) {
    let t0 = tokio::time::Instant::now();
    let dl_kind = if kani::any() { Deadline::Future } else { Deadline::Past };
    let has_pending: bool = kani::any();
    let origin: u64 = kani::any();
    // plain poll requests carry no uid, NTS requests always do (contract of poll_message* /
    // nts_poll_message*, see c13_b_nts_poll_message_layout)
    let uid: Option<[u8; 32]> = if nts { Some(kani::any()) } else { None };
    let pending = if has_pending {
        let id = RequestIdentifier::from_parts((ts(origin), uid));
        let dl = match dl_kind {
            // far enough ahead that it cannot pass during the call (clock model: seconds < 2^40)
            Deadline::Future => t0 + Duration::from_secs(1 << 41),
            Deadline::Past => match t0.checked_sub(Duration::from_nanos(1)) {
                Some(d) => d,
                None => {
                    kani::assume(false);
                    t0
                }
            },
        };
        Some((id, dl))
    } else {
        None
    };
    let mut s = any_source(if nts { Some(any_nts()) } else { None }, pending, plain_info());
    if nts {
        // key exchange yields V4 or V5 (C12: "an NTS source uses the version negotiated")
        kani::assume(matches!(s.protocol_version, ProtocolVersion::V4 | ProtocolVersion::V5));
    }
    let before = snap(&s);
    *NEXT_PKT.lock().unwrap() = Some(p);
    let send_time = any_ts();
    let recv_time = any_ts();
    let msg = [0u8; 48];
    let mut acts = s.handle_incoming(&msg, send_time, recv_time);
    let first = acts.next();
    let second = acts.next();
    let after = snap(&s);
    let meas = MEAS_CALLS.load(Relaxed);
    let usable_calls = USABLE_CALLS.load(Relaxed);
    assert!(second.is_none(), "at most one action");
    let no_action = first.is_none();
    let demobilize = matches!(first, Some(NtpSourceAction::Demobilize));
    assert!(no_action || demobilize, "handle_incoming never sends, resets or re-arms the timer");

    let version_ok = spec_expected_version(before.version, p.version);
    let pending_ok = has_pending && dl_kind == Deadline::Future;
    let bound = spec_bound_to_request(&p, origin, uid);
    // a response that counts ("valid" / "matching answer")
    let valid = p.parse_ok && version_ok && pending_ok && bound;
    let last_poll = plog(before.last_poll);
    let kiss = spec_kiss_class(&p, last_poll);
    let unchanged = after == before;
    // (no exception for NTS NAKs: a NAK bound to the request only by an untrusted uid is not
    // "valid" here, and must therefore have no effect at all -- the NAK arm is dispatched first
    // and changes nothing)

    // ---------------- C08: measurements only for fresh answers, at most one per request
    assert!(meas == 0 || meas == 2);
    if meas > 0 {
        assert!(p.parse_ok && version_ok);
        assert!(has_pending && dl_kind == Deadline::Future);
        assert!(bound);
        assert!(!spec_kiss(&p) && p.stratum <= 16 && spec_mode_server(&p));
        assert!(!after.pending);
        // C05 (mapping of T1..T4): T1 = our send time, T2 = server receive, T3 = server transmit, T4 = our receive time
        assert!(M0_SENDER_TS.load(Relaxed) == ts_raw(send_time) && M0_RECEIVER_TS.load(Relaxed) == p.recv);
        assert!(M1_SENDER_TS.load(Relaxed) == p.xmit && M1_RECEIVER_TS.load(Relaxed) == ts_raw(recv_time));
        assert!(usable_calls == 1);
        // C33: usability is decided on the answer just processed (its stratum; the source is
        // reachable by now), not on what the previous answer said. (plain_info(): no local
        // addresses; the fresh RemoteBloomFilter is not filled, so no Bloom filter is published.)
        let local_stratum = s.source_info.read().unwrap().local_stratum;
        assert!(USABLE_LAST.load(Relaxed) == (p.stratum < local_stratum));
        assert!(no_action);
        assert!(after.reach == before.reach | 1 && !after.have_deny);
        assert!(after.stratum == p.stratum);
    }
    // and conversely a valid, non-KISS, sane server answer IS used (the source is not deaf)
    if valid && kiss == Kiss::None && p.stratum <= 16 && spec_mode_server(&p) {
        assert!(meas == 2);
    }

    // ---------------- C07: NTS sources ignore unauthenticated datagrams completely
    if nts && p.parse_ok && spec_unauthenticated(&p) {
        assert!(no_action, "C07: unauthenticated datagram caused an action");
        assert!(meas == 0 && usable_calls == 0);
        assert!(unchanged, "C07: unauthenticated datagram changed the source state");
    }
    // new cookies only from the encrypted part of an accepted response
    if nts {
        let c0 = before.cookies.unwrap();
        let c1 = after.cookies.unwrap();
        if meas > 0 {
            assert!(c1 == core::cmp::min(c0 + spec_cookies_in(&p, 1), 8));
        } else {
            assert!(c1 == c0);
        }
    }

    // ---------------- everything that is not a valid response has no effect at all
    if !valid {
        assert!(no_action && meas == 0 && usable_calls == 0);
        assert!(unchanged);
    }

    // ---------------- C09: KISS arms (valid response with stratum 0)
    if valid && kiss != Kiss::None {
        assert!(meas == 0 && usable_calls == 0);
        // synchronisation state untouched by any KISS code ...
        assert!(after.reach == before.reach && after.stratum == before.stratum);
        assert!(after.pending == before.pending && after.pending_origin == before.pending_origin && after.pending_deadline == before.pending_deadline && after.pending_uid == before.pending_uid);
        assert!(after.reference_id == before.reference_id && after.tries == before.tries && after.last_poll == before.last_poll);
        assert!(after.cookies == before.cookies && after.snapshots == before.snapshots);
        match kiss {
            Kiss::Rate => {
                assert!(no_action);
                assert!(after.have_deny == before.have_deny);
                let rm0 = plog(before.remote_min) as i16;
                let rm1 = plog(after.remote_min) as i16;
                let max = plog(before.limits.max) as i16;
                // never faster than the poll just sent
                assert!(rm1 >= last_poll as i16);
                // one step up, capped by the configured maximum (but never below the poll just sent)
                assert!(rm1 == core::cmp::max(core::cmp::min(rm0 + 1, max), last_poll as i16));
                if rm0 < max {
                    assert!(rm1 >= rm0 + 1);
                }
                // the next poll uses max(desired, remote minimum) (c12_p_timer_send_*), hence >= last_poll
                assert!(plog(s.current_poll_interval()) >= last_poll);
            }
            Kiss::Deny => {
                assert!(after.remote_min == before.remote_min);
                if nts {
                    assert!(demobilize);
                    assert!(after.have_deny == before.have_deny);
                } else {
                    assert!(no_action);
                    assert!(after.have_deny);
                }
            }
            Kiss::Ntsn | Kiss::Unknown => {
                assert!(no_action);
                assert!(after.remote_min == before.remote_min && after.have_deny == before.have_deny);
            }
            Kiss::None => {}
        }
    } else {
        assert!(no_action, "Demobilize only for a valid DENY/RSTR on an NTS source");
    }

    // ---------------- C12: version state machine on answers
    let want_version = if !valid {
        before.version
    } else {
        match before.version {
            ProtocolVersion::V4 => ProtocolVersion::V4,
            ProtocolVersion::V5 => ProtocolVersion::V5,
            ProtocolVersion::UpgradedToV5 => ProtocolVersion::V5,
            ProtocolVersion::V4UpgradingToV5 { tries_left } => {
                if spec_is_upgrade(&p) {
                    ProtocolVersion::UpgradedToV5
                } else if tries_left <= 1 {
                    ProtocolVersion::V4
                } else {
                    ProtocolVersion::V4UpgradingToV5 { tries_left: tries_left - 1 }
                }
            }
        }
    };
    assert!(after.version == want_version);
    if nts {
        assert!(after.version == before.version);
    }

    // ---------------- valid but unusable (bad stratum / mode): only the version may have moved
    if valid && kiss == Kiss::None && !(p.stratum <= 16 && spec_mode_server(&p)) {
        assert!(meas == 0 && usable_calls == 0 && no_action);
        let mut b2 = before;
        b2.version = after.version;
        assert!(after == b2);
    }
    // ---------------- frame of the accepting arm
    if meas > 0 {
        assert!(after.last_poll == before.last_poll && after.tries == before.tries);
        assert!(after.source_id == before.source_id && after.addr_ip == before.addr_ip && after.addr_port == before.addr_port);
        assert!(after.limits == before.limits && after.desired == before.desired && after.id == before.id);
        if p.version == 5 {
            // a V5 server may ask for a longer interval with its poll field (C10: "any interval the server asked for")
            assert!(plog(after.remote_min) == core::cmp::max(plog(before.remote_min), p.poll));
            assert!(after.reference_id == ReferenceId::NONE);
        } else {
            assert!(after.remote_min == before.remote_min);
            assert!(after.reference_id == ReferenceId::from_int(p.reference_id));
        }
        assert!(after.snapshots == 1);
    }
    // run time: the drop glue of the source (Arc<RwLock<..>>, Arc<Mutex<VecMap>>, the NTS data with
    // its 8-slot cookie stash and two boxed ciphers) and of the exhausted action iterator is not part
    // of the obligation (everything observable was read above)
    core::mem::forget(acts);
    core::mem::forget(s);
    (before, after, p, valid)
}

macro_rules! incoming_harness {
    ($name:ident, $unwind:expr, $body:block) => {
        harness! {
            #[kani::stub(crate::packet::NtpPacket::deserialize, deserialize_stub)]
            #[kani::unwind($unwind)]
            fn $name() $body
        }
    };
}

const ALL_EF_KINDS: [u8; 9] = [0, 1, 2, 3, 4, 5, 6, 7, 8];

// plain (non-NTS) source, V3/V4 answers. Decoder contract without a cipher: nothing is
// authenticated, so the authenticated / encrypted lists are empty; <= 1 untrusted field.
incoming_harness!(c08_tb_plain_v3v4, 4, {
    let mut p = any_pkt(false);
    p.n = [0, 0, 1];
    p.efs[2][0] = any_ef(&ALL_EF_KINDS);
    let (before, after, p, valid) = incoming_contract(false, p);
    kani::cover!(MEAS_CALLS.load(Relaxed) == 2, "measurement reachable");
    kani::cover!(valid && p.stratum == 0 && after.have_deny && !before.have_deny, "plain DENY reachable");
    kani::cover!(valid && matches!(after.version, ProtocolVersion::UpgradedToV5), "upgrade reachable");
    kani::cover!(valid && plog(after.remote_min) > plog(before.remote_min), "RATE reachable");
});


incoming_harness!(c08_tb_plain_v5, 4, {
    let mut p = any_pkt(true);
    p.n = [0, 0, 1];
    p.efs[2][0] = any_ef(&ALL_EF_KINDS);
    let (before, after, p, valid) = incoming_contract(false, p);
    kani::cover!(MEAS_CALLS.load(Relaxed) == 2, "measurement reachable");
    kani::cover!(valid && after.version == ProtocolVersion::V5 && before.version == ProtocolVersion::UpgradedToV5, "first V5 answer reachable");
    kani::cover!(MEAS_CALLS.load(Relaxed) == 2 && plog(after.remote_min) > plog(before.remote_min), "server-requested poll reachable");
    kani::cover!(valid && p.stratum == 0 && p.poll == 127 && after.have_deny, "V5 deny reachable");
});

// NTS source, unauthenticated datagrams (authenticated = encrypted = []), <= 2 untrusted fields.
incoming_harness!(c07_tb_nts_unauth_v3v4, 4, {
    let mut p = any_pkt(false);
    p.n = [0, 0, 2];
    p.efs[2][0] = any_ef(&ALL_EF_KINDS);
    p.efs[2][1] = any_ef(&ALL_EF_KINDS);
    let (_before, _after, p, valid) = incoming_contract(true, p);
    assert!(!valid);
    kani::cover!(p.parse_ok && p.stratum == 0 && p.reference_id == code(b"NTSN"), "unauthenticated NTS NAK reachable");
    kani::cover!(p.parse_ok && p.n[2] == 2 && p.efs[2][0].kind == EF_UID && p.efs[2][1].kind == EF_COOKIE, "forged uid + cookie reachable");
});
incoming_harness!(c07_tb_nts_unauth_v5_no_nak, 4, {
    let mut p = any_pkt(true);
    p.authnak = false;
    p.n = [0, 0, 2];
    p.efs[2][0] = any_ef(&ALL_EF_KINDS);
    p.efs[2][1] = any_ef(&ALL_EF_KINDS);
    let (_before, _after, p, valid) = incoming_contract(true, p);
    assert!(!valid);
    kani::cover!(p.parse_ok && p.stratum == 0 && p.poll == 127 && p.n[2] >= 1 && p.efs[2][0].kind == EF_UID, "unauthenticated V5 deny with uid reachable");
});
// same claim for V5 datagrams carrying the auth-NAK flag. Before the repair of the dispatch order in
// handle_incoming (NAK arm first) this was the FINDING harness of C07 (NAK + poll 127 => Demobilize).
incoming_harness!(c07_tb_nts_unauth_v5_nak, 4, {
    let mut p = any_pkt(true);
    p.authnak = true;
    p.n = [0, 0, 2];
    p.efs[2][0] = any_ef(&ALL_EF_KINDS);
    p.efs[2][1] = any_ef(&ALL_EF_KINDS);
    let (_before, _after, _p, valid) = incoming_contract(true, p);
    assert!(!valid);
    kani::cover!(true, "reachable");
});
// NTS source, authenticated answers: <= 2 authenticated, <= 2 encrypted, <= 1 untrusted field
incoming_harness!(c07_tb_nts_auth_v4, 4, {
    let mut p = any_pkt(false);
    kani::assume(p.version == 4);
    p.n = [2, 2, 1];
    p.efs[0][0] = any_ef(&ALL_EF_KINDS);
    p.efs[0][1] = any_ef(&ALL_EF_KINDS);
    p.efs[1][0] = any_ef(&ALL_EF_KINDS);
    p.efs[1][1] = any_ef(&ALL_EF_KINDS);
    p.efs[2][0] = any_ef(&ALL_EF_KINDS);
    let (before, after, p, valid) = incoming_contract(true, p);
    kani::cover!(MEAS_CALLS.load(Relaxed) == 2 && after.cookies.unwrap() == before.cookies.unwrap() + 2, "two new cookies stored");
    kani::cover!(valid && p.stratum == 0 && p.reference_id == code(b"DENY"), "authenticated DENY reachable");
    kani::cover!(MEAS_CALLS.load(Relaxed) == 2 && p.n[2] == 1 && p.efs[2][0].kind == EF_COOKIE && after.cookies == before.cookies, "untrusted cookie not stored");
});
incoming_harness!(c07_tb_nts_auth_v5, 4, {
    let mut p = any_pkt(true);
    p.n = [2, 2, 1];
    p.efs[0][0] = any_ef(&ALL_EF_KINDS);
    p.efs[0][1] = any_ef(&ALL_EF_KINDS);
    p.efs[1][0] = any_ef(&ALL_EF_KINDS);
    p.efs[1][1] = any_ef(&ALL_EF_KINDS);
    p.efs[2][0] = any_ef(&ALL_EF_KINDS);
    let (_before, _after, p, valid) = incoming_contract(true, p);
    kani::cover!(MEAS_CALLS.load(Relaxed) == 2, "measurement reachable");
    kani::cover!(valid && p.stratum == 0 && p.poll == 127, "authenticated V5 deny reachable");
});

// ---- C09: the KISS arms (stratum 0) of the same contract, per source kind / wire version
incoming_harness!(c09_tb_kiss_plain_v3v4, 4, {
    let mut p = any_pkt(false);
    p.stratum = 0;
    let (before, after, p, valid) = incoming_contract(false, p);
    kani::cover!(valid && p.reference_id == code(b"RATE") && plog(after.remote_min) as i16 == plog(before.remote_min) as i16 + 1, "RATE step reachable");
    kani::cover!(valid && p.reference_id == code(b"RSTR") && after.have_deny, "RSTR marks plain source");
    kani::cover!(valid && p.reference_id == code(b"NTSN"), "NTSN reachable");
    kani::cover!(valid && p.reference_id == code(b"RATE") && plog(before.remote_min) == 127, "RATE arm entered with remote minimum 127 (one-step pre-state)");
});
incoming_harness!(c09_tb_kiss_plain_v5, 4, {
    let mut p = any_pkt(true);
    p.stratum = 0;
    let (before, after, p, valid) = incoming_contract(false, p);
    kani::cover!(valid && p.poll != 127 && plog(after.remote_min) > plog(before.remote_min), "V5 RATE reachable");
    kani::cover!(valid && p.poll == 127 && after.have_deny, "V5 deny reachable");
});
incoming_harness!(c09_tb_kiss_nts_v4, 4, {
    let mut p = any_pkt(false);
    kani::assume(p.version == 4);
    p.stratum = 0;
    p.n = [2, 0, 0];
    p.efs[0][0] = any_ef(&ALL_EF_KINDS);
    p.efs[0][1] = any_ef(&ALL_EF_KINDS);
    let (_before, _after, p, valid) = incoming_contract(true, p);
    kani::cover!(valid && p.reference_id == code(b"DENY"), "authenticated DENY reachable");
    kani::cover!(valid && p.reference_id == code(b"NTSN"), "authenticated NTSN reachable");
});
incoming_harness!(c09_tb_kiss_nts_v5, 4, {
    let mut p = any_pkt(true);
    p.stratum = 0;
    p.n = [2, 0, 0];
    p.efs[0][0] = any_ef(&ALL_EF_KINDS);
    p.efs[0][1] = any_ef(&ALL_EF_KINDS);
    let (_before, _after, p, valid) = incoming_contract(true, p);
    kani::cover!(valid && p.poll == 127, "authenticated V5 deny reachable");
});
// ---- the complete one-call contract of handle_incoming for plain sources and packets without
// extension fields: version transition table (C12), freshness / at most one measurement (C08), KISS
// arms incl. the RATE step never exceeding max(limits.max, last poll) (C09, C10), T1..T4 mapping (C05).
// ~5-8 min each; also listed as extra harnesses of the C08 / C09 / C10 units.
incoming_harness!(c12_b_incoming_contract_plain_v3v4, 4, {
    let p = any_pkt(false);
    let (before, after, _p, valid) = incoming_contract(false, p);
    kani::cover!(valid && matches!(before.version, ProtocolVersion::V4UpgradingToV5 { tries_left: 1 }) && after.version == ProtocolVersion::V4, "giving up the upgrade reachable");
    kani::cover!(valid && after.version == ProtocolVersion::UpgradedToV5, "upgrade reachable");
    kani::cover!(valid && matches!(after.version, ProtocolVersion::V4UpgradingToV5 { tries_left: 7 }), "countdown reachable");
});
incoming_harness!(c12_b_incoming_contract_plain_v5, 4, {
    let p = any_pkt(true);
    let (before, after, _p, valid) = incoming_contract(false, p);
    kani::cover!(valid && before.version == ProtocolVersion::UpgradedToV5 && after.version == ProtocolVersion::V5, "confirmation reachable");
    kani::cover!(!valid && before.version == ProtocolVersion::V4 && after.version == ProtocolVersion::V4, "V5 answer to a V4 source ignored");
});

// lemma (C08 "at most one measurement per request"): a second delivery before the next timer
// finds no pending request. Pre-state `pending == None` is what the accepting arm leaves behind
// (asserted in incoming_contract); any packet whatsoever then has no effect.
incoming_harness!(c08_b_replay_after_accept_ignored, 4, {
    let mut p = any_pkt(kani::any());
    p.n = [0, 0, 1];
    p.efs[2][0] = any_ef(&ALL_EF_KINDS);
    let mut s = any_source(None, None, plain_info());
    let before = snap(&s);
    *NEXT_PKT.lock().unwrap() = Some(p);
    let mut acts = s.handle_incoming(&[0u8; 48], any_ts(), any_ts());
    assert!(acts.next().is_none());
    assert!(no_controller_calls());
    assert!(snap(&s) == before);
    kani::cover!(p.parse_ok && p.stratum == 1, "reachable");
});


// ================================================================ handle_timer send path, per version state
macro_rules! timer_harness {
    ($quick:ident, $wire:ident, $v:expr) => {
        harness! {
            #[kani::stub(core::time::Duration::mul_f64, mul_f64_rec)]
            #[kani::stub(crate::packet::NtpPacket::serialize, serialize_rec)]
            #[kani::unwind(10)]
            fn $quick() {
                timer_plain_send_contract($v, false);
            }
        }
        harness! {
            #[kani::stub(core::time::Duration::mul_f64, mul_f64_rec)]
            #[kani::unwind(50)]
            fn $wire() {
                timer_plain_send_contract($v, true);
            }
        }
    };
}
timer_harness!(c12_tp_timer_send_v4, c12_tp_timer_wire_v4, ProtocolVersion::V4);
timer_harness!(c12_tp_timer_send_upgrading, c12_tp_timer_wire_upgrading, ProtocolVersion::V4UpgradingToV5 { tries_left: kani::any() });
timer_harness!(c12_tp_timer_send_upgraded, c12_tp_timer_wire_upgraded, ProtocolVersion::UpgradedToV5);
timer_harness!(c12_tp_timer_send_v5, c12_tp_timer_wire_v5, ProtocolVersion::V5);

// ---- quick-tier slice of the C08 deadline clause of timer_plain_send_contract (the complete contract
// is thorough tier and reaches no verdict in 15 min): a reachable (or still starting) plain source speaking NTPv4 / NTPv5, without an earlier pending
// request, whose state is
// concrete except for the poll intervals (desired, remote minimum, last), reach register, tries,
// stratum and the deny flag sends its poll and records
// a pending request that expires exactly POLL_WINDOW (5 s) after "now" -- whatever the poll interval.
fn timer_deadline_slice(version: ProtocolVersion) {
    let mut s = NtpSource {
        nts: None,
        last_poll_interval: any_poll(),
        remote_min_poll_interval: any_poll(),
        current_request_identifier: None,
        have_deny_rstr_response: kani::any(),
        stratum: kani::any(),
        reference_id: ReferenceId::from_int(7),
        source_addr: any_addr_v4(),
        source_id: ReferenceId::from_int(9),
        reach: Reach(kani::any()),
        tries: kani::any(),
        controller: RecCtl { desired: any_poll() },
        source_config: SourceConfig {
            poll_interval_limits: PollIntervalLimits { min: PollInterval::from_byte(4), max: PollInterval::from_byte(10) },
            initial_poll_interval: PollInterval::from_byte(4),
        },
        buffer: [0; 1024],
        protocol_version: version,
        bloom_filter: RemoteBloomFilter::new(16).unwrap(),
        id: ClockId(1),
        source_info: Arc::new(RwLock::new(NtpSourceInfo { ip_list: Arc::from(Vec::<IpAddr>::new()), server_id: fixed_server_id(), local_stratum: 16 })),
        source_snapshots: Arc::new(Mutex::new(HashMap::new())),
    };
    kani::assume(s.reach.is_reachable() || s.tries < 3);
    let t0 = tokio::time::Instant::now();
    let acts = s.handle_timer();
    let t1 = tokio::time::Instant::now();
    core::mem::forget(acts);
    let recorded = match &s.current_request_identifier {
        Some((_, dl)) => Some(*dl),
        None => None,
    };
    let Some(deadline) = recorded else {
        assert!(false, "pending request recorded");
        return;
    };
    assert!(deadline >= t0 + POLL_WINDOW && deadline <= t1 + POLL_WINDOW, "the pending request expires 5 s after it was sent");
    kani::cover!(plog(s.current_poll_interval()) >= 6, "poll interval longer than the window reachable");
    core::mem::forget(s);
}
harness! {
    #[kani::stub(core::time::Duration::mul_f64, mul_f64_rec)]
    #[kani::stub(crate::packet::NtpPacket::serialize, serialize_rec)]
    #[kani::unwind(10)]
    fn c08_b_slice_timer_deadline_v4() {
        timer_deadline_slice(ProtocolVersion::V4);
    }
}
harness! {
    #[kani::stub(core::time::Duration::mul_f64, mul_f64_rec)]
    #[kani::stub(crate::packet::NtpPacket::serialize, serialize_rec)]
    #[kani::unwind(10)]
    fn c08_b_slice_timer_deadline_v5() {
        timer_deadline_slice(ProtocolVersion::V5);
    }
}

// ================================================================ C10: current_poll_interval and the timer factor
#[kani::proof]
#[kani::unwind(12)]
fn c10_p_current_poll_interval() {
    let s = any_source(None, None, plain_info());
    let got = s.current_poll_interval();
    let desired = s.controller.desired;
    let remote = s.remote_min_poll_interval;
    assert!(plog(got) == core::cmp::max(plog(desired), plog(remote)));
    // C10 bounds: with min <= desired <= max (filter invariant, kalman/source.rs) the result is
    // >= the configured minimum and <= max(configured maximum, what the server asked for)
    let l = s.source_config.poll_interval_limits;
    if l.min <= desired && desired <= l.max {
        assert!(got >= l.min);
        assert!(got <= core::cmp::max(l.max, remote));
    }
    kani::cover!(remote > l.max && desired <= l.max, "server request above configured maximum reachable");
}

/// Duration::mul_f64 on the arguments handle_timer passes (recorded in c12_p_timer_send_*):
/// interval = 2^e seconds with e = clamp(poll, 0, 31) (c10_p_poll_as_duration), factor in [1.01, 1.05]:
/// result within [1.01, 1.05] x interval up to 1 ns of float rounding.
#[kani::proof]
fn c10_p_mul_f64_jitter_range() {
    let p = any_poll();
    let base = p.as_system_duration();
    let f: f64 = kani::any();
    kani::assume(f >= 1.01 && f <= 1.05);
    let d = base.mul_f64(f);
    let b = base.as_nanos();
    let r = d.as_nanos();
    // tolerance: 1 ns + 1e-9 relative (1.01 and 1.05 are not exactly representable in f64:
    // 1.05 is 1.05000000000000004..., which on 2^31 s is ~95 ns above "1.05 x interval")
    assert!(r * 100 + 100 + b / 10_000_000 >= b * 101);
    assert!(r * 100 <= b * 105 + 100 + b / 10_000_000);
    kani::cover!(plog(p) == 17, "36 h interval reachable");
}

// ================================================================ C33: accept_synchronization
fn bit_set(bytes: &[u8; 512], idx: u16) -> bool {
    bytes[(idx / 8) as usize] & (1u8 << (idx % 8)) != 0
}
fn any_ipv4() -> ([u8; 4], IpAddr) {
    let o: [u8; 4] = kani::any();
    (o, IpAddr::V4(std::net::Ipv4Addr::new(o[0], o[1], o[2], o[3])))
}
struct AcceptCase {
    snap: NtpSourceSnapshot,
    local_stratum: u8,
    ips: [[u8; 4]; 2],
    n_ips: usize,
    sid: [u16; 10],
    filter: Option<[u8; 512]>,
    result_ok: bool,
}
/// bound: at most 2 local IPv4 addresses (IPv6 ids are MD5-derived: not modelled)
fn accept_case(with_filter: bool) -> AcceptCase {
    let (sid, sidv) = any_server_id();
    let filter: Option<[u8; 512]> = if with_filter { Some(kani::any()) } else { None };
    let snap = NtpSourceSnapshot {
        source_addr: any_addr_v4(),
        source_id: ReferenceId::from_int(kani::any()),
        poll_interval: any_poll(),
        reach: Reach(kani::any()),
        stratum: kani::any(),
        reference_id: ReferenceId::from_int(kani::any()),
        protocol_version: any_version(),
        bloom_filter: filter.map(BloomFilter::from_parts),
    };
    let (a, ipa) = any_ipv4();
    let (b, ipb) = any_ipv4();
    let n_ips: usize = kani::any();
    kani::assume(n_ips <= 2);
    let list = [ipa, ipb];
    let local_stratum: u8 = kani::any();
    let r = snap.accept_synchronization(local_stratum, &list[..n_ips], sid);
    AcceptCase { snap, local_stratum, ips: [a, b], n_ips, sid: sidv, filter, result_ok: r.is_ok() }
}
fn id_in_local(c: &AcceptCase, id: ReferenceId) -> bool {
    (c.n_ips >= 1 && id == ReferenceId::from_int(u32::from_be_bytes(c.ips[0])))
        || (c.n_ips >= 2 && id == ReferenceId::from_int(u32::from_be_bytes(c.ips[1])))
}

harness! {
    #[kani::unwind(12)]
    fn c33_b_accept_stratum_reach_bloom() {
        let c = accept_case(true);
        if c.result_ok {
            assert!(c.snap.stratum < c.local_stratum);
            assert!(c.snap.reach.is_reachable());
            // the source's Bloom filter does not contain this daemon's server id:
            // at least one of the ten index bits is clear
            let f = c.filter.unwrap();
            let mut all = true;
            let mut i = 0;
            while i < 10 {
                if !bit_set(&f, c.sid[i]) {
                    all = false;
                }
                i += 1;
            }
            assert!(!all);
        }
        kani::cover!(c.result_ok, "acceptance reachable");
    }
}
harness! {
    #[kani::unwind(12)]
    fn c33_b_accept_not_self_above_stratum1() {
        // what the code does check: a source whose own address id is one of ours is refused -- but
        // only when its stratum is not 1
        let c = accept_case(false);
        if c.result_ok && c.snap.stratum != 1 {
            assert!(!id_in_local(&c, c.snap.source_id));
        }
        kani::cover!(c.result_ok && c.n_ips == 2, "acceptance with two local addresses reachable");
    }
}
// FINDING harnesses (statement clauses the code does not implement, see units/C33.json)
harness! {
    #[kani::unwind(12)]
    fn c33_b_accept_never_self() {
        // statement: "never used ... if it is this daemon itself" (any stratum)
        let c = accept_case(false);
        if c.result_ok {
            assert!(!id_in_local(&c, c.snap.source_id), "C33: source with one of our own addresses accepted");
        }
        kani::cover!(c.result_ok, "acceptance reachable");
    }
}
harness! {
    #[kani::unwind(12)]
    fn c33_b_accept_refid_loop() {
        // statement: "... or if it reports that it synchronises to this daemon (by its reference id
        // when its stratum is above 1 ...)"
        let c = accept_case(false);
        if c.result_ok && c.snap.stratum > 1 {
            assert!(!id_in_local(&c, c.snap.reference_id), "C33: source whose reference id is one of our addresses accepted");
        }
        kani::cover!(c.result_ok, "acceptance reachable");
    }
}
harness! {
    #[kani::unwind(12)]
    fn c33_canary_accept_never() {
        // false: claims no source is ever accepted
        let c = accept_case(false);
        assert!(!c.result_ok);
    }
}

// ================================================================ C13: request layout
/// nts_poll_message / nts_poll_message_v5: authenticated == [uid(32 bytes), cookie, placeholder x (n-1)]
/// (V5: followed by the draft identification), nothing encrypted / untrusted, uid recorded in the
/// request identifier. bound: cookie length <= 4 (content symbolic), n <= 8 (gap() <= 8).
fn nts_poll_layout(v5: bool, max_n: u8) {
    let bytes: [u8; 4] = kani::any();
    let len: usize = if kani::any() { 0 } else if kani::any() { 1 } else { 4 };
    let cookie = &bytes[..len];
    // n is fixed per harness (a symbolic loop bound makes CBMC unroll every Vec::push growth path)
    let n: u8 = max_n;
    let poll = any_poll();
    let (pkt, id) = if v5 { NtpPacket::nts_poll_message_v5(cookie, n, poll) } else { NtpPacket::nts_poll_message(cookie, n, poll) };
    let (n_auth, n_enc, n_untr): (usize, usize, usize) = pkt.parts();
    assert!(n_enc == 0 && n_untr == 0);
    assert!(n_auth == 1 + n as usize + if v5 { 1 } else { 0 });
    let (_origin, uid) = id.parts();
    let uid = uid.unwrap();
    let mut i = 0usize;
    for ef in pkt.authenticated_extension_fields() {
        if i == 0 {
            assert!(matches!(ef, ExtensionField::UniqueIdentifier(u) if u.len() == 32 && **u == uid[..]));
        } else if i == 1 {
            // the cookie is sent exactly once, whole
            assert!(matches!(ef, ExtensionField::NtsCookie(c) if **c == *cookie));
        } else if i <= n as usize {
            // exactly n - 1 placeholders of the cookie's size: n new cookies requested in total
            assert!(matches!(ef, ExtensionField::NtsCookiePlaceholder { cookie_length } if *cookie_length as usize == len));
        } else {
            assert!(v5 && matches!(ef, ExtensionField::DraftIdentification(_)));
        }
        i += 1;
    }
    assert!(i == n_auth);
    assert!(pkt.poll() == poll && pkt.mode() == NtpAssociationMode::Client);
    assert!(pkt.version() == if v5 { NtpVersion::V5 } else { NtpVersion::V4 });
    kani::cover!(n == max_n && len == 4, "maximal request reachable");
}
// bound: n in {1, 3} in the quick tier, n = 8 = MAX_COOKIES (the largest value gap() can return) in
// the thorough tier; cookie length in {0, 1, 4} with symbolic content (the code copies it blindly)
macro_rules! layout_harness {
    ($name:ident, $v5:expr, $n:expr) => {
        #[kani::proof]
        #[kani::unwind(34)]
        fn $name() {
            nts_poll_layout($v5, $n);
        }
    };
}
layout_harness!(c13_b_nts_poll_layout_v4_n1, false, 1);
layout_harness!(c13_b_nts_poll_layout_v4_n3, false, 3);
layout_harness!(c13_b_nts_poll_layout_v5_n3, true, 3);
layout_harness!(c13_b_nts_poll_layout_v4_n8, false, 8);
layout_harness!(c13_b_nts_poll_layout_v5_n8, true, 8);


// ================================================================ quick tier for C07 / C08 / C09 / C12:
// the deciding predicates of handle_incoming on decoded packets, without the source object
// (the full handle_incoming contract above is thorough-tier: 5-15 min per harness).

fn packet_with_lists(v5: bool) -> PktSpec {
    let mut p = any_pkt(v5);
    p.parse_ok = true;
    p.n = [2, 2, 2];
    p.efs[0][0] = any_ef(&ALL_EF_KINDS);
    p.efs[0][1] = any_ef(&ALL_EF_KINDS);
    p.efs[1][0] = any_ef(&ALL_EF_KINDS);
    p.efs[1][1] = any_ef(&ALL_EF_KINDS);
    p.efs[2][0] = any_ef(&ALL_EF_KINDS);
    p.efs[2][1] = any_ef(&ALL_EF_KINDS);
    // a list of two fields whose second entry is of an inert kind behaves as a list of one
    p
}
fn spec_is_ntsn(p: &PktSpec) -> bool {
    p.stratum == 0 && if p.version == 5 { p.authnak } else { p.reference_id == code(b"NTSN") }
}

/// NtpPacket::valid_server_response for an NTS request (uid present). bound: 2 fields per list.
/// post (C07): true => origin / client cookie matches AND the uid is confirmed by an
/// authenticated or encrypted field with none contradicting -- the only exception being an NTS
/// NAK, which may be bound by an untrusted uid (it must then not change any state, C09).
fn valid_response_nts_contract(v5: bool, unauth: bool) {
    let mut p = packet_with_lists(v5);
    // bound: one field per list (authenticated datagram) or two untrusted fields only
    p.n = if unauth { [0, 0, 2] } else { [1, 1, 1] };
    let pkt = build_packet(&p);
    let origin: u64 = kani::any();
    let uid: [u8; 32] = kani::any();
    let id = RequestIdentifier::from_parts((ts(origin), Some(uid)));
    let got = pkt.valid_server_response(id, true);
    let bound = spec_bound_to_request(&p, origin, Some(uid));
    if got {
        assert!(p.origin == origin);
        let (u_any, u_ok) = spec_uid(&p, 2, &uid);
        let (_a_any, a_ok) = spec_uid(&p, 0, &uid);
        let (_e_any, e_ok) = spec_uid(&p, 1, &uid);
        assert!(bound || (spec_is_ntsn(&p) && u_any && u_ok && a_ok && e_ok));
        if spec_unauthenticated(&p) {
            assert!(spec_is_ntsn(&p), "an unauthenticated datagram is at most an NTS NAK");
        }
    }
    if bound && !spec_is_ntsn(&p) {
        // untrusted fields cannot invalidate an authenticated answer
        assert!(got);
    }
    // cookie intake: exactly the cookie fields of the encrypted list, in order, nothing else
    let mut k = 0usize;
    for c in pkt.new_cookies() {
        // find the k-th cookie field of the encrypted list in the spec
        let mut seen = 0usize;
        let mut i = 0;
        let mut found = false;
        while i < 2 {
            if (i as u8) < p.n[1] && p.efs[1][i].kind == EF_COOKIE {
                if seen == k {
                    assert!(c.len() == 2 && c[0] == p.efs[1][i].data[0] && c[1] == p.efs[1][i].data[1]);
                    found = true;
                }
                seen += 1;
            }
            i += 1;
        }
        assert!(found);
        k += 1;
    }
    assert!(k == spec_cookies_in(&p, 1));
    kani::cover!(unauth || (got && bound), "authenticated match reachable (authenticated variant)");
    kani::cover!(got && (spec_unauthenticated(&p) || !unauth), "accepting case reachable");
    kani::cover!(unauth || k == 1, "cookie intake reachable");
}
macro_rules! valid_nts_harness {
    ($name:ident, $v5:expr, $unauth:expr) => {
        #[kani::proof]
        #[kani::unwind(4)]
        fn $name() {
            valid_response_nts_contract($v5, $unauth);
        }
    };
}
valid_nts_harness!(c07_b_valid_response_nts_auth_v3v4, false, false);
valid_nts_harness!(c07_b_valid_response_nts_auth_v5, true, false);
valid_nts_harness!(c07_b_valid_response_nts_unauth_v3v4, false, true);
valid_nts_harness!(c07_b_valid_response_nts_unauth_v5, true, true);
#[kani::proof]
#[kani::unwind(4)]
fn c07_canary_untrusted_uid_suffices() {
    // false: claims a matching origin is enough for an NTS source
    let mut p = packet_with_lists(false);
    p.n = [0, 0, 1];
    let pkt = build_packet(&p);
    let origin: u64 = kani::any();
    let uid: [u8; 32] = kani::any();
    let got = pkt.valid_server_response(RequestIdentifier::from_parts((ts(origin), Some(uid))), true);
    assert!(got == (p.origin == origin));
}

/// plain request (no uid): valid <=> origin timestamp (V3/V4) / client cookie (V5) is the one sent
fn valid_response_plain_contract(v5: bool) {
    let mut p = packet_with_lists(v5);
    p.n = [0, 0, 1];
    let pkt = build_packet(&p);
    let origin: u64 = kani::any();
    let got = pkt.valid_server_response(RequestIdentifier::from_parts((ts(origin), None)), false);
    assert!(got == (p.origin == origin));
    // the header observers handle_incoming dispatches on (C08: kiss, stratum, mode; C12: version, marker)
    assert!(pkt.is_kiss() == (p.stratum == 0));
    assert!(pkt.stratum() == p.stratum);
    assert!((pkt.mode() == NtpAssociationMode::Server) == spec_mode_server(&p));
    assert!(pkt.version().as_u8() == p.version);
    assert!(pkt.is_upgrade() == spec_is_upgrade(&p));
    assert!(ts_raw(pkt.receive_timestamp()) == p.recv && ts_raw(pkt.transmit_timestamp()) == p.xmit);
    kani::cover!(got, "match reachable");
}
#[kani::proof]
#[kani::unwind(4)]
fn c08_b_valid_response_plain_v3v4() {
    valid_response_plain_contract(false);
}
#[kani::proof]
#[kani::unwind(4)]
fn c08_b_valid_response_plain_v5() {
    valid_response_plain_contract(true);
}
#[kani::proof]
#[kani::unwind(4)]
fn c08_canary_any_origin_valid() {
    // false: claims the origin field is not looked at
    let mut p = packet_with_lists(false);
    p.n = [0, 0, 0];
    let pkt = build_packet(&p);
    assert!(pkt.valid_server_response(RequestIdentifier::from_parts((any_ts(), None)), false));
}

/// C09: the KISS predicates handle_incoming dispatches on, against the classification used in
/// the contract (spec_kiss_class); header-only, both wire families; complete over the header.
#[kani::proof]
#[kani::unwind(4)]
fn c09_p_kiss_predicates_match_classification() {
    let mut p = any_pkt(kani::any());
    p.parse_ok = true;
    let pkt = build_packet(&p);
    let own = any_poll();
    let rate = pkt.is_kiss_rate(own);
    let deny = pkt.is_kiss_deny() || pkt.is_kiss_rstr();
    let ntsn = pkt.is_kiss_ntsn();
    // dispatch order of handle_incoming: ntsn, rate, deny/rstr, other kiss
    let class = if ntsn {
        Kiss::Ntsn
    } else if rate {
        Kiss::Rate
    } else if deny {
        Kiss::Deny
    } else if pkt.is_kiss() {
        Kiss::Unknown
    } else {
        Kiss::None
    };
    assert!(class == spec_kiss_class(&p, plog(own)));
    if p.version != 5 {
        // V3/V4: the four codes are mutually exclusive, no precedence involved
        assert!(rate as u8 + deny as u8 + ntsn as u8 <= 1);
    }
    kani::cover!(p.version == 5 && ntsn && deny, "V5 packet that is NAK and deny at once (dispatched as NAK)");
    kani::cover!(class == Kiss::Rate && p.version == 5, "V5 rate reachable");
}
#[kani::proof]
#[kani::unwind(4)]
fn c09_canary_v5_nak_exclusive() {
    // false: claims V5 auth-NAK packets are never classified as deny
    let mut p = any_pkt(true);
    p.parse_ok = true;
    let pkt = build_packet(&p);
    assert!(!(pkt.is_kiss_ntsn() && pkt.is_kiss_deny()));
}
#[kani::proof]
fn c12_canary_v3_accepted_while_upgrading() {
    // false: claims an upgrading source accepts NTPv3 answers
    assert!(ProtocolVersion::V4UpgradingToV5 { tries_left: kani::any() }.is_expected_incoming_version(NtpVersion::V3));
}

// ================================================================ C07 FINDING, concrete witness
// The statement's claim on ONE concrete datagram: NTPv5, stratum 0, poll 127 ("never"), auth-NAK
// flag set, no authenticated / encrypted field, one untrusted uid field echoing the request's uid,
// client cookie echoing the request. Everything in it is visible on the wire to an on-path attacker.
// Claim (C07): no action, no state change. (Before the repair recorded in known-findings.txt the
// real code returned [Demobilize].)
incoming_harness!(c07_b_unauth_v5_nak_deny_witness, 4, {
    let uid: [u8; 32] = [7; 32];
    let origin: u64 = 0x0102_0304_0506_0708;
    let mut p = PktSpec {
        parse_ok: true,
        version: 5,
        leap: 0,
        mode: 4,
        stratum: 0,
        poll: 127,
        precision: 0,
        root_delay: 0,
        root_dispersion: 0,
        reference_id: 0,
        reference_ts: 0,
        origin,
        recv: 0,
        xmit: 0,
        timescale: 0,
        era: 0,
        synchronized: false,
        interleaved: false,
        authnak: true,
        server_cookie: [0; 8],
        n: [0, 0, 1],
        efs: [[NO_EF; 2]; 3],
    };
    p.efs[2][0] = EfSpec { kind: EF_UID, data: uid, len_sel: 0, num: 0 };
    let t0 = tokio::time::Instant::now();
    let pending = Some((RequestIdentifier::from_parts((ts(origin), Some(uid))), t0 + Duration::from_secs(1 << 41)));
    let mut s = any_source(Some(any_nts()), pending, plain_info());
    s.protocol_version = ProtocolVersion::V5;
    let before = snap(&s);
    *NEXT_PKT.lock().unwrap() = Some(p);
    let mut acts = s.handle_incoming(&[0u8; 48], any_ts(), any_ts());
    let first = acts.next();
    assert!(first.is_none(), "C07: unauthenticated NTPv5 NAK+deny datagram produced an action (Demobilize)");
    assert!(snap(&s) == before);
    kani::cover!(true, "reachable");
    // the source owns an 8-slot cookie stash; its drop glue is not part of the obligation
    drop(acts);
    core::mem::forget(s);
});


// ================================================================ C05: T1..T4 mapping
/// measurements_from_packet: (T1, T2) = (our send time, server receive timestamp) goes out as
/// the system->source measurement, (T3, T4) = (server transmit timestamp, our receive time) as the
/// source->system one; root delay / dispersion / leap / precision copied from the header.
/// Complete over the header (V3/V4/V5) and the two local timestamps.
#[kani::proof]
#[kani::unwind(4)]
fn c05_p_measurements_from_packet() {
    let mut p = any_pkt(kani::any());
    p.parse_ok = true;
    let pkt = build_packet(&p);
    let id = ClockId(kani::any());
    let send_time = any_ts();
    let recv_time = any_ts();
    let (out, inc) = measurements_from_packet(&pkt, id, send_time, recv_time);
    assert!(out.sender_id == ClockId::SYSTEM && out.receiver_id == id);
    assert!(out.sender_ts == send_time && ts_raw(out.receiver_ts) == p.recv);
    assert!(inc.sender_id == id && inc.receiver_id == ClockId::SYSTEM);
    assert!(ts_raw(inc.sender_ts) == p.xmit && inc.receiver_ts == recv_time);
    assert!(out.root_delay == dur(p.root_delay) && inc.root_delay == dur(p.root_delay));
    assert!(out.root_dispersion == dur(p.root_dispersion) && inc.root_dispersion == dur(p.root_dispersion));
    assert!(out.precision == p.precision && inc.precision == p.precision);
    assert!(out.leap == leap_of(p.leap) && inc.leap == leap_of(p.leap));
    kani::cover!(p.version == 5, "V5 reachable");
}
#[kani::proof]
#[kani::unwind(4)]
fn c05_canary_t2_t3_swapped() {
    let mut p = any_pkt(false);
    p.parse_ok = true;
    let pkt = build_packet(&p);
    let (out, _inc) = measurements_from_packet(&pkt, ClockId(1), any_ts(), any_ts());
    assert!(ts_raw(out.receiver_ts) == p.xmit);
}

#[cfg(all(kani, test))]
mod replay {
    use super::*;
    include!(concat!(env!("VERIF_REPLAY_DIR"), "/ntp_proto__source.rs"));
}
