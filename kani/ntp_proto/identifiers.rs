// Contract harnesses for ntp-proto/src/identifiers.rs (child module: sees private items).
// Property C33 (leaf): the reference id of an IPv4 address is its four octets, so two IPv4
// addresses have the same id iff they are equal; C09 (leaf): the KISS code predicates.
#![allow(unused_imports)]
use super::*;

#[kani::proof]
fn c33_p_refid_from_ipv4_injective() {
    let a: [u8; 4] = kani::any();
    let b: [u8; 4] = kani::any();
    let ia = ReferenceId::from_ip(IpAddr::V4(std::net::Ipv4Addr::new(a[0], a[1], a[2], a[3])));
    let ib = ReferenceId::from_ip(IpAddr::V4(std::net::Ipv4Addr::new(b[0], b[1], b[2], b[3])));
    assert!(ia.0 == u32::from_be_bytes(a));
    assert!((ia == ib) == (a == b));
    assert!(ia.to_bytes() == a && ReferenceId::from_bytes(a) == ia && ReferenceId::from_int(ia.0) == ia);
    kani::cover!(ia == ib, "equal reachable");
}

#[kani::proof]
fn c09_p_kiss_code_predicates() {
    let x: [u8; 4] = kani::any();
    let r = ReferenceId::from_bytes(x);
    assert!(r.is_deny() == (x == *b"DENY"));
    assert!(r.is_rate() == (x == *b"RATE"));
    assert!(r.is_rstr() == (x == *b"RSTR"));
    assert!(r.is_ntsn() == (x == *b"NTSN"));
    // the four codes are mutually exclusive
    let n = r.is_deny() as u8 + r.is_rate() as u8 + r.is_rstr() as u8 + r.is_ntsn() as u8;
    assert!(n <= 1);
    kani::cover!(r.is_ntsn(), "NTSN reachable");
}

#[cfg(all(kani, test))]
mod replay {
    use super::*;
    include!(concat!(env!("VERIF_REPLAY_DIR"), "/ntp_proto__identifiers.rs"));
}
