// Contract harnesses for ntp-proto/src/config.rs (child module: sees private items).
// Property C39: accepted step thresholds are never negative / NaN / from an infinity, in the
// single-number form and in the per-direction ({forward = x, backward = y}) form; the
// deserializers never panic for any number.
//
// The visitors are function-local structs, so they are driven through the real
// `StepThreshold::deserialize` / `ThresholdPart::deserialize` /
// `deserialize_option_accumulated_step_panic_threshold` with serde's own value deserializers
// (error type `serde::de::value::Error`).  `toml` hands numbers to `deserialize_any` visitors as
// `visit_f64` (floats, including `nan`, `inf`, `-inf` literals) and `visit_i64` (integers); u64 is
// covered as well since the visitors implement it.
#![allow(unused_imports)]
use super::*;
use serde::de::value::{
    Error as VErr, F64Deserializer, I64Deserializer, MapDeserializer, StrDeserializer, U64Deserializer,
};
use serde::de::IntoDeserializer;

// A map value of any of the scalar kinds the visitors implement (test driver, not under test).
#[derive(Clone, Copy)]
enum Val {
    F(f64),
    I(i64),
    U(u64),
    // index into STRS (a `&str` payload next to f64/i64 payloads in one enum loses its pointer in
    // Kani 0.68 / CBMC 6.11 when the enum is copied: observed, so the string is looked up late)
    S(u8),
}
const STRS: [&str; 8] = ["inf", "nan", "-inf", "+inf", "Inf", "", "infinity", "in"];
impl<'de> serde::Deserializer<'de> for Val {
    type Error = VErr;
    fn deserialize_any<V: Visitor<'de>>(self, visitor: V) -> Result<V::Value, VErr> {
        match self {
            Val::F(v) => visitor.visit_f64(v),
            Val::I(v) => visitor.visit_i64(v),
            Val::U(v) => visitor.visit_u64(v),
            Val::S(k) => visitor.visit_str(STRS[k as usize]),
        }
    }
    serde::forward_to_deserialize_any! {
        bool i8 i16 i32 i64 i128 u8 u16 u32 u64 u128 f32 f64 char str string bytes byte_buf option
        unit unit_struct newtype_struct seq tuple tuple_struct map struct enum identifier ignored_any
    }
}
impl<'de> IntoDeserializer<'de, VErr> for Val {
    type Deserializer = Val;
    fn into_deserializer(self) -> Val {
        self
    }
}

fn vs(x: &'static str) -> Val {
    let mut k = 0;
    while k < STRS.len() {
        if STRS[k] == x {
            return Val::S(k as u8);
        }
        k += 1;
    }
    panic!("harness string not in STRS");
}

fn de_map(entries: Vec<(&'static str, Val)>) -> Result<StepThreshold, VErr> {
    StepThreshold::deserialize(MapDeserializer::<_, VErr>::new(entries.into_iter()))
}

// The statement's predicate on one accepted bound that was produced from the number `v`.
fn bound_ok(b: Option<NtpDuration>, v: f64) -> bool {
    match b {
        // present bound: non-negative, and its source was a finite non-negative number
        Some(d) => d >= NtpDuration::ZERO && !v.is_nan() && !v.is_infinite() && v >= 0.0 && d == NtpDuration::from_seconds(v),
        None => false,
    }
}

// ------------------------------------------------------------------ single-number form

// post⇐statement: for EVERY f64 the single-number form never panics; Ok(t) ⇒ both bounds present,
// equal, non-negative and produced from a finite non-negative number; every NaN, ±inf and negative
// number is rejected; every finite non-negative number is accepted (so the check is not vacuous).
crate::verif_common::harness! {
    #[kani::stub(alloc::fmt::format, crate::verif_common::fmt_format)]
    fn c39_p_single_f64() {
        let v: f64 = kani::any();
        let r = StepThreshold::deserialize(F64Deserializer::<VErr>::new(v));
        match r {
            Ok(t) => {
                assert!(bound_ok(t.forward, v));
                assert!(bound_ok(t.backward, v));
                assert!(t.forward == t.backward);
            }
            Err(_) => { assert!(v.is_nan() || v.is_infinite() || v < 0.0) }
        }
        kani::cover!(r.is_ok(), "some number accepted");
        kani::cover!(r.is_err(), "some number rejected");
    }
}

crate::verif_common::harness! {
    #[kani::stub(alloc::fmt::format, crate::verif_common::fmt_format)]
    fn c39_p_single_i64() {
        let v: i64 = kani::any();
        let r = StepThreshold::deserialize(I64Deserializer::<VErr>::new(v));
        match r {
            Ok(t) => {
                assert!(v >= 0);
                assert!(bound_ok(t.forward, v as f64));
                assert!(bound_ok(t.backward, v as f64));
            }
            Err(_) => { assert!(v < 0) }
        }
        kani::cover!(r.is_ok(), "accepted");
        kani::cover!(r.is_err(), "rejected");
    }
}

crate::verif_common::harness! {
    #[kani::stub(alloc::fmt::format, crate::verif_common::fmt_format)]
    fn c39_p_single_u64() {
        let v: u64 = kani::any();
        let r = StepThreshold::deserialize(U64Deserializer::<VErr>::new(v));
        // every u64 is a finite non-negative number: accepted
        let t = r.expect("u64 accepted");
        assert!(bound_ok(t.forward, v as f64));
        assert!(bound_ok(t.backward, v as f64));
        kani::cover!(t.forward == Some(NtpDuration::MAX), "saturation reachable");
    }
}

// String form: exactly "inf" means "no limit in both directions"; any other string is rejected.
// Bounded stand-in for "all strings": the three 3-character strings with one position replaced by
// an arbitrary Unicode scalar value, plus fixed strings of other lengths.
crate::verif_common::harness! {
    #[kani::unwind(10)]
    #[kani::stub(alloc::fmt::format, crate::verif_common::fmt_format)]
    fn c39_b_single_str() {
        let c: char = kani::any();
        let mut s = String::new();
        let pos: u8 = kani::any();
        kani::assume(pos < 3);
        let base = ['i', 'n', 'f'];
        s.push(if pos == 0 { c } else { base[0] });
        s.push(if pos == 1 { c } else { base[1] });
        s.push(if pos == 2 { c } else { base[2] });
        let r = StepThreshold::deserialize(StrDeserializer::<VErr>::new(s.as_str()));
        let is_inf = c == base[pos as usize];
        match r {
            Ok(t) => { assert!(is_inf && t.forward.is_none() && t.backward.is_none()) }
            Err(_) => { assert!(!is_inf) }
        }
        kani::cover!(r.is_ok(), "inf accepted");
        kani::cover!(r.is_err(), "other string rejected");
    }
}

crate::verif_common::harness! {
    #[kani::unwind(10)]
    #[kani::stub(alloc::fmt::format, crate::verif_common::fmt_format)]
    fn c39_b_single_str_fixed() {
        let s = match kani::any::<u8>() { 0 => "", 1 => "in", 2 => "infx", 3 => "nan", 4 => "-inf", 5 => "+inf", 6 => "1.0", _ => "infinity" };
        let r = StepThreshold::deserialize(StrDeserializer::<VErr>::new(s));
        assert!(r.is_err());
        kani::cover!(true, "reachable");
    }
}

// ------------------------------------------------------------------ per-direction form

// post⇐statement: {forward = v} for EVERY f64 v never panics; Ok(t) ⇒ the forward bound, when
// present, is non-negative and came from a finite non-negative number; backward stays absent.
// (The real code fails this: see FINDINGS — NaN/±inf hit the debug_assert in
// NtpDuration::from_seconds, negatives are accepted.)
crate::verif_common::harness! {
    #[kani::unwind(10)]
    #[kani::stub(alloc::fmt::format, crate::verif_common::fmt_format)]
    fn c39_p_map_forward_f64() {
        let v: f64 = kani::any();
        let r = de_map(vec![("forward", Val::F(v))]);
        if let Ok(t) = r {
            assert!(t.backward.is_none(), "only the named direction is set");
            assert!(t.forward.is_none() || bound_ok(t.forward, v), "accepted forward bound is a finite non-negative number");
        }
        kani::cover!(matches!(r, Ok(t) if t.forward.is_some()), "some forward bound accepted");
    }
}

crate::verif_common::harness! {
    #[kani::unwind(10)]
    #[kani::stub(alloc::fmt::format, crate::verif_common::fmt_format)]
    fn c39_p_map_backward_f64() {
        let v: f64 = kani::any();
        let r = de_map(vec![("backward", Val::F(v))]);
        if let Ok(t) = r {
            assert!(t.forward.is_none(), "only the named direction is set");
            assert!(t.backward.is_none() || bound_ok(t.backward, v), "accepted backward bound is a finite non-negative number");
        }
        kani::cover!(matches!(r, Ok(t) if t.backward.is_some()), "some backward bound accepted");
    }
}

// Both directions, independent values; one harness per key order.
crate::verif_common::harness! {
    #[kani::unwind(10)]
    #[kani::stub(alloc::fmt::format, crate::verif_common::fmt_format)]
    fn c39_p_map_both_fb_f64() {
        let f: f64 = kani::any();
        let b: f64 = kani::any();
        let r = de_map(vec![("forward", Val::F(f)), ("backward", Val::F(b))]);
        if let Ok(t) = r {
            assert!(t.forward.is_none() || bound_ok(t.forward, f), "accepted forward bound is a finite non-negative number");
            assert!(t.backward.is_none() || bound_ok(t.backward, b), "accepted backward bound is a finite non-negative number");
        }
        kani::cover!(matches!(r, Ok(t) if t.forward.is_some() && t.backward.is_some() && t.forward != t.backward), "two different bounds accepted");
    }
}

crate::verif_common::harness! {
    #[kani::unwind(10)]
    #[kani::stub(alloc::fmt::format, crate::verif_common::fmt_format)]
    fn c39_p_map_both_bf_f64() {
        let f: f64 = kani::any();
        let b: f64 = kani::any();
        let r = de_map(vec![("backward", Val::F(b)), ("forward", Val::F(f))]);
        if let Ok(t) = r {
            assert!(t.forward.is_none() || bound_ok(t.forward, f), "accepted forward bound is a finite non-negative number");
            assert!(t.backward.is_none() || bound_ok(t.backward, b), "accepted backward bound is a finite non-negative number");
        }
        kani::cover!(matches!(r, Ok(t) if t.forward.is_some() && t.backward.is_some() && t.forward != t.backward), "two different bounds accepted");
    }
}

// Integer values in the per-direction form (toml integers arrive as visit_i64).
crate::verif_common::harness! {
    #[kani::unwind(10)]
    #[kani::stub(alloc::fmt::format, crate::verif_common::fmt_format)]
    fn c39_p_map_i64() {
        let v: i64 = kani::any();
        let fwd: bool = kani::any();
        let r = de_map(vec![(if fwd { "forward" } else { "backward" }, Val::I(v))]);
        if let Ok(t) = r {
            let (set, other) = if fwd { (t.forward, t.backward) } else { (t.backward, t.forward) };
            assert!(other.is_none());
            assert!(set.is_none() || bound_ok(set, v as f64), "accepted integer bound is non-negative");
        }
        kani::cover!(r.is_ok(), "accepted");
    }
}

crate::verif_common::harness! {
    #[kani::unwind(10)]
    #[kani::stub(alloc::fmt::format, crate::verif_common::fmt_format)]
    fn c39_p_map_u64() {
        let v: u64 = kani::any();
        let fwd: bool = kani::any();
        let r = de_map(vec![(if fwd { "forward" } else { "backward" }, Val::U(v))]);
        let t = r.expect("every u64 is a valid bound");
        let (set, other) = if fwd { (t.forward, t.backward) } else { (t.backward, t.forward) };
        assert!(other.is_none());
        assert!(bound_ok(set, v as f64));
        kani::cover!(true, "reachable");
    }
}

// "inf" for a direction means no bound in that direction; the other direction keeps its number.
crate::verif_common::harness! {
    #[kani::unwind(10)]
    #[kani::stub(alloc::fmt::format, crate::verif_common::fmt_format)]
    fn c39_p_map_inf_and_number() {
        let v: u32 = kani::any();
        let t = if kani::any() {
            de_map(vec![("forward", vs("inf")), ("backward", Val::U(v as u64))]).expect("ok")
        } else {
            let t = de_map(vec![("backward", vs("inf")), ("forward", Val::U(v as u64))]).expect("ok");
            StepThreshold { forward: t.backward, backward: t.forward }
        };
        assert!(t.forward.is_none() && bound_ok(t.backward, v as f64));
        kani::cover!(true, "reachable");
    }
}

// {backward = "inf"} alone and the empty map: no bounds at all.
crate::verif_common::harness! {
    #[kani::unwind(10)]
    #[kani::stub(alloc::fmt::format, crate::verif_common::fmt_format)]
    fn c39_p_map_inf_only_and_empty() {
        let t = if kani::any() { de_map(vec![("backward", vs("inf"))]).expect("ok") } else { de_map(vec![]).expect("ok") };
        assert!(t.forward.is_none() && t.backward.is_none());
        kani::cover!(true, "reachable");
    }
}

// Any other string for a direction is rejected (in particular "nan" and "-inf").
crate::verif_common::harness! {
    #[kani::unwind(10)]
    #[kani::stub(alloc::fmt::format, crate::verif_common::fmt_format)]
    fn c39_p_map_bad_string() {
        let k: u8 = kani::any();
        kani::assume(k >= 1 && (k as usize) < STRS.len()); // every listed string except "inf"
        let r = de_map(vec![(if kani::any() { "forward" } else { "backward" }, Val::S(k))]);
        assert!(r.is_err());
        kani::cover!(true, "reachable");
    }
}

// Duplicate and unknown keys are rejected.
crate::verif_common::harness! {
    #[kani::unwind(10)]
    #[kani::stub(alloc::fmt::format, crate::verif_common::fmt_format)]
    fn c39_p_map_bad_keys() {
        let r = match kani::any::<u8>() {
            0 => de_map(vec![("forward", Val::U(1)), ("forward", Val::U(2))]),
            1 => de_map(vec![("backward", Val::U(1)), ("backward", Val::U(2))]),
            2 => de_map(vec![("forwards", Val::U(1))]),
            3 => de_map(vec![("backward", Val::U(1)), ("Forward", Val::U(1))]),
            _ => de_map(vec![("", Val::U(1))]),
        };
        assert!(r.is_err());
        kani::cover!(true, "reachable");
    }
}

// ThresholdPart on its own (the value deserializer of the map form), every f64.
crate::verif_common::harness! {
    #[kani::stub(alloc::fmt::format, crate::verif_common::fmt_format)]
    fn c39_p_part_f64() {
        let v: f64 = kani::any();
        let r = ThresholdPart::deserialize(F64Deserializer::<VErr>::new(v));
        if let Ok(ThresholdPart(Some(d))) = r {
            assert!(bound_ok(Some(d), v), "accepted per-direction bound is a finite non-negative number");
        }
        kani::cover!(r.is_ok(), "accepted");
    }
}

// ------------------------------------------------------------------ accumulated threshold

// `deserialize_option_accumulated_step_panic_threshold`: never panics for any f64; NaN/±inf ⇒ Err;
// exactly the zero duration ⇒ None ("no limit"); otherwise Some(from_seconds(v)).
crate::verif_common::harness! {
    #[kani::stub(alloc::fmt::format, crate::verif_common::fmt_format)]
    fn c39_p_accumulated_f64() {
        let v: f64 = kani::any();
        let r = deserialize_option_accumulated_step_panic_threshold(F64Deserializer::<VErr>::new(v));
        match r {
            Ok(None) => { assert!(!v.is_nan() && !v.is_infinite() && NtpDuration::from_seconds(v) == NtpDuration::ZERO) }
            Ok(Some(d)) => { assert!(!v.is_nan() && !v.is_infinite() && d != NtpDuration::ZERO && d == NtpDuration::from_seconds(v)) }
            // the statement allows (in fact asks for) rejecting negatives; anything else must be accepted
            Err(_) => { assert!(v.is_nan() || v.is_infinite() || v < 0.0) }
        }
        if v.is_nan() || v.is_infinite() {
            assert!(r.is_err());
        }
        if v == 0.0 {
            assert!(matches!(r, Ok(None)));
        }
        kani::cover!(matches!(r, Ok(None)) && v != 0.0, "sub-resolution value also maps to None");
        kani::cover!(matches!(r, Ok(Some(_))), "accepted");
        kani::cover!(r.is_err(), "rejected");
    }
}

// post⇐statement ("accepted step thresholds are never negative"): the accumulated-step threshold
// is a step threshold in single-number form, so an accepted one must not be negative.
crate::verif_common::harness! {
    #[kani::stub(alloc::fmt::format, crate::verif_common::fmt_format)]
    fn c39_p_accumulated_nonneg() {
        let v: f64 = kani::any();
        let r = deserialize_option_accumulated_step_panic_threshold(F64Deserializer::<VErr>::new(v));
        if let Ok(Some(d)) = r {
            assert!(d >= NtpDuration::ZERO, "accepted accumulated threshold is not negative");
        }
        kani::cover!(matches!(r, Ok(Some(_))), "accepted");
    }
}

// ------------------------------------------------------------------ canaries (must be refuted)

// FALSE claim: the single-number form accepts every finite number (it must reject negatives).
crate::verif_common::harness! {
    #[kani::stub(alloc::fmt::format, crate::verif_common::fmt_format)]
    fn c39_canary_single_accepts_all_finite() {
        let v: f64 = kani::any();
        kani::assume(v.is_finite());
        let r = StepThreshold::deserialize(F64Deserializer::<VErr>::new(v));
        assert!(r.is_ok());
    }
}

// FALSE claim: a map with a forward entry always leaves forward unset.
crate::verif_common::harness! {
    #[kani::unwind(10)]
    #[kani::stub(alloc::fmt::format, crate::verif_common::fmt_format)]
    fn c39_canary_map_never_sets_forward() {
        let v: u32 = kani::any();
        let r = de_map(vec![("forward", Val::U(v as u64))]);
        assert!(matches!(r, Ok(t) if t.forward.is_none()));
    }
}

#[cfg(all(kani, test))]
mod replay {
    use super::*;
    include!(concat!(env!("VERIF_REPLAY_DIR"), "/ntp_proto__config.rs"));
}
