// Contract harnesses for ntp-proto/src/keyset.rs (child module: sees private items).
// Property C27: stored cookie keys are restored exactly; any truncated or corrupted key file is
// either rejected or yields a key set that can be used (never one that crashes the daemon).
// Property C26 (id arithmetic part): rotation keeps the configured window, new cookies use the
// newest key, ids outside the window fail to decode.
//
// Readers have a CONCRETE total length in the harnesses that quantify over the `len` header field
// (so that the `for _ in 0..len` loop in `load` ends by reaching end-of-file after at most two keys);
// header and key bytes are fully symbolic.
#![allow(unused_imports)]
use super::*;

// zeroize's optimisation barrier is an empty inline-asm statement (unsupported by Kani): no-op model.
fn barrier_stub<T: ?Sized>(_val: &T) {}

// model of AesSivCmac512::new_random (thread_rng needs getrandom): an arbitrary 64-byte key
fn new_random_stub() -> AesSivCmac512 {
    key_of(kani::any())
}

fn key_of(bytes: [u8; 64]) -> AesSivCmac512 {
    AesSivCmac512::try_from(bytes).unwrap()
}

fn same_key(k: &AesSivCmac512, bytes: &[u8]) -> bool {
    let j: usize = kani::any();
    kani::assume(j < 64);
    k.key_bytes().len() == 64 && bytes.len() == 64 && k.key_bytes()[j] == bytes[j]
}

// "usable": what encode_cookie needs in order not to index out of bounds (keys[primary]).
fn usable(ks: &KeySet) -> bool {
    (ks.primary as usize) < ks.keys.len()
}

fn header(time: u64, id_offset: u32, primary: u32, len: u32) -> [u8; 20] {
    let mut h = [0u8; 20];
    h[0..8].copy_from_slice(&time.to_be_bytes());
    h[8..12].copy_from_slice(&id_offset.to_be_bytes());
    h[12..16].copy_from_slice(&primary.to_be_bytes());
    h[16..20].copy_from_slice(&len.to_be_bytes());
    h
}

// ---------------------------------------------------------------- C27: load
// (the header-only harnesses never build a key, so they run WITHOUT the zeroize barrier stub: with
// the stub CBMC unrolls the key-vector drop glue 66 x 64 times and needs > 600 s instead of 40 s)

// post<=statement ("never loads one that crashes it", "for any corrupted key file ... rejects it or
// loads"): load never panics, for EVERY 20-byte header (file = header only).
crate::verif_common::harness! {
    #[kani::unwind(66)]
    fn c27_p_load_header_never_panics() {
        let file: [u8; 20] = kani::any();
        let mut rd: &[u8] = &file[..];
        let r = KeySetProvider::load(&mut rd, kani::any());
        // a file without keys can never yield a usable key set (primary < number of keys)
        assert!(r.is_err(), "a key file holding no key is rejected");
        kani::cover!(u32::from_be_bytes([file[16], file[17], file[18], file[19]]) == 0, "zero keys announced");
        kani::cover!(file[0] == 0xff && file[1] == 0xff, "huge time field reachable");
    }
}

// Ok(ks) => usable, for every header whose time field is sane (< 2^40 s; the other time values are
// the subject of c27_p_load_header_never_panics) and a file holding no key.
crate::verif_common::harness! {
    #[kani::unwind(66)]
    fn c27_p_load_usable_0keys() {
        let (t, off, primary, len): (u64, u32, u32, u32) = (kani::any(), kani::any(), kani::any(), kani::any());
        kani::assume(t < (1 << 40));
        let file = header(t, off, primary, len);
        let mut rd: &[u8] = &file[..];
        let r = KeySetProvider::load(&mut rd, 1);
        if let Ok((p, _)) = &r {
            assert!(usable(&p.current), "a loaded key set has a primary key (primary < number of keys)");
        }
        kani::cover!(r.is_err(), "rejected");
    }
}

fn load_usable_with_keys<const N: usize>(nkeys: usize) {
    let (t, off, primary, len): (u64, u32, u32, u32) = (kani::any(), kani::any(), kani::any(), kani::any());
    kani::assume(t < (1 << 40));
    let mut file: [u8; N] = kani::any();
    file[..20].copy_from_slice(&header(t, off, primary, len));
    let mut rd: &[u8] = &file[..];
    let hist: usize = kani::any();
    let r = KeySetProvider::load(&mut rd, hist);
    match &r {
        Ok((p, time)) => {
            let ks = &p.current;
            assert!(len as usize <= nkeys, "more keys announced than present is rejected");
            assert!(ks.keys.len() == len as usize && ks.id_offset == off && ks.primary == primary && p.history == hist);
            assert!(*time == std::time::SystemTime::UNIX_EPOCH + std::time::Duration::from_secs(t));
            let k: usize = kani::any();
            kani::assume(k < ks.keys.len());
            assert!(same_key(&ks.keys[k], &file[20 + 64 * k..84 + 64 * k]), "keys are the file's bytes");
            assert!(usable(ks), "a loaded key set has a primary key (primary < number of keys)");
        }
        Err(_) => {
            // the only legitimate reasons: truncated (announces more keys than present) or bad primary
            assert!(len as usize > nkeys || primary >= len, "a healthy file is accepted");
        }
    }
    kani::cover!(matches!(&r, Ok((p, _)) if p.current.keys.len() == nkeys), "all keys loaded");
    kani::cover!(r.is_err(), "rejected");
}

// file = header + exactly one key (84 bytes), every header, every key.
crate::verif_common::harness! {
    #[kani::stub(zeroize::optimization_barrier, barrier_stub)]
    #[kani::unwind(66)]
    fn c27_tp_load_usable_1key() {
        load_usable_with_keys::<84>(1);
    }
}

// file = header + exactly two keys (148 bytes).
crate::verif_common::harness! {
    #[kani::stub(zeroize::optimization_barrier, barrier_stub)]
    #[kani::unwind(66)]
    fn c27_tb_load_usable_2keys() {
        load_usable_with_keys::<148>(2);
    }
}

// ---------------------------------------------------------------- C27: store, round trip, crash prefixes

// assumption A-clock: the system clock is at or after the Unix epoch (store's own `expect`)
fn now_stub() -> std::time::SystemTime {
    let s: u32 = kani::any();
    std::time::SystemTime::UNIX_EPOCH + std::time::Duration::from_secs(s as u64)
}

fn any_provider(nkeys: usize) -> (KeySetProvider, [[u8; 64]; 2]) {
    let raw: [[u8; 64]; 2] = kani::any();
    let mut keys = Vec::new();
    let mut k = 0;
    while k < nkeys {
        keys.push(key_of(raw[k]));
        k += 1;
    }
    let ks = KeySet { keys, id_offset: kani::any(), primary: kani::any() };
    kani::assume(usable(&ks)); // invariant of every key set built by new/rotate (C26)
    (KeySetProvider { current: Arc::new(ks), history: kani::any() }, raw)
}

fn store_load_roundtrip(nkeys: usize) {
    let (p, raw) = any_provider(nkeys);
    let mut file = [0u8; 148];
    let mut wr: &mut [u8] = &mut file[..];
    p.store(&mut wr).expect("store into a large enough file succeeds");
    let written = 148 - wr.len();
    assert!(written == 20 + 64 * nkeys, "store writes header + 64 bytes per key");
    // every strict prefix (crash point after the truncating open) is rejected, the full file loads
    let n: usize = kani::any();
    kani::assume(n <= written);
    let mut rd: &[u8] = &file[..n];
    let r = KeySetProvider::load(&mut rd, p.history);
    if n < written {
        assert!(r.is_err(), "a strict prefix of a stored file is rejected");
    } else {
        let (q, _) = r.expect("the complete file loads");
        assert!(q.current.id_offset == p.current.id_offset && q.current.primary == p.current.primary);
        assert!(q.current.keys.len() == nkeys && q.history == p.history);
        let k: usize = kani::any();
        kani::assume(k < nkeys);
        assert!(same_key(&q.current.keys[k], &raw[k][..]), "restored keys are the stored keys");
        assert!(usable(&q.current));
    }
    kani::cover!(n == written, "full file reachable");
    kani::cover!(n < written && n >= 20, "truncated key reachable");
}

crate::verif_common::harness! {
    #[kani::stub(zeroize::optimization_barrier, barrier_stub)]
    #[kani::unwind(66)]
    #[kani::stub(std::time::SystemTime::now, now_stub)]
    fn c27_tp_store_load_roundtrip_1key() {
        store_load_roundtrip(1);
    }
}

crate::verif_common::harness! {
    #[kani::stub(zeroize::optimization_barrier, barrier_stub)]
    #[kani::unwind(66)]
    #[kani::stub(std::time::SystemTime::now, now_stub)]
    fn c27_tb_store_load_roundtrip_2keys() {
        store_load_roundtrip(2);
    }
}

// ---------------------------------------------------------------- C26: new / rotate id arithmetic

// wf: at least one key and the newest key (last) is the primary one.
fn wf(ks: &KeySet) -> bool {
    !ks.keys.is_empty() && ks.primary as usize == ks.keys.len() - 1
}

crate::verif_common::harness! {
    #[kani::stub(zeroize::optimization_barrier, barrier_stub)]
    #[kani::stub(crate::packet::AesSivCmac512::new_random, new_random_stub)]
    #[kani::unwind(66)]
    fn c26_p_new_wf() {
        let h: usize = kani::any();
        let p = KeySetProvider::new(h);
        assert!(wf(&p.current) && p.current.keys.len() == 1 && p.current.id_offset == 0 && p.history == h);
        assert!(Arc::ptr_eq(&p.get(), &p.current));
        kani::cover!(true, "reachable");
    }
}

// rotate, from every wf key set of 1 or 2 keys, every id_offset, every history (0 included):
// keeps the last min(history, n) old keys in order followed by one fresh key, the fresh key is the
// primary, id_offset advances by the number of dropped keys (wrapping), so every retained key keeps
// its wire id and the dropped ones fall outside the window [id_offset', id_offset' + len').
fn rotate_contract(n: usize) {
    let (mut p, raw) = any_provider(n);
    kani::assume(wf(&p.current));
    let (off, hist) = (p.current.id_offset, p.history);
    p.rotate();
    let ks = &p.current;
    let kept = if hist < n { hist } else { n };
    let dropped = n - kept;
    assert!(ks.keys.len() == kept + 1, "history old keys + the fresh one");
    assert!(wf(ks), "newest key is primary");
    assert!(ks.id_offset == off.wrapping_add(dropped as u32), "id offset advances by the dropped count");
    assert!(p.history == hist);
    let j: usize = kani::any();
    kani::assume(j < kept);
    // old key at old index dropped + j (wire id off + dropped + j) sits at new index j (wire id off' + j)
    assert!(same_key(&ks.keys[j], &raw[dropped + j][..]), "retained keys keep their wire id");
    kani::cover!(dropped == 2, "two keys dropped at once (history 0)");
    kani::cover!(kept == 2, "both old keys retained");
}

crate::verif_common::harness! {
    #[kani::stub(zeroize::optimization_barrier, barrier_stub)]
    #[kani::stub(crate::packet::AesSivCmac512::new_random, new_random_stub)]
    #[kani::unwind(66)]
    fn c26_tb_rotate_2keys() {
        rotate_contract(2);
    }
}

// quick-tier instances of the same contract with the history fixed (the symbolic-history harness
// above needs more than 15 min): history 0 drops BOTH old keys at once (id_offset advances by 2),
// history 1 keeps the newer one. The old key set is kept alive by a second reference so that CBMC
// does not have to unroll the zeroising drop of the old keys.
fn rotate_contract_fixed_history(hist: usize) {
    let (mut p, raw) = any_provider(2);
    kani::assume(wf(&p.current));
    p.history = hist;
    let off = p.current.id_offset;
    let keep = p.current.clone();
    p.rotate();
    let ks = &p.current;
    let kept = if hist < 2 { hist } else { 2 };
    let dropped = 2 - kept;
    assert!(ks.keys.len() == kept + 1, "history old keys + the fresh one");
    assert!(wf(ks), "newest key is primary");
    assert!(ks.id_offset == off.wrapping_add(dropped as u32), "id offset advances by the dropped count");
    assert!(p.history == hist);
    if kept > 0 {
        let j: usize = kani::any();
        kani::assume(j < kept);
        assert!(same_key(&ks.keys[j], &raw[dropped + j][..]), "retained keys keep their wire id");
    }
    kani::cover!(off == u32::MAX, "offset wraps");
    core::mem::forget(keep);
    core::mem::forget(p);
}
crate::verif_common::harness! {
    #[kani::stub(zeroize::optimization_barrier, barrier_stub)]
    #[kani::stub(crate::packet::AesSivCmac512::new_random, new_random_stub)]
    #[kani::unwind(66)]
    fn c26_b_rotate_2keys_history0_drops_both() {
        rotate_contract_fixed_history(0);
    }
}
crate::verif_common::harness! {
    #[kani::stub(zeroize::optimization_barrier, barrier_stub)]
    #[kani::stub(crate::packet::AesSivCmac512::new_random, new_random_stub)]
    #[kani::unwind(66)]
    fn c26_b_rotate_2keys_history1_keeps_newest() {
        rotate_contract_fixed_history(1);
    }
}

// ---------------------------------------------------------------- C26: decode_cookie / encode_cookie key selection
// The real AES-SIV `decrypt`/`encrypt` make the Kani 0.68 compiler panic (intrinsics.rs:243: aes /
// cpufeatures intrinsics), so the two trait methods of `AesSivCmac512` are replaced by recording
// models (kani::stub on the trait implementation): which key was asked, with which slices. What is
// decided here is the id arithmetic of C26 -- which key a wire id selects and which wire id a new
// cookie carries; that AES-SIV itself authenticates is assumption A3.
use core::sync::atomic::{AtomicU8, AtomicUsize, Ordering::Relaxed};
static DEC_CALLS: crate::verif_common::Ghost<AtomicUsize> = crate::verif_common::Ghost::new(0x26d1c0ffee000001, AtomicUsize::new(0));
static DEC_KEY0: crate::verif_common::Ghost<AtomicU8> = crate::verif_common::Ghost::new(0x26d1c0ffee000002, AtomicU8::new(0));
static DEC_CT_LEN: crate::verif_common::Ghost<AtomicUsize> = crate::verif_common::Ghost::new(0x26d1c0ffee000003, AtomicUsize::new(0));
static DEC_NONCE_OFF: crate::verif_common::Ghost<AtomicUsize> = crate::verif_common::Ghost::new(0x26d1c0ffee000004, AtomicUsize::new(0));
static COOKIE_BASE: crate::verif_common::Ghost<AtomicUsize> = crate::verif_common::Ghost::new(0x26d1c0ffee000005, AtomicUsize::new(0));
static ENC_CALLS: crate::verif_common::Ghost<AtomicUsize> = crate::verif_common::Ghost::new(0x26d1c0ffee000006, AtomicUsize::new(0));
static ENC_KEY0: crate::verif_common::Ghost<AtomicU8> = crate::verif_common::Ghost::new(0x26d1c0ffee000007, AtomicU8::new(0));

fn decrypt_model(this: &AesSivCmac512, nonce: &[u8], ciphertext: &[u8], associated_data: &[u8]) -> Result<Vec<u8>, DecryptError> {
    DEC_CALLS.fetch_add(1, Relaxed);
    DEC_KEY0.store(this.key_bytes()[0], Relaxed);
    DEC_CT_LEN.store(ciphertext.len(), Relaxed);
    DEC_NONCE_OFF.store((nonce.as_ptr() as usize).wrapping_sub(COOKIE_BASE.load(Relaxed)), Relaxed);
    assert!(nonce.len() == 16 && associated_data.is_empty());
    Err(DecryptError)
}
fn encrypt_model(this: &AesSivCmac512, buffer: &mut [u8], plaintext_length: usize, _associated_data: &[u8]) -> std::io::Result<crate::packet::EncryptResult> {
    ENC_CALLS.fetch_add(1, Relaxed);
    ENC_KEY0.store(this.key_bytes()[0], Relaxed);
    assert!(buffer.len() >= plaintext_length + 32);
    Ok(crate::packet::EncryptResult { nonce_length: 16, ciphertext_length: plaintext_length + 16 })
}

// the 256-bit cipher only occurs as the type of the session keys inside a decoded cookie (vtable entries)
fn decrypt_model_256(_this: &crate::packet::AesSivCmac256, _nonce: &[u8], _ciphertext: &[u8], _associated_data: &[u8]) -> Result<Vec<u8>, DecryptError> {
    Err(DecryptError)
}
fn encrypt_model_256(_this: &crate::packet::AesSivCmac256, _buffer: &mut [u8], plaintext_length: usize, _associated_data: &[u8]) -> std::io::Result<crate::packet::EncryptResult> {
    Ok(crate::packet::EncryptResult { nonce_length: 16, ciphertext_length: plaintext_length + 16 })
}

// decode_cookie, for EVERY 2-key set (any id_offset, including a window that straddles the u32 wrap)
// and every 40-byte cookie: the wire id selects the key at index (id - id_offset) mod 2^32; an id
// outside [id_offset, id_offset + len) (mod 2^32) is rejected before any cipher is consulted; the
// cipher gets the 16 bytes at offset 6 as nonce and exactly the declared ciphertext bytes.
crate::verif_common::harness! {
    #[kani::stub(zeroize::optimization_barrier, barrier_stub)]
    #[kani::stub(<crate::packet::AesSivCmac512 as crate::packet::Cipher>::decrypt, decrypt_model)]
    #[kani::stub(<crate::packet::AesSivCmac512 as crate::packet::Cipher>::encrypt, encrypt_model)]
    #[kani::stub(<crate::packet::AesSivCmac256 as crate::packet::Cipher>::decrypt, decrypt_model_256)]
    #[kani::stub(<crate::packet::AesSivCmac256 as crate::packet::Cipher>::encrypt, encrypt_model_256)]
    #[kani::unwind(66)]
    fn c26_b_decode_selects_key_by_wire_id() {
        let (p, raw) = any_provider(2);
        kani::assume(raw[0][0] != raw[1][0]);
        let ks = &p.current;
        let cookie: [u8; 40] = kani::any();
        COOKIE_BASE.store(cookie.as_ptr() as usize, Relaxed);
        let id = u32::from_be_bytes([cookie[0], cookie[1], cookie[2], cookie[3]]);
        let ctlen = u16::from_be_bytes([cookie[4], cookie[5]]) as usize;
        let r = ks.decode_cookie(&cookie[..]);
        assert!(r.is_err(), "the model cipher rejects everything");
        let idx = id.wrapping_sub(ks.id_offset);
        if idx < 2 && ctlen <= 40 - 22 {
            assert!(DEC_CALLS.load(Relaxed) == 1, "a wire id inside the window reaches exactly one key");
            assert!(DEC_KEY0.load(Relaxed) == raw[idx as usize][0], "wire id id_offset + i selects key i");
            assert!(DEC_CT_LEN.load(Relaxed) == ctlen && DEC_NONCE_OFF.load(Relaxed) == 6);
        } else {
            assert!(DEC_CALLS.load(Relaxed) == 0, "ids outside the window / overlong ciphertext: no key is tried");
        }
        kani::cover!(ks.id_offset == u32::MAX && id == 0 && DEC_CALLS.load(Relaxed) == 1, "window straddling the u32 wrap");
        kani::cover!(idx == 2, "first id past the window");
        core::mem::forget(r);
    }
}

// encode_cookie, for every 2-key set: the PRIMARY key encrypts, the cookie carries the wire id
// primary + id_offset (mod 2^32), the declared ciphertext length and nothing but header + nonce +
// ciphertext. Together with the decode contract above: a cookie made by key i of a set decodes with
// key i of every later set that still holds that key at wire id id_offset + i (rotate contract).
fn session_cookie(a: [u8; 32], b: [u8; 32]) -> DecodedServerCookie {
    DecodedServerCookie {
        algorithm: AeadAlgorithm::AeadAesSivCmac256,
        s2c: Box::new(AesSivCmac256::try_from(&a[..]).unwrap()),
        c2s: Box::new(AesSivCmac256::try_from(&b[..]).unwrap()),
    }
}
crate::verif_common::harness! {
    #[kani::stub(zeroize::optimization_barrier, barrier_stub)]
    #[kani::stub(<crate::packet::AesSivCmac512 as crate::packet::Cipher>::decrypt, decrypt_model)]
    #[kani::stub(<crate::packet::AesSivCmac512 as crate::packet::Cipher>::encrypt, encrypt_model)]
    #[kani::stub(<crate::packet::AesSivCmac256 as crate::packet::Cipher>::decrypt, decrypt_model_256)]
    #[kani::stub(<crate::packet::AesSivCmac256 as crate::packet::Cipher>::encrypt, encrypt_model_256)]
    #[kani::unwind(66)]
    fn c26_b_encode_uses_primary_key_and_its_wire_id() {
        let (p, raw) = any_provider(2);
        kani::assume(raw[0][0] != raw[1][0]);
        let ks = &p.current;
        let c = session_cookie(kani::any(), kani::any());
        let out = ks.encode_cookie(&c);
        assert!(ENC_CALLS.load(Relaxed) == 1 && ENC_KEY0.load(Relaxed) == raw[ks.primary as usize][0], "the primary key encrypts");
        assert!(out.len() == 6 + 16 + (2 + 64 + 16));
        assert!(u32::from_be_bytes([out[0], out[1], out[2], out[3]]) == ks.primary.wrapping_add(ks.id_offset), "wire id = primary + id_offset");
        assert!(u16::from_be_bytes([out[4], out[5]]) as usize == 2 + 64 + 16, "declared ciphertext length");
        kani::cover!(ks.primary == 1 && ks.id_offset == u32::MAX, "wire id wraps");
        core::mem::forget(c);
    }
}

// (A round-trip harness decode(encode(c)) == c under an authenticating model cipher was tried and
// dropped: CBMC needs > 15 GB for the 130-byte plaintext copies.)

// short cookies (< 22 bytes) are rejected without consulting a key
crate::verif_common::harness! {
    #[kani::stub(zeroize::optimization_barrier, barrier_stub)]
    #[kani::stub(<crate::packet::AesSivCmac512 as crate::packet::Cipher>::decrypt, decrypt_model)]
    #[kani::stub(<crate::packet::AesSivCmac512 as crate::packet::Cipher>::encrypt, encrypt_model)]
    #[kani::stub(<crate::packet::AesSivCmac256 as crate::packet::Cipher>::decrypt, decrypt_model_256)]
    #[kani::stub(<crate::packet::AesSivCmac256 as crate::packet::Cipher>::encrypt, encrypt_model_256)]
    #[kani::unwind(66)]
    fn c26_b_decode_short_cookie_rejected() {
        let (p, _raw) = any_provider(1);
        let cookie: [u8; 21] = kani::any();
        let n: usize = kani::any();
        kani::assume(n <= 21);
        let r = p.current.decode_cookie(&cookie[..n]);
        assert!(r.is_err() && DEC_CALLS.load(Relaxed) == 0);
        core::mem::forget(r);
    }
}

// FALSE: ids below id_offset are never decoded (the window may wrap) -- must be refuted
crate::verif_common::harness! {
    #[kani::stub(zeroize::optimization_barrier, barrier_stub)]
    #[kani::stub(<crate::packet::AesSivCmac512 as crate::packet::Cipher>::decrypt, decrypt_model)]
    #[kani::stub(<crate::packet::AesSivCmac512 as crate::packet::Cipher>::encrypt, encrypt_model)]
    #[kani::stub(<crate::packet::AesSivCmac256 as crate::packet::Cipher>::decrypt, decrypt_model_256)]
    #[kani::stub(<crate::packet::AesSivCmac256 as crate::packet::Cipher>::encrypt, encrypt_model_256)]
    #[kani::unwind(66)]
    fn c26_canary_ids_below_offset_never_reach_a_key() {
        let (p, _raw) = any_provider(2);
        let cookie: [u8; 40] = kani::any();
        let id = u32::from_be_bytes([cookie[0], cookie[1], cookie[2], cookie[3]]);
        let r = p.current.decode_cookie(&cookie[..]);
        core::mem::forget(r);
        if id < p.current.id_offset {
            assert!(DEC_CALLS.load(Relaxed) == 0);
        }
    }
}

// ---------------------------------------------------------------- canaries

// FALSE: a truncated file (fewer than 20 header bytes) loads.
crate::verif_common::harness! {
    #[kani::unwind(66)]
    fn c27_canary_truncated_header_loads() {
        let file: [u8; 19] = kani::any();
        let mut rd: &[u8] = &file[..];
        assert!(KeySetProvider::load(&mut rd, 1).is_ok());
    }
}

// FALSE: a fresh provider starts with two keys.
crate::verif_common::harness! {
    #[kani::stub(zeroize::optimization_barrier, barrier_stub)]
    #[kani::stub(crate::packet::AesSivCmac512::new_random, new_random_stub)]
    #[kani::unwind(66)]
    fn c26_canary_new_has_two_keys() {
        let p = KeySetProvider::new(1);
        assert!(p.current.keys.len() == 2);
    }
}

// cross-module constructor (see common.rs FromParts): an EMPTY key set for harnesses in other
// modules that only hand the key set to stubbed callees (a key file without keys is rejected by
// KeySetProvider::load, and loading a real key costs CBMC a 64-iteration loop per key).
impl crate::verif_common::FromParts<()> for KeySet {
    fn from_parts(_: ()) -> Self {
        KeySet { keys: Vec::new(), id_offset: 0, primary: 0 }
    }
}


#[cfg(all(kani, test))]
mod replay {
    use super::*;
    include!(concat!(env!("VERIF_REPLAY_DIR"), "/ntp_proto__keyset.rs"));
}
