// Contract harnesses for ntp-proto/src/keyset.rs (child module: sees private items).
#![allow(unused_imports)]
use super::*;

#[cfg(all(kani, test))]
mod replay {
    use super::*;
    include!(concat!(env!("VERIF_REPLAY_DIR"), "/ntp_proto__keyset.rs"));
}
