// Shared stubs and the harness wrapper macro for ntp-proto contract harnesses.
#![allow(dead_code, unused_macros, unused_imports)]

// --- tracing: any reachable tracing macro makes Kani 0.68 ICE; logging is irrelevant to the
// properties, so the four entry points the macros expand to are stubbed (assumption A-log).
pub fn tr_interest(_: &'static tracing::callsite::DefaultCallsite) -> tracing::subscriber::Interest {
    tracing::subscriber::Interest::never()
}
pub fn tr_is_enabled(_: &tracing::Metadata<'static>, _: tracing::subscriber::Interest) -> bool {
    false
}
pub fn tr_dispatch<'a>(_: &'static tracing::Metadata<'static>, _: &'a tracing::field::ValueSet<'_>)
where
    'a: 'a,
{
}
pub fn tr_current() -> tracing::level_filters::LevelFilter {
    tracing::level_filters::LevelFilter::OFF
}

// --- std::collections::HashMap: RandomState::new() needs the getrandom syscall; the keys are
// replaced by fixed ones (hash values do not influence any property; assumption A-hash).
pub fn hashmap_keys() -> (u64, u64) {
    (0x0123_4567_89ab_cdef, 0x0f1e_2d3c_4b5a_6978)
}

// --- format!: error-path string formatting dominates CBMC cost and is irrelevant.
pub fn fmt_format(_: core::fmt::Arguments<'_>) -> String {
    String::new()
}

/// `harness!{ [attrs] fn name() { body } }` = #[kani::proof] + the tracing stubs.
macro_rules! harness {
    ($(#[$m:meta])* fn $name:ident() $body:block) => {
        #[kani::proof]
        #[kani::stub(tracing::callsite::DefaultCallsite::interest, crate::verif_common::tr_interest)]
        #[kani::stub(tracing::__macro_support::__is_enabled, crate::verif_common::tr_is_enabled)]
        #[kani::stub(tracing::Event::dispatch, crate::verif_common::tr_dispatch)]
        #[kani::stub(tracing::level_filters::LevelFilter::current, crate::verif_common::tr_current)]
        $(#[$m])*
        fn $name() $body
    };
}
pub(crate) use harness;

// --- VecMap: association-list stand-in for std::collections::HashMap, substituted by the
// declared source transform (see /verif/transforms.json) in the files that name HashMap.
// Same observable map semantics for the methods used (insert/remove/get/get_mut/iteration);
// drops hashing and makes iteration order = insertion order (assumption A-map).
#[derive(Debug, Clone)]
pub struct VecMap<K, V> {
    items: Vec<(K, V)>,
}
impl<K, V> Default for VecMap<K, V> {
    fn default() -> Self {
        VecMap { items: Vec::new() }
    }
}
impl<K: PartialEq, V> VecMap<K, V> {
    pub fn new() -> Self {
        VecMap { items: Vec::new() }
    }
    pub fn len(&self) -> usize {
        self.items.len()
    }
    pub fn is_empty(&self) -> bool {
        self.items.is_empty()
    }
    pub fn insert(&mut self, k: K, v: V) -> Option<V> {
        for item in self.items.iter_mut() {
            if item.0 == k {
                return Some(core::mem::replace(&mut item.1, v));
            }
        }
        self.items.push((k, v));
        None
    }
    pub fn remove(&mut self, k: &K) -> Option<V> {
        let mut idx = None;
        for (i, item) in self.items.iter().enumerate() {
            if item.0 == *k {
                idx = Some(i);
                break;
            }
        }
        // HashMap has no iteration order to preserve
        idx.map(|i| self.items.swap_remove(i).1)
    }
    pub fn get(&self, k: &K) -> Option<&V> {
        for item in self.items.iter() {
            if item.0 == *k {
                return Some(&item.1);
            }
        }
        None
    }
    pub fn get_mut(&mut self, k: &K) -> Option<&mut V> {
        for item in self.items.iter_mut() {
            if item.0 == *k {
                return Some(&mut item.1);
            }
        }
        None
    }
    pub fn contains_key(&self, k: &K) -> bool {
        self.get(k).is_some()
    }
    pub fn iter(&self) -> impl Iterator<Item = (&K, &V)> {
        self.items.iter().map(|(k, v)| (k, v))
    }
    pub fn values(&self) -> impl Iterator<Item = &V> {
        self.items.iter().map(|(_, v)| v)
    }
    pub fn values_mut(&mut self) -> impl Iterator<Item = &mut V> {
        self.items.iter_mut().map(|(_, v)| v)
    }
    pub fn keys(&self) -> impl Iterator<Item = &K> {
        self.items.iter().map(|(k, _)| k)
    }
}

// --- chan: stand-in for tokio::sync::mpsc unbounded channels (substituted by the declared source
// transform in algorithm/mod.rs): a FIFO queue with the same send/recv surface. Creating a real
// tokio channel does not terminate in CBMC. Drops wake-ups/closing semantics (assumption A-chan).
pub mod chan {
    use std::collections::VecDeque;
    use std::sync::{Arc, Mutex};
    pub struct UnboundedSender<T> {
        q: Arc<Mutex<VecDeque<T>>>,
    }
    pub struct UnboundedReceiver<T> {
        q: Arc<Mutex<VecDeque<T>>>,
    }
    #[derive(Debug)]
    pub struct SendError<T>(pub T);
    impl<T> Clone for UnboundedSender<T> {
        fn clone(&self) -> Self {
            UnboundedSender { q: self.q.clone() }
        }
    }
    pub fn unbounded_channel<T>() -> (UnboundedSender<T>, UnboundedReceiver<T>) {
        let q = Arc::new(Mutex::new(VecDeque::new()));
        (UnboundedSender { q: q.clone() }, UnboundedReceiver { q })
    }
    impl<T> UnboundedSender<T> {
        pub fn send(&self, t: T) -> Result<(), SendError<T>> {
            self.q.lock().unwrap().push_back(t);
            Ok(())
        }
    }
    impl<T> UnboundedReceiver<T> {
        pub async fn recv(&mut self) -> Option<T> {
            self.q.lock().unwrap().pop_front()
        }
        pub fn try_pop(&mut self) -> Option<T> {
            self.q.lock().unwrap().pop_front()
        }
        pub fn len(&self) -> usize {
            self.q.lock().unwrap().len()
        }
    }
}

// --- model_sort_by: stand-in for `<[T]>::sort_by` (substituted by the declared source transform in
// select.rs): plain insertion sort with the same contract (stable, sorted by the comparator).
// std's pattern-defeating/small-sort code does not terminate in CBMC even for 4 elements
// (assumption A-sort: std's sort_by sorts).
pub fn model_sort_by<T, F: FnMut(&T, &T) -> core::cmp::Ordering>(v: &mut [T], mut cmp: F) {
    let mut i = 1;
    while i < v.len() {
        let mut j = i;
        while j > 0 && cmp(&v[j - 1], &v[j]) == core::cmp::Ordering::Greater {
            v.swap(j - 1, j);
            j -= 1;
        }
        i += 1;
    }
}

// --- RandomState shim: stand-in for std::collections::hash_map::RandomState in
// ntp-proto/src/server.rs (declared source transform, see /verif/transforms.json).
// `RandomState::new()` needs the getrandom syscall and there is no other safe constructor.
// The shim's hasher ignores its input and returns an ARBITRARY u64 from `finish`, i.e. it
// over-approximates every hash function (including non-deterministic ones); harnesses that need
// "the same item hashes to the same slot" stub `TimestampedCache::index` by a memoised
// uninterpreted function instead (assumption A-hash).
#[derive(Debug, Clone)]
pub struct RandomState {
    _k: u64,
}
impl RandomState {
    pub fn new() -> Self {
        RandomState { _k: 0 }
    }
}
pub struct AnyHasher;
impl std::hash::Hasher for AnyHasher {
    fn write(&mut self, _bytes: &[u8]) {}
    fn finish(&self) -> u64 {
        kani::any()
    }
}
impl std::hash::BuildHasher for RandomState {
    type Hasher = AnyHasher;
    fn build_hasher(&self) -> AnyHasher {
        AnyHasher
    }
}

// --- cross-module constructors / observers (added for the source.rs units C07-C13, C33).
// Several types keep their fields private to the defining module (NtpPacket, NtpHeaderV3V4,
// RequestIdentifier, CookieStash, ...). A harness in another module (e.g. source.rs driving
// handle_incoming with an arbitrary decoded packet) cannot build them. Trait impls are not subject
// to module privacy, so the harness module of the *defining* file implements these two traits and
// any harness in the crate can use them. They only assemble / read fields; no behaviour.
pub trait FromParts<P>: Sized {
    fn from_parts(p: P) -> Self;
}
pub trait Parts<P> {
    fn parts(&self) -> P;
}
/// all fields of `packet::NtpHeaderV3V4`
#[derive(Clone, Copy)]
pub struct V3V4Parts {
    pub leap: crate::packet::NtpLeapIndicator,
    pub mode: crate::packet::NtpAssociationMode,
    pub stratum: u8,
    pub poll: crate::time_types::PollInterval,
    pub precision: i8,
    pub root_delay: crate::time_types::NtpDuration,
    pub root_dispersion: crate::time_types::NtpDuration,
    pub reference_id: crate::identifiers::ReferenceId,
    pub reference_timestamp: crate::time_types::NtpTimestamp,
    pub origin_timestamp: crate::time_types::NtpTimestamp,
    pub receive_timestamp: crate::time_types::NtpTimestamp,
    pub transmit_timestamp: crate::time_types::NtpTimestamp,
}
/// extension-field lists of a decoded packet: (authenticated, encrypted, untrusted)
pub type EfLists = (
    Vec<crate::packet::ExtensionField<'static>>,
    Vec<crate::packet::ExtensionField<'static>>,
    Vec<crate::packet::ExtensionField<'static>>,
);

// --- randomness: `rand::thread_rng()` / `rand::random()` are replaced (declared transform, see
// /verif/transforms.json) by a generator whose every draw is nondeterministic. The distribution
// code layered on top (gen_range, Standard for arrays / NtpTimestamp, ...) stays the real one.
pub struct NondetRng;
impl rand::RngCore for NondetRng {
    fn next_u32(&mut self) -> u32 {
        kani::any()
    }
    fn next_u64(&mut self) -> u64 {
        kani::any()
    }
    fn fill_bytes(&mut self, dest: &mut [u8]) {
        for b in dest.iter_mut() {
            *b = kani::any();
        }
    }
    fn try_fill_bytes(&mut self, dest: &mut [u8]) -> Result<(), rand::Error> {
        self.fill_bytes(dest);
        Ok(())
    }
}
pub fn thread_rng() -> NondetRng {
    NondetRng
}
pub fn random<T>() -> T
where
    rand::distributions::Standard: rand::distributions::Distribution<T>,
{
    use rand::Rng;
    NondetRng.r#gen()
}
