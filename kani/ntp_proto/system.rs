// Contract harnesses for ntp-proto/src/system.rs (child module: sees private items).
// Property C33: advertised stratum / reference id (NtpSnapshot::from_used_sources).
#![allow(unused_imports, dead_code)]
use super::*;
use crate::source::Reach;
use crate::time_types::PollInterval;
use crate::verif_common::{harness, FromParts, Parts};

fn any_server_id() -> (ServerId, [u16; 10]) {
    let v: [u16; 10] = kani::any();
    kani::assume(v[9] < 4096);
    kani::assume(v[0] < v[1] && v[1] < v[2] && v[2] < v[3] && v[3] < v[4] && v[4] < v[5]);
    kani::assume(v[5] < v[6] && v[6] < v[7] && v[7] < v[8] && v[8] < v[9]);
    (ServerId::from_parts(v), v)
}
fn any_version() -> ProtocolVersion {
    match kani::any::<u8>() % 4 {
        0 => ProtocolVersion::V4,
        1 => ProtocolVersion::V4UpgradingToV5 { tries_left: kani::any() },
        2 => ProtocolVersion::UpgradedToV5,
        _ => ProtocolVersion::V5,
    }
}
fn any_snapshot() -> SourceSnapshot {
    if kani::any() {
        let o: [u8; 4] = kani::any();
        let mut reach = Reach::never();
        if kani::any() {
            reach.received_packet();
        }
        SourceSnapshot::Ntp(NtpSourceSnapshot {
            source_addr: SocketAddr::new(IpAddr::V4(std::net::Ipv4Addr::new(o[0], o[1], o[2], o[3])), kani::any()),
            source_id: ReferenceId::from_int(kani::any()),
            poll_interval: PollInterval::from_byte(kani::any()),
            reach,
            stratum: kani::any(),
            reference_id: ReferenceId::from_int(kani::any()),
            protocol_version: any_version(),
            // Bloom filter contents are C34's subject; here: absent or empty (keeps the 512-byte unions concrete)
            bloom_filter: if kani::any() { Some(BloomFilter::new()) } else { None },
        })
    } else {
        SourceSnapshot::External { stratum: kani::any(), source_id: ReferenceId::from_int(kani::any()) }
    }
}
fn first_of(s: &SourceSnapshot) -> (u8, ReferenceId) {
    match s {
        SourceSnapshot::Ntp(n) => (n.stratum, n.source_id),
        SourceSnapshot::External { stratum, source_id } => (*stratum, *source_id),
    }
}
fn bit_set(bytes: &[u8; 512], idx: u16) -> bool {
    bytes[(idx / 8) as usize] & (1u8 << (idx % 8)) != 0
}

/// bound: at most 2 used sources (only the first one matters for stratum / reference id; the
/// others only feed the Bloom filter). All field values are symbolic.
fn from_used_sources_contract(n: usize) {
    let local_stratum: u8 = kani::any();
    // fixed valid server id: Bloom filter contents are C34's subject (symbolic bit indices into the
    // 512-byte filter cost minutes of solver time and add nothing to the stratum / reference-id claim)
    let idx: [u16; 10] = [3, 17, 200, 1023, 1024, 2047, 3000, 3500, 4000, 4095];
    let sid = ServerId::from_parts(idx);
    let a = any_snapshot();
    let b = any_snapshot();
    let list: Vec<SourceSnapshot> = match n {
        0 => vec![],
        1 => vec![a],
        _ => vec![a, b],
    };
    let snap = NtpSnapshot::from_used_sources(local_stratum, sid, list.into_iter());
    if n == 0 {
        assert!(snap.stratum == local_stratum);
        assert!(snap.reference_id == ReferenceId::NONE);
    } else {
        let (st, id) = first_of(&a);
        // one more than the primary source, saturating at 255 (no wrap to 0)
        assert!(snap.stratum as u16 == core::cmp::min(st as u16 + 1, 255));
        assert!(snap.reference_id == id);
    }
    // the advertised Bloom filter always contains this daemon's own server id (C33/C34 link)
    let bytes = snap.bloom_filter.as_bytes();
    let mut i = 0;
    while i < 10 {
        assert!(bit_set(bytes, idx[i]));
        i += 1;
    }
    assert!(snap.bloom_filter.contains_id(&sid));
    kani::cover!(n == 0 || first_of(&a).0 == 255, "reachable (with a source: saturation case)");
}

harness! {
    #[kani::unwind(514)]
    fn c33_p_advertise_no_source() {
        from_used_sources_contract(0);
    }
}
harness! {
    #[kani::unwind(514)]
    fn c33_b_advertise_one_source() {
        from_used_sources_contract(1);
    }
}
harness! {
    #[kani::unwind(514)]
    fn c33_tb_advertise_two_sources() {
        from_used_sources_contract(2);
    }
}
harness! {
    #[kani::unwind(514)]
    fn c33_canary_advertise_wraps() {
        // false: claims the stratum wraps around instead of saturating
        let sid = ServerId::from_parts([3, 17, 200, 1023, 1024, 2047, 3000, 3500, 4000, 4095]);
        let a = any_snapshot();
        let (st, _) = first_of(&a);
        let snap = NtpSnapshot::from_used_sources(kani::any(), sid, vec![a].into_iter());
        assert!(snap.stratum == st.wrapping_add(1));
    }
}

#[cfg(all(kani, test))]
mod replay {
    use super::*;
    include!(concat!(env!("VERIF_REPLAY_DIR"), "/ntp_proto__system.rs"));
}
