// Contract harnesses for ntp-proto/src/cookiestash.rs (child module: sees private items).
// Property C13: cookies are handed out once, oldest first; at most eight are kept (the newest);
// gap() == number of missing cookies.
//
// Abstract view of a stash: the queue  view = [cookies[(read+i) % 8] | i < valid].
// Type invariant wf: read < 8 && valid <= 8 (established by Default, preserved by store/get --
// checked below). Every harness quantifies over ALL (read, valid) satisfying wf and over tagged
// cookies (one arbitrary byte, or empty, per slot -- the code never looks inside a cookie).
#![allow(unused_imports, dead_code)]
use super::*;
use crate::verif_common::{FromParts, Parts};

/// (slots, read, valid)
impl FromParts<([Vec<u8>; MAX_COOKIES], usize, usize)> for CookieStash {
    fn from_parts(p: ([Vec<u8>; MAX_COOKIES], usize, usize)) -> Self {
        CookieStash { cookies: p.0, read: p.1, valid: p.2 }
    }
}
impl Parts<(usize, usize)> for CookieStash {
    fn parts(&self) -> (usize, usize) {
        (self.read, self.valid)
    }
}

fn tagged(t: u8, empty: bool) -> Vec<u8> {
    if empty { Vec::new() } else { vec![t] }
}
/// arbitrary well-formed stash; returns the tags (None = empty vector) per physical slot
fn any_stash() -> (CookieStash, [Option<u8>; 8]) {
    let t: [u8; 8] = kani::any();
    let e: [bool; 8] = kani::any();
    let read: usize = kani::any();
    let valid: usize = kani::any();
    kani::assume(read < 8 && valid <= 8);
    let cookies = [
        tagged(t[0], e[0]), tagged(t[1], e[1]), tagged(t[2], e[2]), tagged(t[3], e[3]),
        tagged(t[4], e[4]), tagged(t[5], e[5]), tagged(t[6], e[6]), tagged(t[7], e[7]),
    ];
    let mut tags = [None; 8];
    let mut i = 0;
    while i < 8 {
        tags[i] = if e[i] { None } else { Some(t[i]) };
        i += 1;
    }
    (CookieStash { cookies, read, valid }, tags)
}
fn slot_tag(s: &CookieStash, i: usize) -> Option<u8> {
    let c = &s.cookies[i];
    if c.is_empty() { None } else { Some(c[0]) }
}
/// i-th element of the abstract queue
fn view(s: &CookieStash, i: usize) -> Option<u8> {
    slot_tag(s, (s.read + i) % 8)
}

#[kani::proof]
#[kani::unwind(10)]
fn c13_p_default_is_empty_and_wf() {
    let s = CookieStash::default();
    assert!(s.read < 8 && s.valid == 0 && s.len() == 0 && s.is_empty() && s.gap() == 8);
    kani::cover!(true, "reachable");
}

/// store: view' == (view ++ [c]) restricted to its last 8 elements; wf preserved; never panics
#[kani::proof]
#[kani::unwind(10)]
fn c13_p_store_appends_keeps_newest_eight() {
    let (mut s, tags) = any_stash();
    let (read, valid) = (s.read, s.valid);
    let c: u8 = kani::any();
    s.store(vec![c]);
    assert!(s.read < 8 && s.valid <= 8);
    let n_after = if valid < 8 { valid + 1 } else { 8 };
    assert!(s.len() == n_after);
    let dropped = if valid < 8 { 0 } else { 1 }; // the oldest one is dropped when full
    let mut i = 0;
    while i < 8 {
        if i < n_after {
            let j = i + dropped; // index in (old view ++ [c])
            let want = if j < valid { tags[(read + j) % 8] } else { Some(c) };
            assert!(view(&s, i) == want);
            // stored cookies are kept whole (length 1 here), not truncated or merged
            assert!(want.is_none() || s.cookies[(s.read + i) % 8].len() == 1);
        }
        i += 1;
    }
    assert!(s.gap() as usize == 8 - n_after);
    kani::cover!(valid == 8 && read == 5, "overflow while wrapped reachable");
    kani::cover!(valid == 0, "empty reachable");
}

/// get: returns the oldest element, view' == view[1..], the slot is emptied (a cookie can be
/// handed out only once); None iff empty, and then nothing changes; wf preserved
#[kani::proof]
#[kani::unwind(10)]
fn c13_p_get_oldest_once() {
    let (mut s, tags) = any_stash();
    let (read, valid) = (s.read, s.valid);
    let r = s.get();
    assert!(s.read < 8 && s.valid <= 8);
    if valid == 0 {
        assert!(r.is_none());
        assert!(s.read == read && s.valid == 0);
        let mut i = 0;
        while i < 8 {
            assert!(slot_tag(&s, i) == tags[i]);
            i += 1;
        }
    } else {
        let got = r.unwrap();
        let got_tag = if got.is_empty() { None } else { Some(got[0]) };
        assert!(got_tag == tags[read]);
        assert!(got.len() <= 1);
        assert!(s.len() == valid - 1);
        // the handed-out cookie is no longer anywhere in the window, its slot is empty
        assert!(s.cookies[read].is_empty());
        let mut i = 0;
        while i < 8 {
            if i < valid - 1 {
                assert!(view(&s, i) == tags[(read + i + 1) % 8]);
            }
            i += 1;
        }
    }
    assert!(s.gap() as usize == 8 - s.len());
    assert!(s.is_empty() == (s.len() == 0));
    kani::cover!(valid == 8 && read == 7, "full wrapped reachable");
    kani::cover!(valid == 0, "empty reachable");
}

/// gap / len / is_empty over all well-formed index states
#[kani::proof]
#[kani::unwind(10)]
fn c13_p_gap_len() {
    let (s, _) = any_stash();
    assert!(s.len() == s.valid && s.len() <= 8);
    assert!(s.gap() as usize + s.len() == 8);
    assert!(s.is_empty() == (s.valid == 0));
    kani::cover!(s.gap() == 0, "full reachable");
}

/// two-step consequence used by C13's history argument: after get() the same cookie is not
/// returned again by the following get(), whatever is stored in between (tags distinct)
#[kani::proof]
#[kani::unwind(10)]
fn c13_p_no_cookie_twice() {
    let (mut s, tags) = any_stash();
    kani::assume(s.valid >= 1);
    // all cookies in the window non-empty and pairwise distinct, the new one distinct as well
    let c: u8 = kani::any();
    let mut i = 0;
    while i < 8 {
        if i < s.valid {
            let a = tags[(s.read + i) % 8];
            kani::assume(a.is_some() && a != Some(c));
            let mut j = 0;
            while j < i {
                kani::assume(tags[(s.read + j) % 8] != a);
                j += 1;
            }
        }
        i += 1;
    }
    let first = s.get().unwrap();
    if kani::any() {
        s.store(vec![c]);
    }
    let mut k = 0;
    while k < 9 {
        match s.get() {
            Some(x) => assert!(x != first),
            None => {}
        }
        k += 1;
    }
    assert!(s.is_empty());
    kani::cover!(true, "reachable");
}

#[kani::proof]
#[kani::unwind(10)]
fn c13_canary_lifo() {
    // false: claims the newest cookie is handed out first
    let (mut s, tags) = any_stash();
    kani::assume(s.valid >= 2);
    let newest = tags[(s.read + s.valid - 1) % 8];
    let oldest = tags[s.read];
    kani::assume(newest != oldest);
    let got = s.get().unwrap();
    let got_tag = if got.is_empty() { None } else { Some(got[0]) };
    assert!(got_tag == newest);
}

#[cfg(all(kani, test))]
mod replay {
    use super::*;
    include!(concat!(env!("VERIF_REPLAY_DIR"), "/ntp_proto__cookiestash.rs"));
}
