// Contract harnesses for statime-algo/src/lib.rs (child module: sees private items).
//
// C43 "The PTP clock controller reports and steers consistently"
//   c43_p_query_*            KalmanController::{clock_offset, clock_frequency} against the estimator
//                            state the controller holds (symbolic offset / frequency estimates).
//   c43_b_steer_*            KalmanControllerState::steer_clocks with one steered clock (bound),
//                            recording mock clock: every set_frequency argument within the clock's
//                            maximum; the controller's estimate moves by what was applied.
// C42 (controller level)     clone-then-replace: failing operations leave the controller unaltered.
#![allow(unused_imports, dead_code)]
use super::*;

use crate::estimator::EstimatorState;

// ---------------------------------------------------------------- shared by all statime-algo harness files
pub(crate) fn any_clock_id() -> ClockId {
    // ClockId is a private newtype around usize in statime-base; every usize is a valid id.
    unsafe { core::mem::transmute::<usize, ClockId>(kani::any()) }
}

pub(crate) fn any_link_id() -> LinkId {
    // LinkId(ClockId, ClockId, usize); type invariant established by LinkId::new: clocks differ.
    let l = unsafe { core::mem::transmute::<[usize; 3], LinkId>(kani::any()) };
    kani::assume(l.first_clock() != l.second_clock());
    l
}

pub(crate) fn any_timestamp() -> Timestamp<TAI> {
    unsafe { core::mem::transmute::<u128, Timestamp<TAI>>(kani::any()) }
}

pub(crate) fn ts_raw(t: Timestamp<TAI>) -> u128 {
    unsafe { core::mem::transmute::<Timestamp<TAI>, u128>(t) }
}

/// One row-owner of the state vector.
#[derive(Clone, Copy, PartialEq, Eq)]
pub(crate) enum Ent {
    Off(ClockId),
    Freq(ClockId),
    Delay(LinkId),
}

use core::sync::atomic::{AtomicU64, AtomicU8, Ordering::Relaxed};

// ---------------------------------------------------------------- recording clock (ghost state)
static FREQS: AtomicU8 = AtomicU8::new(0);
static FREQ_BITS: AtomicU64 = AtomicU64::new(0);
static FREQ_MAX_BITS: AtomicU64 = AtomicU64::new(0);
static FREQ_IN_RANGE: AtomicU8 = AtomicU8::new(1);
static STEPS: AtomicU8 = AtomicU8::new(0);
static STEP_HI: AtomicU64 = AtomicU64::new(0);
static STEP_LO: AtomicU64 = AtomicU64::new(0);

fn dur_raw(d: Duration) -> i128 {
    (Timestamp::<TAI>::UNIX_EPOCH + d - Timestamp::<TAI>::UNIX_EPOCH).verif_raw()
}
trait VerifRaw {
    fn verif_raw(self) -> i128;
}
impl VerifRaw for Duration {
    fn verif_raw(self) -> i128 {
        unsafe { core::mem::transmute::<Duration, i128>(self) }
    }
}
fn dur_from_raw(v: i128) -> Duration {
    unsafe { core::mem::transmute::<i128, Duration>(v) }
}

#[derive(Clone)]
struct MockClock {
    now: Timestamp<TAI>,
    cur_freq: f64,
    max_freq: f64,
}

impl Clock for MockClock {
    fn now(&self) -> Result<Timestamp<TAI>, ClockError> {
        Ok(self.now)
    }
    fn set_frequency(&self, freq: f64) -> Result<Timestamp<TAI>, ClockError> {
        FREQS.store(FREQS.load(Relaxed).saturating_add(1), Relaxed);
        FREQ_BITS.store(freq.to_bits(), Relaxed);
        FREQ_MAX_BITS.store(self.max_freq.to_bits(), Relaxed);
        // statement: "every frequency it sets on a clock lies within that clock's maximum frequency"
        if !(freq >= -self.max_freq && freq <= self.max_freq) {
            FREQ_IN_RANGE.store(0, Relaxed);
        }
        Ok(self.now)
    }
    fn get_frequency(&self) -> Result<f64, ClockError> {
        Ok(self.cur_freq)
    }
    fn max_frequency(&self) -> Result<f64, ClockError> {
        Ok(self.max_freq)
    }
    fn step_clock(&self, offset: Duration) -> Result<Timestamp<TAI>, ClockError> {
        STEPS.store(STEPS.load(Relaxed).saturating_add(1), Relaxed);
        let raw = offset.verif_raw();
        STEP_HI.store((raw >> 64) as u64, Relaxed);
        STEP_LO.store(raw as u64, Relaxed);
        Ok(self.now)
    }
    fn error_estimate_update(&self, _e: Duration, _m: Duration) -> Result<(), ClockError> {
        Ok(())
    }
    fn leap_update(&self, _l: LeapStatus) -> Result<(), ClockError> {
        Ok(())
    }
    fn synchronization_update(&self, _s: bool) -> Result<(), ClockError> {
        Ok(())
    }
}

fn recorded_step() -> Duration {
    dur_from_raw((((STEP_HI.load(Relaxed) as u128) << 64) | STEP_LO.load(Relaxed) as u128) as i128)
}

/// the real fixed-buffer storage, sized for one steered clock (2x2 matrices)
type S1 = NoAllocKalmanStorage<MockClock, 4>;

fn any_config() -> LinkFilterConfig {
    LinkFilterConfig {
        select_offset_uncertainty_window: kani::any(),
        select_link_uncertainty_window: kani::any(),
        select_delay_uncertainty_window: kani::any(),
        select_max_window_size: kani::any(),
        minimum_agreeing_sources: kani::any(),
    }
}

/// Controller state around an ARBITRARY well-formed one-clock estimator state (symbolic clock id,
/// time, offset / frequency estimates, 2x2 covariance, wander) and a symbolic mock clock.
fn any_state_1clock() -> (KalmanControllerState<S1, MockClock>, ClockId) {
    any_state_1clock_at::<S1>(None)
}

/// the real allocating storage (Vec / Box<[f64]>), used for the steering harnesses
type SS = StdKalmanStorage<MockClock>;

/// `same_time`: Some(()) makes the mock clock read exactly the estimator's time.
fn any_state_1clock_at<S: KalmanStorageInternal<MockClock>>(
    same_time: Option<()>,
) -> (KalmanControllerState<S, MockClock>, ClockId) {
    let est = EstimatorState::<S>::verif_any(1, 0, 0);
    kani::assume(est.verif_wf(1, 0, 0));
    let id = est.verif_clock_id(0);
    let now = if same_time.is_some() { est.verif_time() } else { any_timestamp() };
    let filter = LinkFilter::<S>::verif_from_estimator(est);
    let mut clocks = <S as KalmanStorageInternal<MockClock>>::SteeredClockStorage::new();
    clocks.push(ClockInfo {
        id,
        clock: MockClock { now, cur_freq: kani::any(), max_freq: kani::any() },
    });
    (KalmanControllerState { clocks, filter, filter_config: any_config(), root_delay: Duration::ZERO }, id)
}

fn same_f64(a: f64, b: f64) -> bool {
    a == b || (a.is_nan() && b.is_nan())
}

// ---------------------------------------------------------------- C43: queries

/// post (statement): the frequency query reports the estimated FREQUENCY of the requested clock
/// (value and uncertainty as held by the estimator), not its offset. Complete: loop bounds are
/// literal (one clock), every f64 / id / timestamp is symbolic.
#[kani::proof]
#[kani::unwind(6)]
fn c43_p_query_frequency_reports_frequency() {
    let (state, id) = any_state_1clock();
    let est_freq = state.filter.verif_estimator().clock_frequency(id).unwrap();
    let est_freq_value_bits = state.filter.verif_estimator().verif_value_bits(Ent::Freq(id));
    let c = KalmanController::<S1, MockClock> {
        state: <S1 as KalmanStorageInternal<MockClock>>::StateMutex::new(state),
    };
    let r = c.clock_frequency(id).expect("known clock");
    // clock_frequency reports the frequency estimate held by the estimator
    assert!(r.value.to_bits() == est_freq_value_bits);
    assert!(r.value.to_bits() == est_freq.value.to_bits());
    kani::cover!(true, "reachable");
}

/// post: the offset query reports the offset estimate of the requested clock.
#[kani::proof]
#[kani::unwind(6)]
fn c43_p_query_offset_reports_offset() {
    let (state, id) = any_state_1clock();
    let est_off_value_bits = state.filter.verif_estimator().verif_value_bits(Ent::Off(id));
    let c = KalmanController::<S1, MockClock> {
        state: <S1 as KalmanStorageInternal<MockClock>>::StateMutex::new(state),
    };
    let r = c.clock_offset(id).expect("known clock");
    assert!(r.value.to_bits() == est_off_value_bits);
    // unknown ids are an error for both queries
    let other = any_clock_id();
    if other != id {
        assert!(c.clock_offset(other) == Err(AlgoError::UnknownClock(other)));
        assert!(c.clock_frequency(other) == Err(AlgoError::UnknownClock(other)));
    }
    kani::cover!(true, "reachable");
}

/// canary: "the frequency query returns the offset estimate" must be refutable (it is what the
/// current code does, so this canary only bites once the defect is repaired - see the second one).
#[kani::proof]
#[kani::unwind(6)]
fn c43_canary_query_offset_is_frequency() {
    let (state, id) = any_state_1clock();
    let f = state.filter.verif_estimator().verif_value_bits(Ent::Freq(id));
    let c = KalmanController::<S1, MockClock> {
        state: <S1 as KalmanStorageInternal<MockClock>>::StateMutex::new(state),
    };
    let r = c.clock_offset(id).expect("known clock");
    assert!(r.value.to_bits() == f);
}

// ---------------------------------------------------------------- C43: steering

fn reset_ghost() {
    FREQS.store(0, Relaxed);
    STEPS.store(0, Relaxed);
    FREQ_IN_RANGE.store(1, Relaxed);
}

struct SteerCtx {
    state: KalmanControllerState<SS, MockClock>,
    progressed: Result<LinkFilter<SS>, AlgoError>,
    r: Result<(), AlgoError>,
    id: ClockId,
    cur: f64,
    max: f64,
    now: Timestamp<TAI>,
}

/// Shared body: build the state, run the real steer_clocks, check claim (1).
/// `advance`: whether the clock's `now` may differ from the filter time (then steer_clocks first
/// progresses the filter: 2x2 matrix products).
fn steer_1clock(advance: bool, assume_sane: bool) -> SteerCtx {
    reset_ghost();
    let (mut state, id) = any_state_1clock_at::<SS>(if advance { None } else { Some(()) });
    let est0 = state.filter.verif_estimator();
    let now = state.clocks[0].clock.now;
    let cur = state.clocks[0].clock.cur_freq;
    let max = state.clocks[0].clock.max_freq;
    // clock contract: the maximum is a non-negative number, the current steer is finite
    kani::assume(max >= 0.0);
    kani::assume(cur.is_finite());
    let f0 = f64::from_bits(est0.verif_value_bits(Ent::Freq(id)));
    let o0 = f64::from_bits(est0.verif_value_bits(Ent::Off(id)));
    if assume_sane {
        // estimator invariant assumed: estimates are numbers (no NaN)
        kani::assume(!f0.is_nan() && !o0.is_nan());
    }
    // what the estimate is at `now` before any steering (the real progress_time)
    let progressed = if advance { state.filter.clone().progress_time(now) } else { Ok(state.filter.clone()) };
    let r = state.steer_clocks();
    // (1) every frequency set lies within the clock's maximum
    assert!(FREQ_IN_RANGE.load(Relaxed) == 1, "set_frequency argument within [-max, max]");
    SteerCtx { state, progressed, r, id, cur, max, now }
}

/// claims (2) and (3): the controller's own estimate follows what was applied.
fn check_follow(ctx: SteerCtx) {
    let SteerCtx { state, progressed, r, id, cur, max, now } = ctx;
    if r.is_ok() {
        let progressed = progressed.expect("steer_clocks succeeded, so time did not move backwards");
        let pe = progressed.verif_estimator();
        let po = f64::from_bits(pe.verif_value_bits(Ent::Off(id)));
        let pf = f64::from_bits(pe.verif_value_bits(Ent::Freq(id)));
        let ne = state.filter.verif_estimator();
        let no = f64::from_bits(ne.verif_value_bits(Ent::Off(id)));
        let nf = f64::from_bits(ne.verif_value_bits(Ent::Freq(id)));
        let nfreq = FREQS.load(Relaxed);
        let nstep = STEPS.load(Relaxed);
        assert!(nfreq + nstep == 1, "exactly one actuation per clock and round");
        if nfreq == 1 {
            // (2) frequency change applied = x - cur; the frequency estimate moves by it, the
            // offset estimate does not move
            let x = f64::from_bits(FREQ_BITS.load(Relaxed));
            assert!(same_f64(nf, pf + (x - cur)), "frequency estimate follows the applied change");
            assert!(same_f64(no, po), "offset estimate untouched by a frequency change");
            assert!(ts_raw(ne.verif_time()) == ts_raw(now));
        } else {
            // (3) step D applied; the offset estimate moves by D, the frequency estimate does not
            let d = recorded_step();
            assert!(same_f64(no, po + d.as_seconds()), "offset estimate follows the applied step");
            assert!(same_f64(nf, pf), "frequency estimate untouched by a step");
            // the system clock was stepped, so the filter's time base moves with it
            assert!(ts_raw(ne.verif_time()) == ts_raw(now + d));
        }
        kani::cover!(nfreq == 1, "frequency steering reachable");
        kani::cover!(nstep == 1, "stepping reachable");
        kani::cover!(nfreq == 1 && f64::from_bits(FREQ_BITS.load(Relaxed)) == max && max > 0.0, "clamping reachable");
    } else {
        // failing leaves no trace on the clock
        assert!(FREQS.load(Relaxed) == 0 && STEPS.load(Relaxed) == 0, "no actuation on the error path");
    }
}

/// claim (1) only: every set_frequency argument lies within [-max, max].
/// bound: one steered clock, no links, the clock reads exactly the filter time (no progression).
#[kani::proof]
#[kani::unwind(6)]
#[kani::stub(crate::filter::LinkFilter::find_external_consensus_window, crate::filter::verif::no_links_no_window)]
fn c43_b_steer_1clock_freq_within_max() {
    let ctx = steer_1clock(false, true);
    kani::cover!(FREQS.load(Relaxed) == 1, "frequency steering reachable");
    kani::cover!(
        FREQS.load(Relaxed) == 1 && f64::from_bits(FREQ_BITS.load(Relaxed)) == ctx.max && ctx.max > 0.0,
        "clamping reachable"
    );
}

/// claims (1)-(3). Same bound. Thorough tier: > 20 min of SAT time on the (heavily loaded) build machine.
#[kani::proof]
#[kani::unwind(6)]
#[kani::stub(crate::filter::LinkFilter::find_external_consensus_window, crate::filter::verif::no_links_no_window)]
fn c43_tb_steer_1clock_same_time() {
    check_follow(steer_1clock(false, true));
}

/// as above with an arbitrary clock reading (filter progressed through the real progress_time)
#[kani::proof]
#[kani::unwind(6)]
#[kani::stub(crate::filter::LinkFilter::find_external_consensus_window, crate::filter::verif::no_links_no_window)]
fn c43_tb_steer_1clock_progress() {
    check_follow(steer_1clock(true, true));
}

// NOTE (not machine-checked here, too costly for a canary): without the "estimates are not NaN"
// assumption the range claim is false - a NaN frequency estimate flows through f64::clamp to
// set_frequency(NaN); `steer_1clock(false, false)` (assume_sane = false) is the corresponding refutable claim.

// ---------------------------------------------------------------- C42: controller level

/// post (statement): controller operations on unknown identifiers fail WITHOUT altering the
/// controller (clone-then-replace in remove_clock / remove_external_clock): the filter is
/// bit-identical afterwards and the steered-clock list keeps its length.
/// bound: one steered clock, no links, no external clocks.
#[kani::proof]
#[kani::unwind(6)]
fn c42_tb_controller_failed_ops_unaltered() {
    let (state, id) = any_state_1clock();
    let before = state.filter.clone();
    let c = KalmanController::<S1, MockClock> {
        state: <S1 as KalmanStorageInternal<MockClock>>::StateMutex::new(state),
    };
    let other = any_clock_id();
    let which: u8 = kani::any();
    let r = match which {
        0 => c.remove_clock(other),
        1 => c.remove_external_clock(other),
        _ => c.remove_clock(id), // the system clock itself
    };
    if which == 0 && other != id {
        assert!(r == Err(AlgoError::UnknownClock(other)));
    }
    if which == 1 {
        assert!(r == Err(AlgoError::UnknownClock(other)), "no external clocks exist");
    }
    if which >= 2 || (which == 0 && other == id) {
        assert!(r == Err(AlgoError::CannotRemoveSystemClock(id)));
    }
    assert!(r.is_err());
    let same = c.state.with_ref(|st| st.filter.verif_same(&before) && st.clocks.len() == 1 && st.clocks[0].id == id);
    assert!(same, "failed operation left the controller unaltered");
    kani::cover!(which == 0 && other != id, "unknown clock reachable");
    kani::cover!(which == 1, "unknown external reachable");
}

#[cfg(all(kani, test))]
mod replay {
    extern crate std;
    #[allow(unused_imports)]
    use std::{vec, vec::Vec};
    use super::*;
    include!(concat!(env!("VERIF_REPLAY_DIR"), "/statime_algo__lib.rs"));
}
