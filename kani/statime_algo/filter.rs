// Contract harnesses for statime-algo/src/filter.rs (child module: sees private items).
#![allow(unused_imports)]
use super::*;

#[cfg(all(kani, test))]
mod replay {
    use super::*;
    include!(concat!(env!("VERIF_REPLAY_DIR"), "/statime_algo__filter.rs"));
}
