// Contract harnesses for statime-algo/src/filter.rs (child module: sees private items).
// Only constructors / observers used by the harnesses in lib.rs (C42 controller level, C43).
#![allow(unused_imports, dead_code)]
use super::*;

impl<Storage: KalmanStorageBase> LinkFilter<Storage> {
    /// A filter without links around the given estimator state.
    pub(crate) fn verif_from_estimator(est: EstimatorState<Storage>) -> Self {
        LinkFilter { links: LinkInfoList::new(), estimation_state: est }
    }
    pub(crate) fn verif_estimator(&self) -> &EstimatorState<Storage> {
        &self.estimation_state
    }
    pub(crate) fn verif_n_links(&self) -> usize {
        self.links.0.len()
    }
    /// Bit-for-bit equality of two filters (estimator: all fields; links: id, active flag, kind).
    pub(crate) fn verif_same(&self, o: &Self) -> bool {
        let mut ok = self.estimation_state.verif_same(&o.estimation_state) && self.links.0.len() == o.links.0.len();
        if !ok {
            return false;
        }
        for i in 0..self.links.0.len() {
            let (a, b) = (&self.links.0[i], &o.links.0[i]);
            ok &= a.id == b.id
                && a.active == b.active
                && a.link_state.is_tracked() == b.link_state.is_tracked()
                && a.external_link_state.is_some() == b.external_link_state.is_some();
        }
        ok
    }
}

/// Contract of `find_external_consensus_window` for a filter WITHOUT links (the steering harnesses
/// of C43 run without links): there is no window. Used as a stub there because the real function
/// sorts a (then empty) bounds list and CBMC explores the whole sort implementation; the contract
/// is discharged against the real function by `c43_b_no_links_no_window`.
pub(crate) fn no_links_no_window<Storage: KalmanStorageBase>(
    this: &LinkFilter<Storage>,
    _config: &LinkFilterConfig,
) -> Option<OffsetWindow> {
    assert!(this.links.0.len() == 0, "stub contract: only valid without links");
    None
}

#[kani::proof]
#[kani::unwind(6)]
fn c43_b_no_links_no_window() {
    type S = crate::storage::NoAllocKalmanStorage<(), 4>;
    let est = EstimatorState::<S>::verif_any(1, 0, 0);
    kani::assume(est.verif_wf(1, 0, 0));
    let filter = LinkFilter::<S>::verif_from_estimator(est);
    let config = LinkFilterConfig {
        select_offset_uncertainty_window: kani::any(),
        select_link_uncertainty_window: kani::any(),
        select_delay_uncertainty_window: kani::any(),
        select_max_window_size: kani::any(),
        minimum_agreeing_sources: kani::any(),
    };
    assert!(filter.find_external_consensus_window(&config).is_none());
    assert!(filter.leap_vote(&config).is_none());
    assert!(filter.local_root_delay(&config).is_none());
    kani::cover!(true, "reachable");
}

#[cfg(all(kani, test))]
mod replay {
    extern crate std;
    #[allow(unused_imports)]
    use std::{vec, vec::Vec};
    use super::*;
    include!(concat!(env!("VERIF_REPLAY_DIR"), "/statime_algo__filter.rs"));
}
