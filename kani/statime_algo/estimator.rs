// Contract harnesses for statime-algo/src/estimator.rs (child module: sees private items).
//
// Property C42: "The multi-clock estimator keeps unrelated estimates intact".
//
// Method: the data-structure invariant `wf` (ids unique, internal/external disjoint, the index
// blocks of clocks (2 rows) and links (1 row) tile 0..rows exactly, matrix shapes match) is shown
// INDUCTIVE: every harness starts from an ARBITRARY well-formed state of bounded size (symbolic
// number of clocks/links, symbolic ids, symbolic row layout, symbolic f64 matrix contents) - a
// superset of the reachable states - runs ONE real operation and checks from the statement:
//   * result well-formed again,
//   * the id lists changed by exactly the requested id,
//   * every OTHER clock's / link's reported value and variance, and every covariance between two
//     surviving entities, is bit-identical before and after (f64::to_bits),
//   * unknown / duplicate ids => Err,
//   * progress_time: backwards => Err, otherwise time == new_time.
// Bound: <= 3 internal clocks, <= 2 links, <= 2 external clocks (matrix <= 8x8), storage
// NoAllocKalmanStorage<_, 64> (the real fixed-buffer storage).
//
// CBMC's sqrt()/powi() models are relational (not bit-deterministic), therefore the reported
// *uncertainty* (= sqrt of a diagonal entry) is compared through its argument, the diagonal entry.
#![allow(unused_imports, dead_code)]
use super::*;
use crate::storage::{MatrixStorage, NoAllocKalmanStorage};
use arrayvec::ArrayVec;

// ---------------------------------------------------------------------------------------------
// Storage instance used by the harnesses.
//
// The estimator is generic over `KalmanStorageBase`. The two storages shipped with the crate
// initialise a matrix with a loop over all cells (`array::from_fn` / `collect`), which forces an
// unwinding bound of rows^2+1 = 65 on EVERY loop of the harness (CBMC cannot keep list lengths
// constant across the `Result<Self, _>` the operations return). `VMat` is the same fixed buffer
// as `[f64; N]` (N <= 64) with a loop-free initialiser; the lists are the crate's own `Vec`
// storages (a pointer into a small heap object is far cheaper for CBMC than one into the state). `c42_p_matrix_storage_new_*` show that the shipped initialisers compute the
// same cells.
#[derive(Clone, Debug)]
pub(crate) struct VMat<const N: usize>([f64; N]);
impl<const N: usize> AsRef<[f64]> for VMat<N> {
    fn as_ref(&self) -> &[f64] {
        &self.0
    }
}
impl<const N: usize> AsMut<[f64]> for VMat<N> {
    fn as_mut(&mut self) -> &mut [f64] {
        &mut self.0
    }
}
macro_rules! fill_cells {
    ($a:ident, $len:ident, $data:ident; $($i:literal)*) => {
        $( if $i < $len && $i < N { $a[$i] = $data($i); } )*
    };
}
impl<const N: usize> MatrixStorage for VMat<N> {
    fn new(len: usize, mut data: impl FnMut(usize) -> f64) -> Self {
        assert!(len <= N && N <= 64);
        let mut a = [0.0f64; N];
        fill_cells!(a, len, data; 0 1 2 3 4 5 6 7 8 9 10 11 12 13 14 15 16 17 18 19 20 21 22 23 24 25 26 27 28 29 30 31 32 33 34 35 36 37 38 39 40 41 42 43 44 45 46 47 48 49 50 51 52 53 54 55 56 57 58 59 60 61 62 63);
        VMat(a)
    }
}

#[derive(Clone, Debug)]
pub(crate) struct SE<const N: usize>;
impl<const N: usize> KalmanStorageBase for SE<N> {
    type MatrixStorage = VMat<N>;
    type ExternalClockStorage = std::vec::Vec<ClockId>;
    type InternalClockStorage = std::vec::Vec<ClockInfo>;
    type EstimatorLinkStorage = std::vec::Vec<LinkInfo>;
    type FilterLinkStorage = std::vec::Vec<crate::filter::LinkInfo>;
    type BoundStorage = std::vec::Vec<(f64, crate::filter::BoundType)>;
}
const MAXC: usize = 3;
const MAXL: usize = 2;
const MAXE: usize = 2;

use crate::verif::{any_clock_id, any_link_id, any_timestamp, ts_raw, Ent};

impl<Storage: KalmanStorageBase> EstimatorState<Storage> {
    /// Arbitrary estimator state with at most the given numbers of clocks / links / external
    /// clocks; NOT yet assumed well-formed.
    pub(crate) fn verif_any(nc: usize, nl: usize, ne: usize) -> Self {
        let rows = nc * ClockInfo::SIZE + nl * LinkInfo::SIZE;
        let mut clock_info = ClockInfoList::<Storage::InternalClockStorage>::new();
        for _ in 0..nc {
            clock_info.0.push(ClockInfo {
                id: any_clock_id(),
                base_index: kani::any(),
                wander: kani::any(),
            });
        }
        let mut link_info = LinkInfoList::<Storage::EstimatorLinkStorage>::new();
        for _ in 0..nl {
            link_info.0.push(LinkInfo {
                id: any_link_id(),
                index: kani::any(),
                decay_rate: kani::any(),
            });
        }
        let mut external_clocks = ExternalClockList::<Storage::ExternalClockStorage>::new();
        for _ in 0..ne {
            external_clocks.0.push(any_clock_id());
        }
        Self {
            time: any_timestamp(),
            state: Matrix::new_vec(rows, |_| kani::any()),
            uncertainty: Matrix::new(rows, rows, |_, _| kani::any()),
            clock_info,
            external_clocks,
            link_info,
        }
    }

    /// The data-structure invariant of the estimator.
    /// (nc, nl, ne are the expected list lengths, passed as constants so that the loops below
    /// have literal bounds; the lengths themselves are part of the predicate.)
    pub(crate) fn verif_wf(&self, nc: usize, nl: usize, ne: usize) -> bool {
        let rows = nc * ClockInfo::SIZE + nl * LinkInfo::SIZE;
        let mut ok = self.clock_info.0.len() == nc
            && self.link_info.0.len() == nl
            && self.external_clocks.0.len() == ne
            && self.state.cols() == 1
            && self.state.rows() == rows
            && self.uncertainty.rows() == rows
            && self.uncertainty.cols() == rows;
        if !ok {
            return false;
        }
        // ids unique, internal and external disjoint
        for i in 0..nc {
            for j in 0..i {
                ok &= self.clock_info.0[i].id != self.clock_info.0[j].id;
            }
            for j in 0..ne {
                ok &= self.clock_info.0[i].id != self.external_clocks.0[j];
            }
        }
        for i in 0..ne {
            for j in 0..i {
                ok &= self.external_clocks.0[i] != self.external_clocks.0[j];
            }
        }
        for i in 0..nl {
            for j in 0..i {
                ok &= self.link_info.0[i].id != self.link_info.0[j].id;
            }
        }
        // index blocks in range ...
        for i in 0..nc {
            let b = self.clock_info.0[i].base_index;
            ok &= b < rows && b < rows - 1;
        }
        for i in 0..nl {
            ok &= self.link_info.0[i].index < rows;
        }
        // ... and every row has exactly one owner (bijection entities <-> rows, given the count)
        for r in 0..rows {
            let mut owners = 0usize;
            for i in 0..nc {
                let b = self.clock_info.0[i].base_index;
                if b == r || (b < usize::MAX && b + 1 == r) {
                    owners += 1;
                }
            }
            for i in 0..nl {
                if self.link_info.0[i].index == r {
                    owners += 1;
                }
            }
            ok &= owners == 1;
        }
        ok
    }

    pub(crate) fn verif_n_clocks(&self) -> usize {
        self.clock_info.0.len()
    }
    pub(crate) fn verif_n_links(&self) -> usize {
        self.link_info.0.len()
    }
    pub(crate) fn verif_n_external(&self) -> usize {
        self.external_clocks.0.len()
    }
    pub(crate) fn verif_clock_id(&self, i: usize) -> ClockId {
        self.clock_info.0[i].id
    }
    pub(crate) fn verif_link_id(&self, i: usize) -> LinkId {
        self.link_info.0[i].id
    }
    pub(crate) fn verif_external_id(&self, i: usize) -> ClockId {
        self.external_clocks.0[i]
    }
    pub(crate) fn verif_time(&self) -> Timestamp<TAI> {
        self.time
    }

    /// Row of an entity, looked up by id through the real lookup functions.
    pub(crate) fn verif_row(&self, e: Ent) -> Option<usize> {
        match e {
            Ent::Off(id) => self.get_clock_info(id).ok().map(|c| c.offset_index()),
            Ent::Freq(id) => self.get_clock_info(id).ok().map(|c| c.frequency_index()),
            Ent::Delay(id) => self.get_link_info(id).ok().map(|l| l.index),
        }
    }

    /// Estimate (bits) of an entity.
    pub(crate) fn verif_value_bits(&self, e: Ent) -> u64 {
        let r = self.verif_row(e).unwrap();
        self.state[(r, 0)].to_bits()
    }

    /// Covariance (bits) between two entities; for e1 == e2 this is the variance whose sqrt is the
    /// reported uncertainty.
    pub(crate) fn verif_cov_bits(&self, e1: Ent, e2: Ent) -> u64 {
        let r1 = self.verif_row(e1).unwrap();
        let r2 = self.verif_row(e2).unwrap();
        self.uncertainty[(r1, r2)].to_bits()
    }

    /// Entity number k (k < 2*clocks + links) in list order.
    pub(crate) fn verif_entity(&self, nc: usize, k: usize) -> Ent {
        if k < 2 * nc {
            let id = self.clock_info.0[k / 2].id;
            if k % 2 == 0 { Ent::Off(id) } else { Ent::Freq(id) }
        } else {
            Ent::Delay(self.link_info.0[k - 2 * nc].id)
        }
    }

    pub(crate) fn verif_wander_bits(&self, id: ClockId) -> u64 {
        self.get_clock_info(id).unwrap().wander.to_bits()
    }
    pub(crate) fn verif_decay_bits(&self, id: LinkId) -> u64 {
        self.get_link_info(id).unwrap().decay_rate.to_bits()
    }

    /// Bit-for-bit equality of two estimator states (all fields).
    pub(crate) fn verif_same(&self, o: &Self) -> bool {
        let mut ok = ts_raw(self.time) == ts_raw(o.time)
            && self.state.rows() == o.state.rows()
            && self.state.cols() == o.state.cols()
            && self.uncertainty.rows() == o.uncertainty.rows()
            && self.uncertainty.cols() == o.uncertainty.cols()
            && self.clock_info.0.len() == o.clock_info.0.len()
            && self.link_info.0.len() == o.link_info.0.len()
            && self.external_clocks.0.len() == o.external_clocks.0.len();
        if !ok {
            return false;
        }
        for i in 0..self.clock_info.0.len() {
            let (a, b) = (self.clock_info.0[i], o.clock_info.0[i]);
            ok &= a.id == b.id && a.base_index == b.base_index && a.wander.to_bits() == b.wander.to_bits();
        }
        for i in 0..self.link_info.0.len() {
            let (a, b) = (self.link_info.0[i], o.link_info.0[i]);
            ok &= a.id == b.id && a.index == b.index && a.decay_rate.to_bits() == b.decay_rate.to_bits();
        }
        for i in 0..self.external_clocks.0.len() {
            ok &= self.external_clocks.0[i] == o.external_clocks.0[i];
        }
        let rows = self.state.rows();
        if self.state.cols() == 1 {
            for r in 0..rows {
                ok &= self.state[(r, 0)].to_bits() == o.state[(r, 0)].to_bits();
            }
        }
        for r in 0..self.uncertainty.rows() {
            for c in 0..self.uncertainty.cols() {
                ok &= self.uncertainty[(r, c)].to_bits() == o.uncertainty[(r, c)].to_bits();
            }
        }
        ok
    }
}

const MAXN: usize = 2 * MAXC + MAXL;

/// Snapshot of everything the frame condition talks about: for each row-owner ("entity": clock
/// offset, clock frequency, link delay - identified by id) its value bits and the covariance bits
/// with every other entity.
struct Snap {
    n: usize,
    ents: [Ent; MAXN],
    val: [u64; MAXN],
    cov: [[u64; MAXN]; MAXN],
}

fn rows_of<const N: usize>(
    s: &EstimatorState<SE<N>>,
    n: usize,
    ents: &[Ent; MAXN],
    skip: &impl Fn(Ent) -> bool,
) -> [usize; MAXN] {
    // one real lookup (get_clock_info / get_link_info) per clock / link
    let mut rows = [usize::MAX; MAXN];
    let mut k = 0;
    while k < n {
        let e = ents[k];
        match e {
            Ent::Off(id) => {
                // entity k+1 is the frequency of the same clock (see verif_entity)
                if !skip(e) {
                    let ci = s.get_clock_info(id).expect("unrelated clock still known");
                    rows[k] = ci.offset_index();
                    rows[k + 1] = ci.frequency_index();
                }
                k += 2;
            }
            Ent::Delay(id) => {
                if !skip(e) {
                    rows[k] = s.get_link_info(id).expect("unrelated link still known").index;
                }
                k += 1;
            }
            Ent::Freq(_) => unreachable!(),
        }
    }
    rows
}

fn snapshot<const N: usize>(s: &EstimatorState<SE<N>>, nc: usize, nl: usize) -> Snap {
    let n = 2 * nc + nl;
    let dummy = Ent::Off(unsafe { core::mem::transmute::<usize, ClockId>(0usize) });
    let mut snap = Snap { n, ents: [dummy; MAXN], val: [0; MAXN], cov: [[0; MAXN]; MAXN] };
    for k in 0..n {
        snap.ents[k] = s.verif_entity(nc, k);
    }
    let rows = rows_of(s, n, &snap.ents, &|_| false);
    for k in 0..n {
        snap.val[k] = s.state[(rows[k], 0)].to_bits();
        for m in 0..n {
            snap.cov[k][m] = s.uncertainty[(rows[k], rows[m])].to_bits();
        }
    }
    snap
}

fn ent_is_clock(e: Ent, id: ClockId) -> bool {
    matches!(e, Ent::Off(i) | Ent::Freq(i) if i == id)
}
fn ent_is_link(e: Ent, id: LinkId) -> bool {
    matches!(e, Ent::Delay(i) if i == id)
}

/// Frame: every entity of `before` for which `dropped` is false is still present in `after`, with
/// bit-identical value, variance and covariances with all other kept entities.
fn check_frame<const N: usize>(before: &Snap, after: &EstimatorState<SE<N>>, dropped: impl Fn(Ent) -> bool) {
    let rows = rows_of(after, before.n, &before.ents, &dropped);
    for k in 0..before.n {
        if dropped(before.ents[k]) {
            continue;
        }
        assert!(after.state[(rows[k], 0)].to_bits() == before.val[k], "unrelated estimate value unchanged");
        for m in 0..before.n {
            if dropped(before.ents[m]) {
                continue;
            }
            assert!(
                after.uncertainty[(rows[k], rows[m])].to_bits() == before.cov[k][m],
                "unrelated (co)variance unchanged"
            );
        }
    }
}

fn any_wf_state<const N: usize>(nc: usize, nl: usize, ne: usize) -> EstimatorState<SE<N>> {
    let s = EstimatorState::<SE<N>>::verif_any(nc, nl, ne);
    kani::assume(s.verif_wf(nc, nl, ne));
    s
}

// ------------------------------------------------------------------------------------------------
// The four structural operations, each from an arbitrary well-formed pre-state with nc clocks,
// nl links, ne external clocks (ids, layout, contents symbolic) and a symbolic id argument.

fn add_clock_frame<const N: usize>(nc: usize, nl: usize, ne: usize) {
    let s = any_wf_state::<N>(nc, nl, ne);
    let before = snapshot(&s, nc, nl);
    let id = any_clock_id();
    let known = s.is_known_clock(id);
    let off = UncertainValue { value: kani::any(), uncertainty: kani::any() };
    let freq = UncertainValue { value: kani::any(), uncertainty: kani::any() };
    let wander: f64 = kani::any();
    match s.add_clock(id, off, freq, wander) {
        Err(e) => {
            assert!(known, "adding a fresh clock id succeeds");
            assert!(e == AlgoError::ClockAlreadyExists(id));
        }
        Ok(t) => {
            assert!(!known, "duplicate clock id (internal or external) is rejected");
            assert!(t.verif_wf(nc + 1, nl, ne), "invariant preserved, exactly one clock more");
            check_frame(&before, &t, |_| false);
            // the new clock reports what was given
            let ci = *t.get_clock_info(id).expect("new clock known");
            assert!(t.state[(ci.offset_index(), 0)].to_bits() == off.value.to_bits());
            assert!(t.state[(ci.frequency_index(), 0)].to_bits() == freq.value.to_bits());
            assert!(ci.wander.to_bits() == wander.to_bits());
            kani::cover!(true, "ok reachable");
        }
    }
    kani::cover!(known || nc + ne == 0, "duplicate reachable");
}

fn remove_clock_frame<const N: usize>(nc: usize, nl: usize, ne: usize) {
    let s = any_wf_state::<N>(nc, nl, ne);
    let before = snapshot(&s, nc, nl);
    let id = any_clock_id();
    let internal = s.is_internal_clock(id);
    match s.remove_clock(id) {
        Err(e) => {
            assert!(!internal, "removing a known internal clock succeeds");
            assert!(e == AlgoError::UnknownClock(id), "unknown (or external) id is rejected");
        }
        Ok(t) => {
            assert!(internal);
            assert!(t.verif_wf(nc - 1, nl, ne), "invariant preserved, exactly one clock less");
            assert!(!t.is_internal_clock(id), "the removed clock is gone");
            check_frame(&before, &t, |e| ent_is_clock(e, id));
            kani::cover!(true, "ok reachable");
        }
    }
    kani::cover!(!internal, "unknown id reachable");
}

fn add_link_frame<const N: usize>(nc: usize, nl: usize, ne: usize) {
    let s = any_wf_state::<N>(nc, nl, ne);
    let before = snapshot(&s, nc, nl);
    let id = any_link_id();
    let clocks_known = s.is_known_clock(id.first_clock()) && s.is_known_clock(id.second_clock());
    let dup = s.get_link_info(id).is_ok();
    let delay = UncertainValue { value: kani::any(), uncertainty: kani::any() };
    let decay: f64 = kani::any();
    match s.add_link(id, delay, decay) {
        Err(e) => {
            assert!(!clocks_known || dup, "adding a fresh link between known clocks succeeds");
            assert!(
                matches!(e, AlgoError::UnknownClock(c) if c == id.first_clock() || c == id.second_clock())
                    || e == AlgoError::LinkAlreadyExists(id)
            );
        }
        Ok(t) => {
            assert!(clocks_known && !dup, "unknown clocks and duplicate link ids are rejected");
            assert!(t.verif_wf(nc, nl + 1, ne), "invariant preserved, exactly one link more");
            check_frame(&before, &t, |_| false);
            let li = *t.get_link_info(id).expect("new link known");
            assert!(t.state[(li.index, 0)].to_bits() == delay.value.to_bits());
            assert!(li.decay_rate.to_bits() == decay.to_bits());
            kani::cover!(true, "ok reachable");
        }
    }
    kani::cover!(dup || nl == 0, "duplicate reachable");
    kani::cover!(!clocks_known, "unknown clock reachable");
}

fn remove_link_frame<const N: usize>(nc: usize, nl: usize, ne: usize) {
    let s = any_wf_state::<N>(nc, nl, ne);
    let before = snapshot(&s, nc, nl);
    let id = any_link_id();
    let known = s.get_link_info(id).is_ok();
    match s.remove_link(id) {
        Err(e) => {
            assert!(!known, "removing a known link succeeds");
            assert!(e == AlgoError::UnknownLink(id));
        }
        Ok(t) => {
            assert!(known, "unknown link id is rejected");
            assert!(t.verif_wf(nc, nl - 1, ne), "invariant preserved, exactly one link less");
            assert!(t.get_link_info(id).is_err(), "the removed link is gone");
            check_frame(&before, &t, |e| ent_is_link(e, id));
            kani::cover!(true, "ok reachable");
        }
    }
    kani::cover!(!known, "unknown id reachable");
}

/// external clocks carry no estimate: adding / removing one leaves every matrix cell and every
/// index untouched; duplicate (internal or external) / unknown ids are rejected.
fn external_frame<const N: usize>(nc: usize, nl: usize, ne: usize) {
    let s = any_wf_state::<N>(nc, nl, ne);
    let before = snapshot(&s, nc, nl);
    let id = any_clock_id();
    let known = s.is_known_clock(id);
    let external = s.is_external_clock(id);
    if kani::any() {
        match s.add_external_clock(id) {
            Err(e) => {
                assert!(known);
                assert!(e == AlgoError::ClockAlreadyExists(id));
            }
            Ok(t) => {
                assert!(!known, "duplicate id rejected");
                assert!(t.verif_wf(nc, nl, ne + 1));
                assert!(t.is_external_clock(id));
                check_frame(&before, &t, |_| false);
                kani::cover!(true, "add ok");
            }
        }
    } else {
        match s.remove_external_clock(id) {
            Err(e) => {
                assert!(!external);
                assert!(e == AlgoError::UnknownClock(id));
            }
            Ok(t) => {
                assert!(external, "unknown / internal id rejected");
                assert!(t.verif_wf(nc, nl, ne - 1));
                assert!(!t.is_external_clock(id));
                check_frame(&before, &t, |_| false);
                kani::cover!(true, "remove ok");
            }
        }
    }
    kani::cover!(known, "known id reachable");
}

macro_rules! frame_harness {
    ($name:ident, $f:ident, $n:literal, $unwind:literal, $nc:literal, $nl:literal, $ne:literal) => {
        /// bound: pre-state exactly $nc internal clocks, $nl links, $ne external clocks
        #[kani::proof]
        #[kani::unwind($unwind)]
        fn $name() {
            $f::<$n>($nc, $nl, $ne);
        }
    };
}

// quick tier: smallest non-trivial pre-states
frame_harness!(c42_b_add_clock_frame_c1_l0_e1, add_clock_frame, 16, 6, 1, 0, 1);
frame_harness!(c42_b_remove_clock_frame_c2_l0_e0, remove_clock_frame, 16, 6, 2, 0, 0);
frame_harness!(c42_b_add_link_frame_c1_l0_e1, add_link_frame, 9, 6, 1, 0, 1);
frame_harness!(c42_b_remove_link_frame_c1_l1_e0, remove_link_frame, 9, 6, 1, 1, 0);
frame_harness!(c42_b_external_frame_c1_l0_e1, external_frame, 4, 6, 1, 0, 1);
// thorough tier: mid-size (matrix 5x5) ...
frame_harness!(c42_tb_add_clock_frame_c1_l1_e1, add_clock_frame, 25, 7, 1, 1, 1);
frame_harness!(c42_tb_remove_clock_frame_c2_l1_e1, remove_clock_frame, 25, 7, 2, 1, 1);
frame_harness!(c42_tb_add_link_frame_c2_l0_e1, add_link_frame, 25, 7, 2, 0, 1);
frame_harness!(c42_tb_remove_link_frame_c2_l1_e1, remove_link_frame, 25, 7, 2, 1, 1);
frame_harness!(c42_tb_external_frame_c1_l1_e1, external_frame, 9, 7, 1, 1, 1);
// ... and the stated bound: up to 3 clocks and 2 links (matrix 8x8)
frame_harness!(c42_tb_add_clock_frame_c2_l2_e1, add_clock_frame, 64, 10, 2, 2, 1);
frame_harness!(c42_tb_remove_clock_frame_c3_l2_e1, remove_clock_frame, 64, 10, 3, 2, 1);
frame_harness!(c42_tb_add_link_frame_c3_l1_e1, add_link_frame, 64, 10, 3, 1, 1);
frame_harness!(c42_tb_remove_link_frame_c3_l2_e1, remove_link_frame, 64, 10, 3, 2, 1);

// ------------------------------------------------------------------------------------------------
// time never moves backwards

/// post (statement): progress_time to an earlier instant is an error naming both instants; on
/// success the estimator's time is exactly the requested one, which is not before the old one
/// (timestamps are 2^-64 s ticks modulo 2^128; "before" = negative shortest signed difference).
/// Complete for the empty estimator (no loops, all 2^128 x 2^128 instants).
#[kani::proof]
#[kani::unwind(3)]
fn c42_p_progress_time_monotone_empty() {
    let t0 = any_timestamp();
    let t1 = any_timestamp();
    let s = EstimatorState::<SE<1>>::empty(t0);
    let backwards = (ts_raw(t1).wrapping_sub(ts_raw(t0)) as i128) < 0;
    match s.progress_time(t1) {
        Err(e) => {
            assert!(backwards);
            assert!(e == AlgoError::NonMonotonicTimeProgression { from: t0, to: t1 });
        }
        Ok(t) => {
            assert!(!backwards, "time never moves backwards");
            assert!(ts_raw(t.verif_time()) == ts_raw(t1));
            assert!(t.verif_wf(0, 0, 0));
        }
    }
    kani::cover!(backwards, "backwards reachable");
    kani::cover!(!backwards && ts_raw(t1) != ts_raw(t0), "forwards reachable");
}

/// same with one clock and one link in the state (bound); additionally the bookkeeping (ids,
/// indices, shapes) survives a time step.
#[kani::proof]
#[kani::unwind(6)]
fn c42_tb_progress_time_monotone_c1_l1() {
    let s = any_wf_state::<9>(1, 1, 0);
    let t0 = s.verif_time();
    let t1 = any_timestamp();
    let backwards = (ts_raw(t1).wrapping_sub(ts_raw(t0)) as i128) < 0;
    match s.progress_time(t1) {
        Err(e) => {
            assert!(backwards);
            assert!(e == AlgoError::NonMonotonicTimeProgression { from: t0, to: t1 });
        }
        Ok(t) => {
            assert!(!backwards, "time never moves backwards");
            assert!(ts_raw(t.verif_time()) == ts_raw(t1));
            assert!(t.verif_wf(1, 1, 0));
        }
    }
    kani::cover!(backwards, "backwards reachable");
    kani::cover!(!backwards && ts_raw(t1) != ts_raw(t0), "forwards reachable");
}

/// canary: "removing a clock leaves the estimate of THAT clock readable" is false.
#[kani::proof]
#[kani::unwind(7)]
fn c42_canary_remove_clock_keeps_it() {
    let s = any_wf_state::<16>(2, 0, 0);
    let id = s.verif_clock_id(0);
    let t = s.remove_clock(id).unwrap();
    assert!(t.is_internal_clock(id));
}

/// canary: "every clock keeps its ROW across a removal" is false (rows shift) - shows that the
/// frame check really goes through the id lookup and that layouts with a shift are reachable.
#[kani::proof]
#[kani::unwind(7)]
fn c42_canary_remove_clock_rows_fixed() {
    let s = any_wf_state::<16>(2, 0, 0);
    let id = s.verif_clock_id(0);
    let other = s.verif_clock_id(1);
    let r0 = s.get_clock_info(other).unwrap().base_index;
    let t = s.remove_clock(id).unwrap();
    assert!(t.get_clock_info(other).unwrap().base_index == r0);
}

#[cfg(all(kani, test))]
mod replay {
    extern crate std;
    #[allow(unused_imports)]
    use std::{vec, vec::Vec};
    use super::*;
    include!(concat!(env!("VERIF_REPLAY_DIR"), "/statime_algo__estimator.rs"));
}
