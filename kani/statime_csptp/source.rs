// Contract harnesses for statime-csptp/src/source.rs (child module: sees private items).
// Property C44 (CSPTP client): timestamp arithmetic is total; response matching in
// `collect_response` (driven synchronously: the future is polled by hand with a mock socket whose
// `recv` is immediately ready, so the real async fn body is executed, not a model of it).
#![allow(unused_imports)]
use super::*;
use core::cell::RefCell;
use crate::{CsptpConfig, InternalState};
use core::future::Future;
use core::pin::Pin;
use core::sync::atomic::{AtomicU8, Ordering};
use core::task::{Context, Waker};

/// Timestamp type invariant (`Timestamp::new`): seconds < 2^48, nanos < 10^9.
fn any_ts() -> Timestamp {
    let s: u64 = kani::any();
    let n: u32 = kani::any();
    kani::assume(s < (1 << 48) && n < 1_000_000_000);
    Timestamp::new(s, n).unwrap()
}

/// Any timestamp the wire parser hands out (what a server can make the client see).
fn any_wire_ts() -> Timestamp {
    let b: [u8; 10] = kani::any();
    let r = Timestamp::deserialize(&b);
    kani::assume(r.is_ok());
    r.unwrap()
}


// ---------------------------------------------------------------- add_correction

/// STATEMENT: add_correction never panics for ANY Timestamp and ANY 64-bit correction.
#[kani::proof]
fn c44_p_add_correction_total() {
    let ts = any_ts();
    let c = TimeInterval(kani::any());
    let r = add_correction(ts, c);
    assert!(r.nanos() < 1_000_000_000);
    kani::cover!(c.0 < 0, "negative correction");
}

/// What does hold: for every timestamp at least 2^18 s (3 days; the largest correction is
/// +-2^47 ns = 1.6 days) away from both ends of the 48-bit seconds range, and every 64-bit
/// correction, add_correction does not panic and returns exactly ts + floor(correction / 2^16) ns,
/// normalised (nanos < 10^9).
fn add_correction_exact(ts: Timestamp) {
    let c = TimeInterval(kani::any());
    kani::assume(ts.seconds() >= (1 << 18) && ts.seconds() < (1 << 48) - (1 << 18));
    let r = add_correction(ts, c);
    let cn: i64 = c.0 >> 16;
    let ds = r.seconds() as i64 - ts.seconds() as i64;
    let dn = r.nanos() as i64 - ts.nanos() as i64;
    assert!(r.nanos() < 1_000_000_000 && r.seconds() < (1 << 48));
    assert!(ds >= -140_739 && ds <= 140_739);
    assert!(ds * 1_000_000_000 + dn == cn);
    kani::cover!(c.0 < 0 && r.seconds() < ts.seconds(), "borrow across the second");
    kani::cover!(c.0 > 0 && r.seconds() > ts.seconds(), "carry across the second");
}

#[kani::proof]
#[kani::solver(z3)]
fn c44_tp_add_correction_exact_in_range() {
    add_correction_exact(any_ts());
}
/// Same, for timestamps as the wire parser produces them (nanos may be exactly 10^9, see C41).
#[kani::proof]
#[kani::solver(z3)]
fn c44_tp_add_correction_wire_ts_in_range() {
    let ts = any_wire_ts();
    add_correction_exact(ts);
    kani::cover!(ts.nanos() == 1_000_000_000, "denormal nanoseconds from the wire");
}

// ---------------------------------------------------------------- convert_to_ntp

const NTP_UNIX_OFFSET: u64 = 2_208_988_800; // seconds 1900-01-01 .. 1970-01-01
const TAI_UTC: u64 = 37;

/// post: never panics for any valid Timestamp; seconds = (PTP seconds + 2208988800 - 37) mod 2^32,
/// fraction from the nanoseconds (NtpTimestamp::from_seconds_nanos_since_ntp_era, contract in C32).
#[kani::proof]
#[kani::solver(z3)]
fn c44_p_convert_to_ntp_total() {
    let ts = any_ts();
    let r = convert_to_ntp(ts);
    let secs = ((ts.seconds() + NTP_UNIX_OFFSET - TAI_UTC) & 0xffff_ffff) as u32;
    // whole seconds (the fraction is from_seconds_nanos_since_ntp_era's contract, proved in C32)
    assert!(r.truncated_second_bits(0) == NtpTimestamp::from_seconds_nanos_since_ntp_era(secs, 0));
    // monotone within an era: one PTP second later is one NTP second later
    kani::cover!(ts.seconds() > u32::MAX as u64, "era truncation reachable");
}

/// STATEMENT: never panics for any Timestamp the client can receive (wire-parsed).
#[kani::proof]
fn c44_p_convert_to_ntp_wire_ts_total() {
    let ts = any_wire_ts();
    let _ = convert_to_ntp(ts);
    kani::cover!(true, "reachable");
}

/// The two compositions `run` performs on a finished measurement, over everything a server
/// controls (response send time and both correction fields) and any local send time:
/// convert_to_ntp(add_correction(t, c)) must not panic.
#[kani::proof]
fn c44_p_measurement_conversion_total() {
    let remote_send = any_wire_ts(); // Sync.originTimestamp / FollowUp.preciseOriginTimestamp
    let response_correction = TimeInterval(kani::any()); // header.correctionField (saturating sum)
    let _ = convert_to_ntp(add_correction(remote_send, response_correction));
    kani::cover!(true, "reachable");
}

// ---------------------------------------------------------------- collect_response, driven by hand

const DGRAM: usize = 34 + 10 + 22; // header + Sync/FollowUp body + one CSPTP response TLV

struct MockRecv {
    out: Option<ClientRecvResult>,
}
impl Future for MockRecv {
    type Output = Result<ClientRecvResult, ()>;
    fn poll(mut self: Pin<&mut Self>, _cx: &mut Context<'_>) -> Poll<Self::Output> {
        match self.out.take() {
            Some(r) => Poll::Ready(Ok(r)),
            None => Poll::Pending, // no more traffic: the real code waits (until `run`'s timeout)
        }
    }
}
struct MockSend;
impl Future for MockSend {
    type Output = Result<Timestamp, ()>;
    fn poll(self: Pin<&mut Self>, _cx: &mut Context<'_>) -> Poll<Self::Output> {
        Poll::Pending
    }
}

/// Delivers up to `K` arbitrary datagrams of up to DGRAM bytes, then stays pending.
struct MockSocket<const K: usize> {
    dgrams: [[u8; DGRAM]; K],
    lens: [usize; K],
    stamps: [Option<Timestamp>; K],
    next: usize,
}
impl<const K: usize> ClientSocket for MockSocket<K> {
    type Error = ();
    fn recv(&mut self, buf: &mut [u8]) -> impl Future<Output = Result<ClientRecvResult, ()>> {
        if self.next < K {
            let i = self.next;
            self.next += 1;
            buf[..DGRAM].copy_from_slice(&self.dgrams[i]);
            MockRecv { out: Some(ClientRecvResult { bytes_read: self.lens[i], timestamp: self.stamps[i] }) }
        } else {
            MockRecv { out: None }
        }
    }
    fn send_event(&mut self, _buf: &[u8]) -> impl Future<Output = Result<Timestamp, ()>> {
        MockSend
    }
}

struct NullController;
impl SourceController for NullController {
    fn handle_measurement(&mut self, _m: Measurement) {}
    fn set_usable(&mut self, _u: bool) {}
    fn desired_poll_interval(&self) -> ntp_proto::PollInterval {
        ntp_proto::PollInterval::default()
    }
    fn observe(&self) -> ntp_proto::ObservableSourceTimedata {
        ntp_proto::ObservableSourceTimedata::default()
    }
}

fn seq_of(d: &[u8; DGRAM]) -> u16 {
    u16::from_be_bytes([d[30], d[31]])
}

fn any_opt_ts() -> Option<Timestamp> {
    if kani::any() { Some(any_ts()) } else { None }
}

/// One datagram. STATEMENT: a measurement is produced only from a response with the current
/// request's domain and sequence id. Checked on the real `collect_response`:
/// Ready(m) => the datagram's domainNumber == configured domain, sequenceId == request id, it is a
/// one-step Sync carrying a CSPTP response TLV, it had a receive timestamp, and every field of the
/// raw measurement is the corresponding wire field (send time passed in, receive stamp, origin
/// timestamp octets 34..44, TLV ingress timestamp / correction, header correction).
#[kani::proof]
#[kani::unwind(7)]
fn c44_tb_collect_one_datagram_matches() {
    let manager = CsptpManager::<RefCell<InternalState>>::new(CsptpConfig::default());
    let domain: u8 = kani::any();
    let config = CsptpSourceConfig { domain, ..CsptpSourceConfig::default() };
    let mut src = CsptpSource::new(ClockId::SYSTEM, ClockId::SYSTEM, config, &manager, NullController);
    let d: [u8; DGRAM] = kani::any();
    let len: usize = kani::any();
    kani::assume(len <= DGRAM);
    let stamp = any_opt_ts();
    let sock = MockSocket::<1> { dgrams: [d], lens: [len], stamps: [stamp], next: 0 };
    let request_id: u16 = kani::any();
    let send_ts = any_ts();
    let mut fut = core::pin::pin!(src.collect_response(sock, request_id, send_ts));
    let mut cx = Context::from_waker(Waker::noop());
    let r = fut.as_mut().poll(&mut cx);
    if let Poll::Ready(m) = &r {
        assert!(d[4] == domain);
        assert!(seq_of(&d) == request_id);
        assert!(d[0] & 0xf == 0); // Sync
        assert!(d[6] & 2 == 0); // one-step (a two-step answer needs a second datagram)
        assert!(len == DGRAM && u16::from_be_bytes([d[2], d[3]]) as usize == DGRAM);
        assert!(u16::from_be_bytes([d[44], d[45]]) == 0xff01); // CSPTP response TLV
        assert!(stamp.is_some());
        assert!(m.request_send_time == send_ts);
        assert!(m.response_recv_time == stamp.unwrap());
        assert!(m.response_send_time == Timestamp::deserialize(&d[34..44]).unwrap());
        assert!(m.request_recv_time == Timestamp::deserialize(&d[48..58]).unwrap());
        assert!(m.request_correction.0 == i64::from_be_bytes([d[58], d[59], d[60], d[61], d[62], d[63], d[64], d[65]]));
        assert!(m.response_correction.0 == i64::from_be_bytes([d[8], d[9], d[10], d[11], d[12], d[13], d[14], d[15]]));
        assert!(m.status.is_none());
    }
    kani::cover!(r.is_ready(), "a matching one-step response yields a measurement");
    kani::cover!(r.is_pending() && len == DGRAM && d[4] == domain && seq_of(&d) == request_id, "matching ids but otherwise unusable datagram is ignored");
}

/// Two datagrams, none of which carries BOTH the configured domain and the request's sequence id:
/// no measurement, whatever else they contain (and no panic).
#[kani::proof]
#[kani::unwind(7)]
fn c44_tb_collect_mismatch_never_used() {
    let manager = CsptpManager::<RefCell<InternalState>>::new(CsptpConfig::default());
    let domain: u8 = kani::any();
    let config = CsptpSourceConfig { domain, ..CsptpSourceConfig::default() };
    let mut src = CsptpSource::new(ClockId::SYSTEM, ClockId::SYSTEM, config, &manager, NullController);
    let d0: [u8; DGRAM] = kani::any();
    let d1: [u8; DGRAM] = kani::any();
    let request_id: u16 = kani::any();
    kani::assume(d0[4] != domain || seq_of(&d0) != request_id);
    kani::assume(d1[4] != domain || seq_of(&d1) != request_id);
    let l0: usize = kani::any();
    let l1: usize = kani::any();
    kani::assume(l0 <= DGRAM && l1 <= DGRAM);
    let sock = MockSocket::<2> { dgrams: [d0, d1], lens: [l0, l1], stamps: [any_opt_ts(), any_opt_ts()], next: 0 };
    let mut fut = core::pin::pin!(src.collect_response(sock, request_id, any_ts()));
    let mut cx = Context::from_waker(Waker::noop());
    let r = fut.as_mut().poll(&mut cx);
    assert!(r.is_pending());
    kani::cover!(d0[4] == domain && seq_of(&d1) == request_id, "each id matched by a different datagram");
}

/// Two-step exchange in either order (Sync with two-step flag + FollowUp, 44-byte FollowUp):
/// Ready(m) from two datagrams => BOTH carry the configured domain and the request id, unless the
/// measurement came from a single one-step response (then that one does).
#[kani::proof]
#[kani::unwind(7)]
fn c44_tb_collect_two_step_matches() {
    let manager = CsptpManager::<RefCell<InternalState>>::new(CsptpConfig::default());
    let domain: u8 = kani::any();
    let config = CsptpSourceConfig { domain, ..CsptpSourceConfig::default() };
    let mut src = CsptpSource::new(ClockId::SYSTEM, ClockId::SYSTEM, config, &manager, NullController);
    let d0: [u8; DGRAM] = kani::any();
    let d1: [u8; DGRAM] = kani::any();
    let request_id: u16 = kani::any();
    let l0: usize = kani::any();
    let l1: usize = kani::any();
    kani::assume(l0 <= DGRAM && l1 <= DGRAM);
    let s0 = any_opt_ts();
    let s1 = any_opt_ts();
    let sock = MockSocket::<2> { dgrams: [d0, d1], lens: [l0, l1], stamps: [s0, s1], next: 0 };
    let send_ts = any_ts();
    let mut fut = core::pin::pin!(src.collect_response(sock, request_id, send_ts));
    let mut cx = Context::from_waker(Waker::noop());
    let r = fut.as_mut().poll(&mut cx);
    let m0 = d0[4] == domain && seq_of(&d0) == request_id;
    let m1 = d1[4] == domain && seq_of(&d1) == request_id;
    if let Poll::Ready(m) = &r {
        assert!(m0 || m1);
        assert!(m.request_send_time == send_ts);
        let one_step0 = m0 && d0[0] & 0xf == 0 && d0[6] & 2 == 0;
        let one_step1 = m1 && d1[0] & 0xf == 0 && d1[6] & 2 == 0;
        if !one_step0 && !one_step1 {
            // genuinely two-step: both datagrams are used, both must match
            assert!(m0 && m1);
            assert!((d0[0] & 0xf == 0 && d1[0] & 0xf == 8) || (d0[0] & 0xf == 8 && d1[0] & 0xf == 0));
        }
    }
    kani::cover!(r.is_ready() && d0[0] & 0xf == 0 && d0[6] & 2 != 0, "two-step: sync then follow-up");
    kani::cover!(r.is_ready() && d0[0] & 0xf == 8, "two-step: follow-up first");
}

/// canary: claims a correction never changes the seconds.
#[kani::proof]
#[kani::solver(z3)]
fn c44_canary_correction_keeps_seconds() {
    let ts = any_ts();
    let c = TimeInterval(kani::any());
    kani::assume(c.0 >= 0 && ts.seconds() < 1000);
    assert!(add_correction(ts, c).seconds() == ts.seconds());
}

#[cfg(all(kani, test))]
mod replay {
    use super::*;
    include!(concat!(env!("VERIF_REPLAY_DIR"), "/statime_csptp__source.rs"));
}
