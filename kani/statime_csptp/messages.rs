// Contract harnesses for statime-csptp/src/messages.rs (child module: sees private items).
#![allow(unused_imports)]
use super::*;

#[cfg(all(kani, test))]
mod replay {
    extern crate std;
    #[allow(unused_imports)]
    use std::{vec, vec::Vec};
    use super::*;
    include!(concat!(env!("VERIF_REPLAY_DIR"), "/statime_csptp__messages.rs"));
}
