// Contract harnesses for statime-csptp/src/messages.rs (child module: sees private items).
// Property C45 (CSPTP server): CsptpMessage::{deserialize,is_request,new_response,new_follow_up}
// + Message::serialize. Bound: request datagrams <= 56 bytes (header 34 + Sync 10 + request TLV 8
// + 4 spare), thorough 72; the real receive buffer is 512 bytes (MAX_MESSAGE_SIZE).
#![allow(unused_imports)]
use super::*;
use statime_wire::{ClockAccuracy, ClockQuality};

fn any_ts() -> Timestamp {
    let s: u64 = kani::any();
    let n: u32 = kani::any();
    kani::assume(s < (1 << 48) && n < 1_000_000_000);
    Timestamp::new(s, n).unwrap()
}

fn any_leap() -> NtpLeapIndicator {
    match kani::any::<u8>() {
        0 => NtpLeapIndicator::NoWarning,
        1 => NtpLeapIndicator::Leap61,
        2 => NtpLeapIndicator::Leap59,
        3 => NtpLeapIndicator::Unknown,
        _ => NtpLeapIndicator::Unsynchronized,
    }
}

fn any_state() -> CsptpState {
    CsptpState {
        grandmaster_identity: ClockIdentity(kani::any()),
        grandmaster_priority_1: kani::any(),
        grandmaster_priority_2: kani::any(),
        grandmaster_clock_quality: ClockQuality {
            clock_class: kani::any(),
            clock_accuracy: ClockAccuracy::from_primitive(kani::any()),
            offset_scaled_log_variance: kani::any(),
        },
        steps_removed: kani::any(),
        ptp_timescale: kani::any(),
        time_traceable: kani::any(),
        frequency_traceable: kani::any(),
    }
}

fn ts_bytes(t: Timestamp) -> [u8; 10] {
    let mut b = [0u8; 10];
    t.serialize(&mut b).unwrap();
    b
}

/// The server's whole synchronous path on one datagram of up to N bytes, as `handle_packet` chains
/// it (deserialize -> is_request -> new_response(.., None, ..) -> serialize -> new_follow_up ->
/// serialize), with the postconditions of the STATEMENT on the two produced datagrams.
fn server_contract<const N: usize>() {
    let d: [u8; N] = kani::any();
    let len: usize = kani::any();
    kani::assume(len <= N);
    let parsed = CsptpMessage::deserialize(&d[..len]);
    let Ok(req) = parsed else {
        kani::cover!(len == N, "full-size datagram rejected");
        return; // not answered (handle_packet returns)
    };
    if !req.is_request() {
        // answers only requests: the response builder itself must refuse, too
        let mut rb = [0u8; 128];
        let snap = TimeSnapshot::default();
        let st = any_state();
        let r = CsptpMessage::new_response(&mut rb, &req, any_ts(), None, &snap, &st);
        let non_request_refused = r.is_err();
        assert!(non_request_refused);
        kani::cover!(req.is_response(), "a response sent to the server is not answered");
        kani::cover!(matches!(req.message.body, MessageBody::FollowUp(_)), "a follow-up sent to the server is not answered");
        return;
    }
    // ---- well-formedness of what is being answered (necessary conditions, from the bytes)
    assert!(len >= 34 + 10 + 8);
    assert!(d[0] == 0x30 && d[5] == 0x00); // majorSdoId 3, minorSdoId 0, messageType Sync
    assert!(d[1] & 0x0f == 2); // versionPTP 2
    let ml = u16::from_be_bytes([d[2], d[3]]) as usize;
    assert!(ml >= 52 && ml <= len);
    // ---- the answer
    let recv_ts = any_ts();
    let mut snap = TimeSnapshot::default();
    snap.leap_indicator = any_leap();
    let st = any_state();
    let mut rb = [0u8; 128];
    let resp = CsptpMessage::new_response(&mut rb, &req, recv_ts, None, &snap, &st);
    let request_is_answered = resp.is_ok();
    assert!(request_is_answered);
    let resp = resp.unwrap();
    assert!(resp.is_response() && !resp.is_request());
    assert!(resp.header.domain_number == d[4]);
    assert!(resp.header.sequence_id == u16::from_be_bytes([d[30], d[31]]));
    assert!(resp.header.two_step_flag); // no send timestamp yet => two-step
    assert!(resp.header.unicast_flag);
    assert!(resp.header.leap61 == (snap.leap_indicator == NtpLeapIndicator::Leap61));
    assert!(resp.header.leap59 == (snap.leap_indicator == NtpLeapIndicator::Leap59));
    let mut out = [0u8; MAX_MESSAGE_SIZE];
    let w = resp.serialize(&mut out);
    assert!(w.is_ok());
    let w = w.unwrap();
    let status_requested = w == 34 + 10 + 22 + 22;
    assert!(w == 34 + 10 + 22 || status_requested);
    // on the wire: Sync, CSPTP sdoId, domain and sequence id echoed
    assert!(out[0] == 0x30 && out[5] == 0 && out[1] == 0x12);
    assert!(out[4] == d[4] && out[30] == d[30] && out[31] == d[31]);
    assert!(out[6] & 2 == 2 && out[6] & 4 == 4);
    // response TLV: type, length, request ingress timestamp, request correction field
    assert!(out[44] == 0xff && out[45] == 0x01 && out[46] == 0 && out[47] == 18);
    let rt = ts_bytes(recv_ts);
    let i: usize = kani::any();
    kani::assume(i < 10);
    assert!(out[48 + i] == rt[i]);
    let j: usize = kani::any();
    kani::assume(j < 8);
    assert!(out[58 + j] == d[8 + j]);
    if status_requested {
        assert!(out[66] == 0xf0 && out[67] == 0x02 && out[68] == 0 && out[69] == 18);
        assert!(out[70] == st.grandmaster_priority_1 && out[75] == st.grandmaster_priority_2);
        assert!(u16::from_be_bytes([out[76], out[77]]) == st.steps_removed);
        assert!(out[80 + j] == st.grandmaster_identity.0[j]);
    }
    // ---- the follow-up carries the supplied send timestamp and the same ids
    let send_ts = any_ts();
    let fu = CsptpMessage::new_follow_up(&resp, send_ts);
    assert!(fu.is_ok());
    let fu = fu.unwrap();
    assert!(matches!(fu.message.body, MessageBody::FollowUp(f) if f.precise_origin_timestamp == send_ts));
    let mut out2 = [0u8; MAX_MESSAGE_SIZE];
    let w2 = fu.serialize(&mut out2);
    assert!(matches!(w2, Ok(44)));
    assert!(out2[0] == 0x38 && out2[5] == 0 && out2[1] == 0x12);
    assert!(out2[4] == d[4] && out2[30] == d[30] && out2[31] == d[31]);
    let st_b = ts_bytes(send_ts);
    assert!(out2[34 + i] == st_b[i]);
    kani::cover!(status_requested, "request asking for the status TLV");
    kani::cover!(!status_requested, "request without status");
    kani::cover!(len > ml, "request followed by padding");
}

#[kani::proof]
#[kani::unwind(8)]
fn c45_tb_server_contract_56() {
    server_contract::<56>();
}

#[kani::proof]
#[kani::unwind(12)]
fn c45_tb_server_contract_72() {
    server_contract::<72>();
}

/// new_follow_up refuses anything that is not a two-step response (sanity check of the builder).
#[kani::proof]
#[kani::unwind(8)]
fn c45_b_follow_up_only_for_two_step_response() {
    let mut rq = [0u8; 8];
    let domain: u8 = kani::any();
    let seq: u16 = kani::any();
    let req = CsptpMessage::new_request(&mut rq, domain, seq).unwrap();
    assert!(req.is_request() && !req.is_response());
    assert!(CsptpMessage::new_follow_up(&req, any_ts()).is_err());
    let snap = TimeSnapshot::default();
    let st = any_state();
    let mut rb = [0u8; 128];
    let one_step = CsptpMessage::new_response(&mut rb, &req, any_ts(), Some(any_ts()), &snap, &st).unwrap();
    assert!(!one_step.header.two_step_flag);
    assert!(one_step.header.domain_number == domain && one_step.header.sequence_id == seq);
    assert!(CsptpMessage::new_follow_up(&one_step, any_ts()).is_err());
    kani::cover!(true, "reachable");
}

/// The library's own request survives its own parser (client -> server direction).
#[kani::proof]
#[kani::unwind(8)]
fn c45_tb_own_request_parses() {
    let mut rq = [0u8; 8];
    let req = CsptpMessage::new_request(&mut rq, kani::any(), kani::any()).unwrap();
    let mut wire = [0u8; 64];
    let n = req.serialize(&mut wire).unwrap();
    assert!(n == 52);
    let back = CsptpMessage::deserialize(&wire[..n]);
    assert!(back.is_ok() && back.unwrap().is_request());
    kani::cover!(true, "reachable");
}

/// Builders alone (no parsing of symbolic bytes): for every request header content (domain,
/// sequence id, correctionField, flags), both request-TLV flag values, every reception time,
/// optional send time, leap indicator and CsptpState: new_response echoes domain, sequence id,
/// reception time and correctionField (struct fields AND wire bytes), includes the status TLV iff
/// requested, is two-step iff no send time was supplied; new_follow_up carries exactly the
/// supplied send time and the same ids, and exists only for two-step responses.
#[kani::proof]
#[kani::unwind(8)]
fn c45_b_builders_echo() {
    let want_status: bool = kani::any();
    let mut tl = [0u8; 8];
    let mut b = TlvSetBuilder::new(&mut tl);
    CsptpRequestTlv { csptp_status: want_status, alt_timescale: kani::any() }.add_to(&mut b).unwrap();
    let domain: u8 = kani::any();
    let seq: u16 = kani::any();
    let corr: i64 = kani::any();
    let req = CsptpMessage {
        message: Message {
            header: Header {
                correction_field: TimeInterval(corr),
                two_step_flag: kani::any(),
                leap61: kani::any(),
                log_message_interval: kani::any(),
                ..csptp_header(domain, seq)
            },
            body: MessageBody::Sync(SyncMessage { origin_timestamp: any_ts() }),
            suffix: b.build(),
        },
    };
    let recv_ts = any_ts();
    let send: Option<Timestamp> = if kani::any() { Some(any_ts()) } else { None };
    let mut snap = TimeSnapshot::default();
    snap.leap_indicator = any_leap();
    let st = any_state();
    let mut rb = [0u8; 128];
    let resp = CsptpMessage::new_response(&mut rb, &req, recv_ts, send, &snap, &st);
    assert!(resp.is_ok());
    let resp = resp.unwrap();
    assert!(resp.header.domain_number == domain && resp.header.sequence_id == seq);
    assert!(resp.header.two_step_flag == send.is_none());
    assert!(matches!(resp.message.body, MessageBody::Sync(s) if s.origin_timestamp == send.unwrap_or_default()));
    let mut out = [0u8; 96];
    let w = resp.serialize(&mut out).unwrap();
    assert!(w == if want_status { 88 } else { 66 });
    assert!(out[0] == 0x30 && out[5] == 0 && out[1] == 0x12);
    assert!(out[4] == domain && u16::from_be_bytes([out[30], out[31]]) == seq);
    assert!(out[44] == 0xff && out[45] == 0x01 && out[46] == 0 && out[47] == 18);
    let rt = ts_bytes(recv_ts);
    let i: usize = kani::any();
    kani::assume(i < 10);
    assert!(out[48 + i] == rt[i]);
    let cb = corr.to_be_bytes();
    let j: usize = kani::any();
    kani::assume(j < 8);
    assert!(out[58 + j] == cb[j]);
    if want_status {
        assert!(out[66] == 0xf0 && out[67] == 0x02 && out[69] == 18);
        assert!(out[70] == st.grandmaster_priority_1 && out[75] == st.grandmaster_priority_2);
        assert!(u16::from_be_bytes([out[76], out[77]]) == st.steps_removed);
        assert!(out[80 + j] == st.grandmaster_identity.0[j]);
    }
    let send_ts = any_ts();
    let fu = CsptpMessage::new_follow_up(&resp, send_ts);
    assert!(fu.is_ok() == send.is_none());
    if let Ok(fu) = fu {
        assert!(fu.header.domain_number == domain && fu.header.sequence_id == seq);
        let mut o2 = [0u8; 64];
        assert!(matches!(fu.serialize(&mut o2), Ok(44)));
        assert!(o2[0] == 0x38 && o2[4] == domain && u16::from_be_bytes([o2[30], o2[31]]) == seq);
        let sb = ts_bytes(send_ts);
        assert!(o2[34 + i] == sb[i]);
    }
    kani::cover!(want_status && send.is_none(), "two-step answer with status");
    kani::cover!(!want_status && send.is_some(), "one-step answer without status");
}

/// canary: claims the response echoes a wrong sequence id.
#[kani::proof]
#[kani::unwind(8)]
fn c45_canary_sequence_id_not_echoed() {
    let mut rq = [0u8; 8];
    let seq: u16 = kani::any();
    let req = CsptpMessage::new_request(&mut rq, 5, seq).unwrap();
    let snap = TimeSnapshot::default();
    let st = any_state();
    let mut rb = [0u8; 128];
    let resp = CsptpMessage::new_response(&mut rb, &req, any_ts(), None, &snap, &st).unwrap();
    assert!(resp.header.sequence_id != seq);
}

#[cfg(all(kani, test))]
mod replay {
    use super::*;
    include!(concat!(env!("VERIF_REPLAY_DIR"), "/statime_csptp__messages.rs"));
}
