// Contract harnesses for statime-csptp/src/server.rs (child module: sees private items).
#![allow(unused_imports)]
use super::*;

#[cfg(all(kani, test))]
mod replay {
    use super::*;
    include!(concat!(env!("VERIF_REPLAY_DIR"), "/statime_csptp__server.rs"));
}
