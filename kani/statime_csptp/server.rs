// Contract harnesses for statime-csptp/src/server.rs (child module: sees private items).
// Property C45: the real `handle_packet` (async fn) is executed by polling its future by hand
// with a mock ServerSocket whose operations complete immediately; the mock records every datagram
// handed to send_event / send_general (the property's observation points).
// Bound: received datagram <= 56 bytes (see messages.rs); real buffer is 512.
#![allow(unused_imports)]
use super::*;
use crate::{CsptpConfig, InternalState};
use core::cell::RefCell;
use core::future::Future;
use core::pin::Pin;
use core::task::{Context, Waker};

fn any_ts() -> Timestamp {
    let s: u64 = kani::any();
    let n: u32 = kani::any();
    kani::assume(s < (1 << 48) && n < 1_000_000_000);
    Timestamp::new(s, n).unwrap()
}

struct Ready<T>(Option<T>);
impl<T: Unpin> Future for Ready<T> {
    type Output = T;
    fn poll(mut self: Pin<&mut Self>, _cx: &mut Context<'_>) -> Poll<T> {
        Poll::Ready(self.0.take().unwrap())
    }
}

const OUT: usize = 96;

struct RecSocket {
    send_ts: Result<Timestamp, ()>,
    events: u8,
    generals: u8,
    order_ok: bool,
    event: [u8; OUT],
    event_len: usize,
    event_from: u8,
    event_to: u8,
    general: [u8; OUT],
    general_len: usize,
    general_from: u8,
    general_to: u8,
}

impl ServerSocket for RecSocket {
    type Addr = u8;
    type Error = ();
    fn recv(&mut self, _buf: &mut [u8]) -> impl Future<Output = Result<ServerRecvResult<u8>, ()>> {
        Ready(Some(Err(())))
    }
    fn send_event(&mut self, buf: &[u8], from: u8, to: u8) -> impl Future<Output = Result<Timestamp, ()>> {
        self.events += 1;
        if self.generals != 0 {
            self.order_ok = false;
        }
        self.event_len = buf.len();
        if buf.len() <= OUT {
            self.event[..buf.len()].copy_from_slice(buf);
        }
        self.event_from = from;
        self.event_to = to;
        Ready(Some(self.send_ts))
    }
    fn send_general(&mut self, buf: &[u8], from: u8, to: u8) -> impl Future<Output = Result<(), ()>> {
        self.generals += 1;
        self.general_len = buf.len();
        if buf.len() <= OUT {
            self.general[..buf.len()].copy_from_slice(buf);
        }
        self.general_from = from;
        self.general_to = to;
        Ready(Some(Ok(())))
    }
}

fn new_socket(send_ts: Result<Timestamp, ()>) -> RecSocket {
    RecSocket {
        send_ts,
        events: 0,
        generals: 0,
        order_ok: true,
        event: [0; OUT],
        event_len: 0,
        event_from: 0,
        event_to: 0,
        general: [0; OUT],
        general_len: 0,
        general_from: 0,
        general_to: 0,
    }
}

/// STATEMENT on the real handle_packet, every datagram of <= N bytes, every receive timestamp,
/// every outcome of the event send:
/// - at most one event datagram and at most one general datagram are sent, the general one only
///   after a successful event send;
/// - nothing is sent unless the datagram parses as a CSPTP message and is a request
///   (Sync + CSPTP request TLV, sdoId 0x300, versionPTP 2);
/// - the event datagram (the answer) goes local -> remote and carries the request's domain and
///   sequence id, the request's reception time and correction field in a CSPTP response TLV, and
///   the two-step flag;
/// - the general datagram is a FollowUp with the same ids carrying exactly the timestamp returned
///   by send_event (the actual send time of the answer).
fn handle_packet_contract<const N: usize>() {
    let manager = CsptpManager::<RefCell<InternalState>>::new(CsptpConfig::default());
    let d: [u8; N] = kani::any();
    let len: usize = kani::any();
    kani::assume(len <= N);
    let recv_ts = any_ts();
    let send_ts: Result<Timestamp, ()> = if kani::any() { Ok(any_ts()) } else { Err(()) };
    let mut sock = new_socket(send_ts);
    let remote: u8 = kani::any();
    let local: u8 = kani::any();
    {
        let mut fut = core::pin::pin!(handle_packet(&mut sock, &manager, &d[..len], remote, local, recv_ts));
        let mut cx = Context::from_waker(Waker::noop());
        let r = fut.as_mut().poll(&mut cx);
        assert!(r.is_ready()); // no hidden waiting: every path completes once the socket does
    }
    assert!(sock.events <= 1 && sock.generals <= 1 && sock.order_ok);
    assert!(sock.generals == 0 || (sock.events == 1 && send_ts.is_ok()));
    let is_req = match CsptpMessage::deserialize(&d[..len]) {
        Ok(m) => m.is_request(),
        Err(_) => false,
    };
    if sock.events == 0 {
        // the only reason not to answer is that it was not a request (128-byte scratch and
        // 512-byte send buffers always suffice)
        let request_left_unanswered = is_req;
        assert!(!request_left_unanswered);
    } else {
        assert!(is_req);
        assert!(d[0] == 0x30 && d[5] == 0 && d[1] & 0xf == 2 && len >= 52);
        let e = &sock.event;
        assert!(sock.event_len == 66 || sock.event_len == 88);
        assert!(sock.event_from == local && sock.event_to == remote);
        assert!(e[0] == 0x30 && e[5] == 0 && e[1] == 0x12);
        assert!(u16::from_be_bytes([e[2], e[3]]) as usize == sock.event_len);
        assert!(e[4] == d[4] && e[30] == d[30] && e[31] == d[31]);
        assert!(e[6] & 2 == 2);
        assert!(e[44] == 0xff && e[45] == 0x01 && e[46] == 0 && e[47] == 18);
        let mut rt = [0u8; 10];
        recv_ts.serialize(&mut rt).unwrap();
        let i: usize = kani::any();
        kani::assume(i < 10);
        assert!(e[48 + i] == rt[i]);
        let j: usize = kani::any();
        kani::assume(j < 8);
        assert!(e[58 + j] == d[8 + j]);
        if let Ok(st) = send_ts {
            assert!(sock.generals == 1);
            let g = &sock.general;
            assert!(sock.general_len == 44);
            assert!(sock.general_from == local && sock.general_to == remote);
            assert!(g[0] == 0x38 && g[5] == 0 && g[1] == 0x12 && g[2] == 0 && g[3] == 44);
            assert!(g[4] == d[4] && g[30] == d[30] && g[31] == d[31]);
            let mut sb = [0u8; 10];
            st.serialize(&mut sb).unwrap();
            assert!(g[34 + i] == sb[i]);
        }
    }
    kani::cover!(sock.events == 1 && sock.generals == 1, "request answered with response and follow-up");
    kani::cover!(sock.events == 1 && sock.generals == 0, "event send failed: no follow-up");
    kani::cover!(sock.events == 0 && len == N, "full-size non-request ignored");
    kani::cover!(sock.event_len == 88, "status TLV included");
}

#[kani::proof]
#[kani::unwind(8)]
fn c45_tb_handle_packet_56() {
    handle_packet_contract::<56>();
}

#[kani::proof]
#[kani::unwind(12)]
fn c45_tb_handle_packet_72() {
    handle_packet_contract::<72>();
}

#[cfg(all(kani, test))]
mod replay {
    use super::*;
    include!(concat!(env!("VERIF_REPLAY_DIR"), "/statime_csptp__server.rs"));
}
