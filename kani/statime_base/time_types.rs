// Contract harnesses for statime-base/src/time_types.rs (C32, PTP half).
// Loop-free, full 128-bit domain.
use super::*;

fn any_ts() -> Timestamp<TAI> {
    Timestamp(kani::any(), PhantomData)
}
fn any_dur() -> Duration {
    Duration(kani::any())
}

/// post: timestamp difference is the wrapping (shortest signed) difference; adding it back restores.
#[kani::proof]
fn c32_p_ptp_ts_wrapping_laws() {
    let a = any_ts();
    let b = any_ts();
    let d = a - b;
    assert!(d.0 == a.0.wrapping_sub(b.0) as i128);
    assert!(b + d == a);
    assert!(a - d == b);
    let mut c = b;
    c += d;
    assert!(c == a);
    let mut c = a;
    c -= d;
    assert!(c == b);
    // shortest: if a is "just after" b across the wrap, the difference is small and positive
    if a.0 < b.0 && (b.0 - a.0) > (1u128 << 127) {
        assert!(d.0 > 0);
    }
    let e = any_dur();
    assert!((a + e) - e == a);
    assert!((a + e) - a == e);
    kani::cover!(a.0 < b.0 && d.0 > 0, "wrap reachable");
}

#[kani::proof]
fn c32_p_ptp_dur_add_sub_saturate() {
    let a = any_dur();
    let b = any_dur();
    let s = a + b;
    match a.0.checked_add(b.0) {
        Some(v) => assert!(s.0 == v),
        None => assert!(s.0 == if b.0 > 0 { i128::MAX } else { i128::MIN }),
    }
    let t = a - b;
    match a.0.checked_sub(b.0) {
        Some(v) => assert!(t.0 == v),
        None => assert!(t.0 == if b.0 < 0 { i128::MAX } else { i128::MIN }),
    }
    let mut c = a;
    c += b;
    assert!(c == s);
    let mut c = a;
    c -= b;
    assert!(c == t);
    kani::cover!(s.0 == i128::MAX && a.0 != i128::MAX && b.0 != i128::MAX, "saturation reachable");
}

macro_rules! mul_div_harness {
    ($mname:ident, $dname:ident, $t:ty) => {
        #[kani::proof]
        #[kani::solver(z3)]
        fn $mname() {
            let a = any_dur();
            let s: $t = kani::any();
            let r = a * s;
            match a.0.checked_mul(s as i128) {
                Some(v) => assert!(r.0 == v),
                None => assert!(r.0 == if (a.0 < 0) != ((s as i128) < 0) { i128::MIN } else { i128::MAX }),
            }
            assert!((s * a) == r);
            let mut c = a;
            c *= s;
            assert!(c == r);
            kani::cover!(true, "reachable");
        }
        /// requires s != 0; never panics (MIN / -1 saturates)
        #[kani::proof]
        #[kani::solver(z3)]
        fn $dname() {
            let a = any_dur();
            let s: $t = kani::any();
            kani::assume(s != 0);
            let r = a / s;
            match a.0.checked_div(s as i128) {
                Some(v) => assert!(r.0 == v),
                None => assert!(r.0 == i128::MAX),
            }
            kani::cover!(true, "reachable");
        }
    };
}
mul_div_harness!(c32_p_ptp_dur_mul_u8, c32_p_ptp_dur_div_u8, u8);
mul_div_harness!(c32_p_ptp_dur_mul_i8, c32_p_ptp_dur_div_i8, i8);
mul_div_harness!(c32_p_ptp_dur_mul_u16, c32_p_ptp_dur_div_u16, u16);
mul_div_harness!(c32_p_ptp_dur_mul_i16, c32_p_ptp_dur_div_i16, i16);
mul_div_harness!(c32_p_ptp_dur_mul_u32, c32_p_ptp_dur_div_u32, u32);
mul_div_harness!(c32_p_ptp_dur_mul_i32, c32_p_ptp_dur_div_i32, i32);
mul_div_harness!(c32_p_ptp_dur_mul_u64, c32_p_ptp_dur_div_u64, u64);
mul_div_harness!(c32_p_ptp_dur_mul_i64, c32_p_ptp_dur_div_i64, i64);

#[kani::proof]
fn c32_p_ptp_constructors() {
    let s: u64 = kani::any();
    let n: u32 = kani::any();
    kani::assume(n < 1_000_000_000); // type invariant of a (seconds, nanos) pair
    let t = Timestamp::<UTC>::from_seconds_nanos_since_unix_epoch(s, n);
    assert!((t.0 >> 64) as u64 == s);
    let si: i64 = kani::any();
    let ni: u32 = kani::any();
    kani::assume(ni < 1_000_000_000);
    let d = Duration::from_seconds_nanos(si, ni);
    assert!((d.0 >> 64) as i64 == si);
    let f: f64 = kani::any();
    let fd = Duration::from_f64_seconds(f);
    if f.is_nan() {
        assert!(fd.0 == 0);
    } else if f > 0.0 {
        assert!(fd.0 >= 0);
    } else {
        assert!(fd.0 <= 0);
    }
    if f >= 1e20 {
        assert!(fd.0 == i128::MAX);
    }
    if f <= -1e20 {
        assert!(fd.0 == i128::MIN);
    }
    let a = any_dur();
    let x = a.as_seconds();
    assert!(x.is_finite());
    assert!((a.0 > 0) == (x > 0.0) && (a.0 < 0) == (x < 0.0));
    kani::cover!(true, "reachable");
}

#[kani::proof]
fn c32_canary_ptp_add_wraps() {
    let a = any_dur();
    let b = any_dur();
    assert!((a + b).0 == a.0.wrapping_add(b.0));
}

#[cfg(all(kani, test))]
mod replay {
    extern crate std;
    #[allow(unused_imports)]
    use std::{vec, vec::Vec};
    use super::*;
    include!(concat!(env!("VERIF_REPLAY_DIR"), "/statime_base__time_types.rs"));
}
