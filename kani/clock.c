// C models linked into Kani harnesses with `-Z c-ffi --c-lib` (assumptions A-clock, A-hash):
//  * clock_gettime: nondeterministic but monotone per clock id, tv_nsec in range
//  * dlsym: symbol not found (forces std's raw-syscall fallback)
//  * syscall: models only SYS_getrandom (318 on x86_64): fills the buffer with fixed bytes and reports success for the requested length
#include <stddef.h>
#include <stdint.h>
struct timespec_model { int64_t tv_sec; int64_t tv_nsec; };
int64_t __verif_last_sec = 0;
int64_t __verif_last_nsec = 0;
int64_t __VERIFIER_nondet_int64_t(void);
void __CPROVER_assume(_Bool);
int clock_gettime(int clk, struct timespec_model *ts) {
  int64_t s = __VERIFIER_nondet_int64_t();
  int64_t n = __VERIFIER_nondet_int64_t();
  __CPROVER_assume(n >= 0 && n < 1000000000);
  __CPROVER_assume(s >= __verif_last_sec && s < ((int64_t)1 << 40));
  __CPROVER_assume(s > __verif_last_sec || n >= __verif_last_nsec);
  __verif_last_sec = s; __verif_last_nsec = n;
  ts->tv_sec = s; ts->tv_nsec = n;
  return 0;
}
void *dlsym(void *handle, const char *name) { return (void *)0; }
long syscall(long number, ...) {
  if (number == 318) {
    __builtin_va_list ap; __builtin_va_start(ap, number);
    void *buf = __builtin_va_arg(ap, void *);
    size_t len = __builtin_va_arg(ap, size_t);
    __builtin_va_end(ap);
    for (size_t i = 0; i < len && i < 64; i++) ((unsigned char *)buf)[i] = (unsigned char)(i * 37 + 11);
    return (long)len;
  }
  return -1;
}
