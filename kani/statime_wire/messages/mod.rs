// Contract harnesses for statime-wire/src/messages/mod.rs (child module: sees private items).
// Property C41: whole-message codec (header + body + TLV suffix), every body type.
//
// Bounds: TLV suffix <= 12 bytes (quick) for the round-trip harnesses; parsed byte strings
// <= 80 bytes (quick: header 34 + largest body 30 + 16) / 128 and 256 bytes (thorough).
#![allow(unused_imports)]
use super::*;
use crate::common::{
    ClockAccuracy, ClockIdentity, ClockQuality, PortIdentity, TimeInterval, TimeSource, Timestamp,
    TlvSetBuilder, TlvType, Tlv,
};

// ---------------------------------------------------------------- generators (type invariants only)

fn any_header() -> Header {
    let sdo: u16 = kani::any();
    kani::assume(sdo <= 0xfff);
    let major: u8 = kani::any();
    let minor: u8 = kani::any();
    kani::assume(major < 16 && minor < 16);
    Header {
        sdo_id: SdoId::try_from(sdo).unwrap(),
        version: PtpVersion::new(major, minor).unwrap(),
        domain_number: kani::any(),
        alternate_master_flag: kani::any(),
        two_step_flag: kani::any(),
        unicast_flag: kani::any(),
        ptp_profile_specific_1: kani::any(),
        ptp_profile_specific_2: kani::any(),
        leap61: kani::any(),
        leap59: kani::any(),
        current_utc_offset_valid: kani::any(),
        ptp_timescale: kani::any(),
        time_tracable: kani::any(),
        frequency_tracable: kani::any(),
        synchronization_uncertain: kani::any(),
        correction_field: TimeInterval(kani::any()),
        source_port_identity: any_port(),
        sequence_id: kani::any(),
        log_message_interval: kani::any(),
    }
}

/// Timestamp type invariant = what `Timestamp::new` accepts: seconds < 2^48, nanos < 10^9.
fn any_ts() -> Timestamp {
    let s: u64 = kani::any();
    let n: u32 = kani::any();
    kani::assume(s < (1 << 48) && n < 1_000_000_000);
    Timestamp::new(s, n).unwrap()
}

fn any_port() -> PortIdentity {
    PortIdentity { clock_identity: ClockIdentity(kani::any()), port_number: kani::any() }
}

/// Canonical enum values = images of the parsers (see c41_p_enum_codecs for the others).
fn any_body(kind: MessageType) -> MessageBody {
    match kind {
        MessageType::Sync => MessageBody::Sync(SyncMessage { origin_timestamp: any_ts() }),
        MessageType::DelayReq => MessageBody::DelayReq(DelayReqMessage { origin_timestamp: any_ts() }),
        MessageType::PDelayReq => MessageBody::PDelayReq(PDelayReqMessage { origin_timestamp: any_ts() }),
        MessageType::PDelayResp => MessageBody::PDelayResp(PDelayRespMessage {
            request_receive_timestamp: any_ts(),
            requesting_port_identity: any_port(),
        }),
        MessageType::FollowUp => MessageBody::FollowUp(FollowUpMessage { precise_origin_timestamp: any_ts() }),
        MessageType::DelayResp => MessageBody::DelayResp(DelayRespMessage {
            receive_timestamp: any_ts(),
            requesting_port_identity: any_port(),
        }),
        MessageType::PDelayRespFollowUp => MessageBody::PDelayRespFollowUp(PDelayRespFollowUpMessage {
            response_origin_timestamp: any_ts(),
            requesting_port_identity: any_port(),
        }),
        MessageType::Announce => MessageBody::Announce(AnnounceMessage {
            origin_timestamp: any_ts(),
            current_utc_offset: kani::any(),
            grandmaster_priority_1: kani::any(),
            grandmaster_clock_quality: ClockQuality {
                clock_class: kani::any(),
                clock_accuracy: ClockAccuracy::from_primitive(kani::any()),
                offset_scaled_log_variance: kani::any(),
            },
            grandmaster_priority_2: kani::any(),
            grandmaster_identity: ClockIdentity(kani::any()),
            steps_removed: kani::any(),
            time_source: TimeSource::from_primitive(kani::any()),
        }),
        MessageType::Signaling => MessageBody::Signaling(SignalingMessage { target_port_identity: any_port() }),
        MessageType::Management => MessageBody::Management(ManagementMessage {
            target_port_identity: any_port(),
            starting_boundary_hops: kani::any(),
            boundary_hops: kani::any(),
            action: ManagementAction::from_primitive(kani::any()),
        }),
    }
}

fn body_len(kind: MessageType) -> usize {
    // IEEE 1588-2019 clause 13: body sizes
    match kind {
        MessageType::Sync | MessageType::DelayReq | MessageType::FollowUp | MessageType::Signaling => 10,
        MessageType::PDelayReq | MessageType::PDelayResp | MessageType::DelayResp | MessageType::PDelayRespFollowUp => 20,
        MessageType::Announce => 30,
        MessageType::Management => 14,
    }
}

const SUFFIX_MAX: usize = 12;
const BUF: usize = 34 + 30 + SUFFIX_MAX + 4;

/// Contract for m -> bytes -> m, one body type, any header, any *validated* TLV suffix <= 12 bytes:
/// - wire_size == 34 + body size + suffix size
/// - serialize into a buffer with any prior content that is large enough: Ok(wire_size)
/// - the written length field equals wire_size, the type nibble equals the body type
/// - deserialize of the buffer (exact length or with trailing padding) yields a message equal
///   to m (header, body, suffix)
/// - a buffer one byte too short (or any shorter prefix length) gives Err, never a panic.
fn roundtrip_contract(kind: MessageType) {
    let header = any_header();
    let body = any_body(kind);
    let sb: [u8; SUFFIX_MAX] = kani::any();
    let sn: usize = kani::any();
    kani::assume(sn <= SUFFIX_MAX);
    let suffix = TlvSet::deserialize(&sb[..sn]);
    kani::assume(suffix.is_ok()); // precondition: suffix is a set the parser validated (<= 12 bytes)
    let m = Message { header, body, suffix: suffix.unwrap() };
    let ws = m.wire_size();
    assert!(ws == 34 + body_len(kind) + sn);
    let mut buf: [u8; BUF] = kani::any();
    let r = m.serialize(&mut buf);
    assert!(matches!(r, Ok(x) if x == ws));
    assert!(u16::from_be_bytes([buf[2], buf[3]]) as usize == ws);
    assert!(buf[0] & 0xf == kind as u8);
    let exact: bool = kani::any();
    let back = Message::deserialize(if exact { &buf[..ws] } else { &buf[..] });
    assert!(back.is_ok());
    assert!(back.unwrap() == m);
    kani::cover!(sn == SUFFIX_MAX, "longest suffix round-trips");
    kani::cover!(sn == 0 && exact, "no suffix, exact buffer");
    kani::cover!(!exact, "trailing padding ignored");
}

/// Short output buffers: Err, never a panic (any length below the wire size).
fn short_buffer_contract(kind: MessageType) {
    let m = Message { header: any_header(), body: any_body(kind), suffix: TlvSet::default() };
    let mut buf: [u8; 64] = kani::any();
    let blen: usize = kani::any();
    kani::assume(blen < 34 + body_len(kind));
    let short_buffer_is_err = m.serialize(&mut buf[..blen]).is_err();
    assert!(short_buffer_is_err);
    kani::cover!(blen == 33 + body_len(kind), "one byte short");
    kani::cover!(blen == 0, "empty buffer");
}

macro_rules! roundtrip_harness {
    ($name:ident, $kind:expr) => {
        #[kani::proof]
        #[kani::unwind(14)]
        fn $name() {
            roundtrip_contract($kind);
        }
    };
}
roundtrip_harness!(c41_b_roundtrip_sync, MessageType::Sync);
roundtrip_harness!(c41_b_roundtrip_delay_req, MessageType::DelayReq);
roundtrip_harness!(c41_b_roundtrip_pdelay_req, MessageType::PDelayReq);
roundtrip_harness!(c41_b_roundtrip_pdelay_resp, MessageType::PDelayResp);
roundtrip_harness!(c41_b_roundtrip_follow_up, MessageType::FollowUp);
roundtrip_harness!(c41_b_roundtrip_delay_resp, MessageType::DelayResp);
roundtrip_harness!(c41_b_roundtrip_pdelay_resp_fup, MessageType::PDelayRespFollowUp);
roundtrip_harness!(c41_b_roundtrip_announce, MessageType::Announce);
roundtrip_harness!(c41_b_roundtrip_signaling, MessageType::Signaling);
roundtrip_harness!(c41_b_roundtrip_management, MessageType::Management);

/// m -> bytes -> m with a suffix produced by the library's own TlvSetBuilder (the way
/// statime-csptp builds every message): one or two TLVs with even-length values <= 4 bytes.
/// STATEMENT: whatever the library can serialise parses back to an equal message.
#[kani::proof]
#[kani::unwind(20)]
fn c41_b_roundtrip_built_suffix() {
    let header = any_header();
    let body = any_body(MessageType::Sync);
    let v1: [u8; 4] = kani::any();
    let v2: [u8; 4] = kani::any();
    let n1: usize = kani::any();
    let n2: usize = kani::any();
    kani::assume(n1 <= 4 && n1 % 2 == 0);
    kani::assume(n2 <= 4 && n2 % 2 == 0);
    let t1 = TlvType::from_primitive(kani::any());
    let t2 = TlvType::from_primitive(kani::any());
    let mut storage = [0u8; 16];
    let mut builder = TlvSetBuilder::new(&mut storage);
    assert!(builder.add(&Tlv { tlv_type: t1, value: (&v1[..n1]).into() }).is_ok());
    assert!(builder.add(&Tlv { tlv_type: t2, value: (&v2[..n2]).into() }).is_ok());
    let m = Message { header, body, suffix: builder.build() };
    kani::cover!(n2 == 0, "message ending in an empty-valued TLV");
    kani::cover!(n2 == 4, "message ending in a 4-byte-valued TLV");
    let mut buf = [0u8; 34 + 10 + 16];
    let r = m.serialize(&mut buf);
    assert!(r.is_ok());
    let w = r.unwrap();
    assert!(w == 34 + 10 + 8 + n1 + n2);
    let back = Message::deserialize(&buf[..w]);
    let serialised_message_parses = back.is_ok();
    assert!(serialised_message_parses);
    assert!(back.unwrap() == m);
}

// ---------------------------------------------------------------- bytes -> m -> bytes

/// Clears, in a copy of the input, every field the parser does not keep (all "reserved"/
/// ignored-on-receipt in IEEE 1588-2019) and maps every reserved code to the representative the
/// library emits. This is the complete list of information lost by parse + re-serialise.
fn canonical_form<const N: usize>(b: &[u8; N], kind: MessageType) -> [u8; N] {
    let mut c = *b;
    c[6] &= !0b1001_1000; // reserved flag bits
    c[7] &= !0x80;
    c[16] = 0; // messageTypeSpecific
    c[17] = 0;
    c[18] = 0;
    c[19] = 0;
    c[32] = 0; // controlField (deprecated)
    match kind {
        MessageType::PDelayReq => {
            let mut i = 44;
            while i < 54 {
                c[i] = 0; // reserved to equalise length with PDelayResp
                i += 1;
            }
        }
        MessageType::Announce => {
            c[34 + 12] = 0; // reserved octet
            // clockAccuracy: all reserved codes collapse to 0x00
            let a = c[34 + 15];
            if a <= 0x16 || (0x32..=0x7f).contains(&a) || a == 0xff {
                c[34 + 15] = 0;
            }
        }
        MessageType::Management => {
            c[34 + 10] = 0; // reserved octet
            if c[34 + 13] >= 5 {
                c[34 + 13] = 5; // actionField: every value >= 5 is "Reserved", emitted as 5
            }
        }
        _ => {}
    }
    c
}

fn is_known_type(nibble: u8) -> bool {
    matches!(nibble, 0 | 1 | 2 | 3 | 8 | 9 | 0xa | 0xb | 0xc | 0xd)
}

/// Contract for bytes -> m -> bytes over every N-byte datagram whose type nibble is `kind`
/// (N = 34 + body + S, S = suffix bound; messageLength is free, so shorter messages followed by
/// padding are included):
/// - Message::deserialize never panics and terminates
/// - Ok(m) => messageLength L (octets 2..4) satisfies 34 + body <= L <= N; m.wire_size() == L;
///   m re-serialises (into a zeroed buffer) to exactly L bytes equal to canonical_form(input)[..L];
///   parsing those bytes again gives m (idempotence); iterating the suffix with the public
///   iterator never panics, terminates, and covers the whole suffix.
/// `strict` additionally demands the literal statement (output == input[..L]).
fn reparse_contract<const N: usize>(kind: MessageType, strict: bool) {
    let b: [u8; N] = kani::any();
    kani::assume(b[0] & 0xf == kind as u8);
    let r = Message::deserialize(&b);
    match &r {
        Ok(m) => {
            let l = u16::from_be_bytes([b[2], b[3]]) as usize;
            assert!(m.body.content_type() == kind);
            assert!(l >= 34 + body_len(kind) && l <= N);
            assert!(m.wire_size() == l);
            let mut out = [0u8; N];
            let w = m.serialize(&mut out);
            assert!(matches!(w, Ok(x) if x == l));
            let canon = canonical_form(&b, kind);
            // forall i < l (one symbolic index instead of a comparison loop)
            let i: usize = kani::any();
            kani::assume(i < l);
            assert!(out[i] == canon[i]);
            if strict {
                let reserialises_to_parsed_prefix = out[i] == b[i];
                assert!(reserialises_to_parsed_prefix);
            }
            let again = Message::deserialize(&out[..l]);
            assert!(again.is_ok() && again.unwrap() == *m);
            let mut it = m.suffix.tlvs();
            let mut cnt = 0;
            let mut total = 0;
            while cnt <= N / 4 {
                match it.next() {
                    Some(t) => total += 4 + t.value.len(),
                    None => break,
                }
                cnt += 1;
            }
            assert!(cnt <= N / 4);
            assert!(total == l - 34 - body_len(kind));
            kani::cover!(cnt >= 1, "message with a TLV parsed");
            kani::cover!(l < N, "trailing padding after messageLength ignored");
            kani::cover!(l == N, "message filling the datagram");
        }
        Err(_) => {}
    }
    kani::cover!(r.is_err(), "rejection reachable");
}

macro_rules! reparse_harness {
    ($name:ident, $kind:expr, $n:expr, $strict:expr) => {
        #[kani::proof]
        #[kani::unwind(14)]
        fn $name() {
            reparse_contract::<{ $n }>($kind, $strict);
        }
    };
}
// quick: suffix <= 8 bytes for the three types CSPTP and the announce path use
reparse_harness!(c41_tb_reparse8_sync, MessageType::Sync, 34 + 10 + 8, false);
reparse_harness!(c41_tb_reparse8_follow_up, MessageType::FollowUp, 34 + 10 + 8, false);
reparse_harness!(c41_tb_reparse8_announce, MessageType::Announce, 34 + 30 + 8, false);
// thorough: every type, suffix <= 12 bytes
reparse_harness!(c41_tb_reparse_sync, MessageType::Sync, 34 + 10 + 12, false);
reparse_harness!(c41_tb_reparse_delay_req, MessageType::DelayReq, 34 + 10 + 12, false);
reparse_harness!(c41_tb_reparse_pdelay_req, MessageType::PDelayReq, 34 + 20 + 12, false);
reparse_harness!(c41_tb_reparse_pdelay_resp, MessageType::PDelayResp, 34 + 20 + 12, false);
reparse_harness!(c41_tb_reparse_follow_up, MessageType::FollowUp, 34 + 10 + 12, false);
reparse_harness!(c41_tb_reparse_delay_resp, MessageType::DelayResp, 34 + 20 + 12, false);
reparse_harness!(c41_tb_reparse_pdelay_resp_fup, MessageType::PDelayRespFollowUp, 34 + 20 + 12, false);
reparse_harness!(c41_tb_reparse_announce, MessageType::Announce, 34 + 30 + 12, false);
reparse_harness!(c41_tb_reparse_signaling, MessageType::Signaling, 34 + 10 + 12, false);
reparse_harness!(c41_tb_reparse_management, MessageType::Management, 34 + 14 + 12, false);

/// STATEMENT, literally (see header.rs c41_p_header_reparse_strict): refuted by any input with a
/// non-zero reserved field. Bound: PDelayReq without suffix (54 bytes).
reparse_harness!(c41_tb_reparse_strict_pdelay_req, MessageType::PDelayReq, 54, true);

/// Totality only (no postcondition beyond "returns a value consistent with messageLength"): any
/// byte string of any length <= N, any type nibble.
fn total_contract<const N: usize>() {
    let b: [u8; N] = kani::any();
    let n: usize = kani::any();
    kani::assume(n <= N);
    let r = Message::deserialize(&b[..n]);
    if let Ok(m) = &r {
        assert!(m.wire_size() <= n);
        assert!(m.wire_size() == u16::from_be_bytes([b[2], b[3]]) as usize);
    }
    assert!(is_compatible(&b[..n]) == (n >= 2 && b[1] & 0xf == 2));
    kani::cover!(r.is_ok() && n == N, "full-length message parsed");
    kani::cover!(r.is_err(), "rejection reachable");
}

#[kani::proof]
#[kani::unwind(10)]
fn c41_b_parse_total_64() {
    total_contract::<64>();
}

#[kani::proof]
#[kani::unwind(42)]
fn c41_tb_parse_total_160() {
    total_contract::<160>();
}

// ---------------------------------------------------------------- bodies alone (complete, loop-free)

/// Body codecs, all ten types, full domain, no loops: (1) any canonical body serialises into any
/// buffer of length >= its size (Ok) or shorter (Err, no panic) and parses back equal;
/// (2) any 32 octets cut at any length: parse never panics; Ok => the body re-serialises (zeroed
/// buffer) to the canonical form of the input; too short => Err.
fn body_contract(kind: MessageType) {
    let body = any_body(kind);
    let size = body_len(kind);
    assert!(body.wire_size() == size && body.content_type() == kind);
    let mut buf: [u8; 32] = kani::any();
    let blen: usize = kani::any();
    kani::assume(blen <= 32);
    let r = body.serialize(&mut buf[..blen]);
    if blen >= size {
        assert!(matches!(r, Ok(x) if x == size));
        let back = MessageBody::deserialize(kind, &buf[..blen]);
        assert!(back.is_ok() && back.unwrap() == body);
    } else {
        assert!(r.is_err());
    }
    // bytes -> body -> bytes
    let b: [u8; 32] = kani::any();
    let n: usize = kani::any();
    kani::assume(n <= 32);
    let p = MessageBody::deserialize(kind, &b[..n]);
    if let Ok(pb) = &p {
        assert!(n >= size);
        let mut full = [0u8; 34 + 32];
        full[34..].copy_from_slice(&b);
        let canon = canonical_form(&full, kind);
        let mut out = [0u8; 32];
        assert!(pb.serialize(&mut out).is_ok());
        assert!(out[..size] == canon[34..34 + size]);
        let again = MessageBody::deserialize(kind, &out[..size]);
        assert!(again.is_ok() && again.unwrap() == *pb);
    } else {
        // only two reasons to reject a body: too short, or a nanoseconds field out of range
        assert!(n < size || !matches!(kind, MessageType::Signaling | MessageType::Management));
    }
    kani::cover!(r.is_err(), "short output buffer");
    kani::cover!(p.is_ok() && n == size, "exact-size body parsed");
    kani::cover!(p.is_err(), "rejection reachable");
}

macro_rules! body_harness {
    ($name:ident, $kind:expr) => {
        #[kani::proof]
        #[kani::unwind(34)]
        fn $name() {
            body_contract($kind);
        }
    };
}
body_harness!(c41_p_body_sync, MessageType::Sync);
body_harness!(c41_p_body_delay_req, MessageType::DelayReq);
body_harness!(c41_p_body_pdelay_req, MessageType::PDelayReq);
body_harness!(c41_p_body_pdelay_resp, MessageType::PDelayResp);
body_harness!(c41_p_body_follow_up, MessageType::FollowUp);
body_harness!(c41_p_body_delay_resp, MessageType::DelayResp);
body_harness!(c41_p_body_pdelay_resp_fup, MessageType::PDelayRespFollowUp);
body_harness!(c41_p_body_announce, MessageType::Announce);
body_harness!(c41_p_body_signaling, MessageType::Signaling);
body_harness!(c41_p_body_management, MessageType::Management);

// ---------------------------------------------------------------- leaf enum codecs (complete)

/// post: for every octet v: parse(v).code is v, or, for reserved codes, the representative; the
/// parser's image is closed under parse∘serialise (canonical values round-trip exactly).
#[kani::proof]
fn c41_p_enum_codecs() {
    let v: u8 = kani::any();
    let a = ClockAccuracy::from_primitive(v);
    assert!(ClockAccuracy::from_primitive(a.to_primitive()) == a);
    assert!(a.to_primitive() == v || (a == ClockAccuracy::Reserved && a.to_primitive() == 0));
    let t = TimeSource::from_primitive(v);
    assert!(t.to_primitive() == v);
    assert!(TimeSource::from_primitive(t.to_primitive()) == t);
    let m = ManagementAction::from_primitive(v);
    assert!(ManagementAction::from_primitive(m.to_primitive()) == m);
    assert!(m.to_primitive() == if v < 5 { v } else { 5 });
    let k = MessageType::try_from(v);
    assert!(k.is_ok() == is_known_type(v));
    if let Ok(k) = k {
        assert!(k as u8 == v);
    }
    kani::cover!(a == ClockAccuracy::Reserved && v != 0, "reserved accuracy codes collapse");
    kani::cover!(matches!(a, ClockAccuracy::ProfileSpecific(0x7d)), "largest profile specific code");
}

/// STATEMENT: "every message the library can serialise": ClockAccuracy is a public enum whose
/// ProfileSpecific payload is a free u8; serialising it must not panic.
#[kani::proof]
fn c41_p_clock_accuracy_serialise_total() {
    let p: u8 = kani::any();
    let a = ClockAccuracy::ProfileSpecific(p);
    let code = a.to_primitive(); // 0x80 + p
    assert!(code >= 0x80);
    kani::cover!(p == 0x7d, "reachable");
}

/// Timestamp wire codec: any 10 octets; parse never panics, an accepted timestamp re-serialises to
/// the same octets, a rejected one has a nanoseconds field >= 10^9; valid values round-trip.
#[kani::proof]
fn c41_p_timestamp_codec() {
    let b: [u8; 10] = kani::any();
    let r = Timestamp::deserialize(&b);
    let nanos = u32::from_be_bytes([b[6], b[7], b[8], b[9]]);
    match r {
        Ok(ts) => {
            let mut out = [0u8; 10];
            assert!(ts.serialize(&mut out).is_ok());
            assert!(out == b);
            assert!(ts.seconds() < (1 << 48));
            assert!(ts.nanos() == nanos);
        }
        Err(_) => assert!(nanos >= 1_000_000_000),
    }
    let t = any_ts();
    let mut o = [0u8; 10];
    assert!(t.serialize(&mut o).is_ok());
    let back = Timestamp::deserialize(&o);
    assert!(back.is_ok() && back.unwrap() == t);
    assert!(Timestamp::deserialize(&b[..9]).is_err());
    kani::cover!(r.is_err(), "out-of-range nanoseconds rejected");
}

/// Type invariant: a parsed Timestamp is one `Timestamp::new` would accept (nanos < 10^9). Callers
/// (statime-csptp convert_to_ntp -> NtpTimestamp::from_seconds_nanos_since_ntp_era) rely on it.
#[kani::proof]
fn c41_p_timestamp_parse_invariant() {
    let b: [u8; 10] = kani::any();
    if let Ok(ts) = Timestamp::deserialize(&b) {
        let parsed_timestamp_satisfies_new_invariant = Timestamp::new(ts.seconds(), ts.nanos()).is_ok();
        assert!(parsed_timestamp_satisfies_new_invariant);
    }
    kani::cover!(true, "reachable");
}

/// canary: claims the announce stepsRemoved field does not survive the round trip.
#[kani::proof]
#[kani::unwind(16)]
fn c41_canary_announce_steps_lost() {
    let header = any_header();
    let body = any_body(MessageType::Announce);
    let m = Message { header, body, suffix: TlvSet::default() };
    let mut buf = [0u8; 64];
    let w = m.serialize(&mut buf).unwrap();
    let back = Message::deserialize(&buf[..w]).unwrap();
    match (back.body, m.body) {
        (MessageBody::Announce(x), MessageBody::Announce(y)) => assert!(x.steps_removed != y.steps_removed),
        _ => {}
    }
}

#[cfg(all(kani, test))]
mod replay {
    use super::*;
    include!(concat!(env!("VERIF_REPLAY_DIR"), "/statime_wire__messages__mod.rs"));
}
