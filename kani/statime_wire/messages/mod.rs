// Contract harnesses for statime-wire/src/messages/mod.rs (child module: sees private items).
#![allow(unused_imports)]
use super::*;

#[cfg(all(kani, test))]
mod replay {
    use super::*;
    include!(concat!(env!("VERIF_REPLAY_DIR"), "/statime_wire__messages__mod.rs"));
}
