// Contract harnesses for statime-wire/src/messages/header.rs (child module: sees private items).
// Property C41: PTP common header codec.
#![allow(unused_imports)]
use super::*;
use crate::common::ClockIdentity;

fn any_header() -> Header {
    // type invariants: SdoId is 12 bit (SdoId::try_from), version nibbles < 16 (PtpVersion::new)
    let sdo: u16 = kani::any();
    kani::assume(sdo <= 0xfff);
    let major: u8 = kani::any();
    let minor: u8 = kani::any();
    kani::assume(major < 16 && minor < 16);
    Header {
        sdo_id: SdoId::try_from(sdo).unwrap(),
        version: PtpVersion::new(major, minor).unwrap(),
        domain_number: kani::any(),
        alternate_master_flag: kani::any(),
        two_step_flag: kani::any(),
        unicast_flag: kani::any(),
        ptp_profile_specific_1: kani::any(),
        ptp_profile_specific_2: kani::any(),
        leap61: kani::any(),
        leap59: kani::any(),
        current_utc_offset_valid: kani::any(),
        ptp_timescale: kani::any(),
        time_tracable: kani::any(),
        frequency_tracable: kani::any(),
        synchronization_uncertain: kani::any(),
        correction_field: TimeInterval(kani::any()),
        source_port_identity: PortIdentity {
            clock_identity: ClockIdentity(kani::any()),
            port_number: kani::any(),
        },
        sequence_id: kani::any(),
        log_message_interval: kani::any(),
    }
}

fn any_message_type() -> MessageType {
    let v: u8 = kani::any();
    let r = MessageType::try_from(v);
    kani::assume(r.is_ok());
    r.unwrap()
}

/// post (m -> bytes -> m): every header (all field values), every message type and every content
/// length that fits the 16-bit length field serialises into a 34-byte buffer (whatever it
/// contained before) and parses back to the same header, type and total length; the output does
/// not depend on the buffer's previous content; an oversized length gives Err, never a panic.
#[kani::proof]
fn c41_p_header_roundtrip() {
    let h = any_header();
    let t = any_message_type();
    let content_length: usize = kani::any();
    kani::assume(content_length <= 70_000);
    let mut buf: [u8; 34] = kani::any();
    let mut buf2: [u8; 34] = kani::any();
    let r = h.serialize_header(t, content_length, &mut buf);
    if content_length + 34 <= 0xffff {
        assert!(r.is_ok());
        let back = Header::deserialize_header(&buf);
        assert!(back.is_ok());
        let back = back.unwrap();
        assert!(back.header == h);
        assert!(back.message_type == t);
        assert!(back.message_length as usize == content_length + 34);
        // every one of the 34 bytes is defined by (h, t, length) alone
        assert!(h.serialize_header(t, content_length, &mut buf2).is_ok());
        assert!(buf == buf2);
        // reserved fields are sent as zero
        assert!(buf[16..20] == [0u8; 4] && buf[32] == 0);
        assert!(buf[6] & 0b1001_1000 == 0 && buf[7] & 0x80 == 0);
    } else {
        assert!(r.is_err());
    }
    kani::cover!(r.is_ok() && content_length == 0xffff - 34, "largest message length");
    kani::cover!(r.is_err(), "oversize rejected");
}

/// post (bytes -> m -> bytes): parsing any byte string of length <= 40 never panics; fewer than 34
/// bytes or an unknown message type are rejected; a parsed header re-serialises to the input with
/// the reserved fields (flag bits 3,4,7 of octet 6, bit 7 of octet 7, messageTypeSpecific octets
/// 16..20, controlField octet 32) cleared, and parsing is idempotent on that canonical form.
#[kani::proof]
fn c41_p_header_reparse_canonical() {
    let b: [u8; 40] = kani::any();
    let n: usize = kani::any();
    kani::assume(n <= 40);
    let r = Header::deserialize_header(&b[..n]);
    match r {
        Ok(d) => {
            assert!(n >= 34);
            assert!(matches!(b[0] & 0xf, 0 | 1 | 2 | 3 | 8 | 9 | 0xa | 0xb | 0xc | 0xd));
            assert!(d.message_length == u16::from_be_bytes([b[2], b[3]]));
            assert!(d.message_type as u8 == b[0] & 0xf);
            let mut out = [0u8; 34];
            let len = d.message_length as usize;
            if len >= 34 {
                assert!(d.header.serialize_header(d.message_type, len - 34, &mut out).is_ok());
                let mut canon = [0u8; 34];
                canon.copy_from_slice(&b[..34]);
                canon[6] &= !0b1001_1000;
                canon[7] &= !0x80;
                canon[16] = 0;
                canon[17] = 0;
                canon[18] = 0;
                canon[19] = 0;
                canon[32] = 0;
                assert!(out == canon);
                let again = Header::deserialize_header(&out);
                assert!(again.is_ok() && again.unwrap() == d);
            }
            // parsed values respect the type invariants
            assert!(u16::from(d.header.sdo_id) <= 0xfff);
            assert!(d.header.version.major() < 16 && d.header.version.minor() < 16);
        }
        Err(_) => {
            assert!(n < 34 || !matches!(b[0] & 0xf, 0 | 1 | 2 | 3 | 8 | 9 | 0xa | 0xb | 0xc | 0xd));
        }
    }
    kani::cover!(r.is_ok(), "header parsed");
    kani::cover!(r.is_err() && n >= 34, "unknown message type rejected");
}

/// STATEMENT, literally: "every message it parses re-serialises to the parsed prefix of the input".
/// For the header this is FALSE for inputs with non-zero reserved fields (the parser drops them, the
/// serialiser writes zeros). Kept as the statement-derived obligation; see c41_p_header_reparse_canonical
/// for what does hold.
#[kani::proof]
fn c41_p_header_reparse_strict() {
    let b: [u8; 34] = kani::any();
    if let Ok(d) = Header::deserialize_header(&b) {
        let len = d.message_length as usize;
        kani::assume(len >= 34);
        let mut out = [0u8; 34];
        assert!(d.header.serialize_header(d.message_type, len - 34, &mut out).is_ok());
        let header_bytes_preserved = out == b;
        assert!(header_bytes_preserved);
    }
    kani::cover!(true, "reachable");
}

/// canary: claims the two-step flag is lost in the round trip (false claim: it is preserved).
#[kani::proof]
fn c41_canary_header_flag_lost() {
    let h = any_header();
    let mut buf = [0u8; 34];
    h.serialize_header(MessageType::Sync, 10, &mut buf).unwrap();
    let back = Header::deserialize_header(&buf).unwrap();
    assert!(back.header.two_step_flag != h.two_step_flag);
}

#[cfg(all(kani, test))]
mod replay {
    use super::*;
    include!(concat!(env!("VERIF_REPLAY_DIR"), "/statime_wire__messages__header.rs"));
}
