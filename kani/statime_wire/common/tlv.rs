// Contract harnesses for statime-wire/src/common/tlv.rs (child module: sees private items).
// Property C41 (PTP wire round trip): TLV type codec, single TLV codec, TlvSet::deserialize,
// TlvSetIterator, TlvSetBuilder.
#![allow(unused_imports)]
use super::*;

/// A TLV type is *canonical* when it is the value the parser produces for its own wire code
/// (the payload of Reserved/Legacy/Experimental lies in the range that variant stands for).
/// `TlvType` is a public enum with public payloads, so non-canonical values (e.g. `Reserved(1)`)
/// can be written down by a caller; they serialise to the code of ANOTHER variant.
pub(crate) fn tlv_type_canonical(t: TlvType) -> bool {
    TlvType::from_primitive(t.to_primitive()) == t
}

pub(crate) fn any_tlv_type() -> TlvType {
    // every variant, every payload
    let v: u16 = kani::any();
    match kani::any::<u8>() {
        0 => TlvType::Reserved(v),
        1 => TlvType::Legacy(v),
        2 => TlvType::Experimental(v),
        _ => TlvType::from_primitive(v),
    }
}

// ---------------------------------------------------------------- TLV type codec (complete)

/// post: parse(code).code == code for every 16-bit code (serialise∘parse = id on the wire);
/// parse(serialise(t)) == t for every canonical t; announce_propagate depends on the code only.
#[kani::proof]
fn c41_p_tlvtype_codec() {
    let v: u16 = kani::any();
    let t = TlvType::from_primitive(v);
    assert!(t.to_primitive() == v);
    assert!(tlv_type_canonical(t));
    let u = any_tlv_type();
    if tlv_type_canonical(u) {
        assert!(TlvType::from_primitive(u.to_primitive()) == u);
    }
    assert!(u.announce_propagate() == TlvType::from_primitive(u.to_primitive()).announce_propagate());
    kani::cover!(!tlv_type_canonical(u), "non-canonical TlvType values exist (public enum payload)");
    kani::cover!(matches!(t, TlvType::CsptpResponse), "named variant reachable");
}

// ---------------------------------------------------------------- single TLV codec

const VMAX: usize = 8;

/// post (round trip m -> bytes -> m): for every canonical type and every value of length <= 8
/// (bound; the code is length-generic: one copy_from_slice), serialising into any sufficiently
/// large buffer and parsing yields an equal TLV, whatever follows it in the buffer;
/// too small a buffer gives Err and never panics.
#[kani::proof]
#[kani::unwind(10)]
fn c41_b_tlv_roundtrip() {
    let val: [u8; VMAX] = kani::any();
    let n: usize = kani::any();
    kani::assume(n <= VMAX);
    let t = any_tlv_type();
    kani::assume(tlv_type_canonical(t));
    let tlv = Tlv { tlv_type: t, value: (&val[..n]).into() };
    let mut buf: [u8; VMAX + 6] = kani::any();
    let blen: usize = kani::any();
    kani::assume(blen <= VMAX + 6);
    let r = tlv.serialize(&mut buf[..blen]);
    if blen >= 4 + n {
        assert!(r.is_ok());
        assert!(tlv.wire_size() == 4 + n);
        let back = Tlv::deserialize(&buf[..blen]);
        assert!(back.is_ok());
        let back = back.unwrap();
        assert!(back.tlv_type == t);
        assert!(back.value.len() == n);
        assert!(back.value.as_ref() == &val[..n]);
        assert!(back == tlv);
        // wire layout: type, length, value
        assert!(u16::from_be_bytes([buf[0], buf[1]]) == t.to_primitive());
        assert!(u16::from_be_bytes([buf[2], buf[3]]) as usize == n);
    } else {
        assert!(r.is_err());
    }
    kani::cover!(r.is_ok() && n == 0, "empty-valued TLV serialisable");
    kani::cover!(r.is_ok() && n == VMAX, "largest bounded TLV serialisable");
    kani::cover!(r.is_err(), "short buffer reachable");
}

/// post (bytes -> m -> bytes): every byte string (<= 16 bytes) that parses as a TLV re-serialises to
/// exactly the consumed prefix; parsing never panics.
#[kani::proof]
#[kani::unwind(18)]
fn c41_b_tlv_reparse() {
    const N: usize = 16;
    let b: [u8; N] = kani::any();
    let n: usize = kani::any();
    kani::assume(n <= N);
    let r = Tlv::deserialize(&b[..n]);
    if let Ok(tlv) = r {
        let w = tlv.wire_size();
        assert!(w <= n && w >= 4);
        let mut out: [u8; N] = kani::any();
        assert!(tlv.serialize(&mut out[..w]).is_ok());
        assert!(out[..w] == b[..w]);
        kani::cover!(w == 4, "empty value parsed");
        kani::cover!(w == N, "full buffer parsed");
    } else {
        // rejected exactly when the declared length does not fit
        assert!(n < 4 || n < 4 + u16::from_be_bytes([b[2], b[3]]) as usize);
    }
    kani::cover!(true, "reachable");
}

// ---------------------------------------------------------------- TLV set parsing and iteration

/// Walks a validated set with the REAL iterator and checks that it reproduces the bytes.
/// Returns the number of TLVs. `max` bounds the loop.
fn walk_and_check(set: &TlvSet<'_>, max: usize) -> usize {
    let bytes = set.bytes;
    let mut it = TlvSetIterator { buffer: set.bytes };
    let mut off = 0usize;
    let mut count = 0usize;
    let mut i = 0;
    while i <= max {
        match it.next() {
            None => break,
            Some(tlv) => {
                // each item is the TLV found at the running offset
                assert!(off + 4 <= bytes.len());
                assert!(tlv.tlv_type.to_primitive() == u16::from_be_bytes([bytes[off], bytes[off + 1]]));
                let l = u16::from_be_bytes([bytes[off + 2], bytes[off + 3]]) as usize;
                assert!(tlv.value.len() == l);
                assert!(off + 4 + l <= bytes.len());
                // forall j < l: value[j] == bytes[off+4+j] (symbolic index instead of a loop)
                let j: usize = kani::any();
                if j < l {
                    assert!(tlv.value[j] == bytes[off + 4 + j]);
                }
                off += 4 + l;
                count += 1;
            }
        }
        i += 1;
    }
    // iterator terminated within the bound, is fused, and covered the whole set
    assert!(i <= max);
    assert!(it.next().is_none());
    assert!(off == bytes.len());
    count
}

macro_rules! tlvset_parse_harness {
    ($name:ident, $n:expr, $unwind:expr) => {
        /// post: for every byte string of length <= N: TlvSet::deserialize does not panic and
        /// terminates; Ok(set) => set.bytes is a prefix of (here: equals) the input, of even length,
        /// and the real iterator walks it without panicking (its unwrap and debug_assert are
        /// unreachable), yielding exactly the TLVs laid out in the bytes; the set re-serialises
        /// to the same bytes. Err => the input really is not a sequence of even-length TLVs
        /// (checked against an independent reference walk).
        #[kani::proof]
        #[kani::unwind($unwind)]
        fn $name() {
            const N: usize = $n;
            let b: [u8; N] = kani::any();
            let n: usize = kani::any();
            kani::assume(n <= N);
            let input = &b[..n];
            let r = TlvSet::deserialize(input);
            // independent reference: is the input a concatenation of even-length TLVs?
            let mut off = 0usize;
            let mut well_formed = true;
            let mut k = 0;
            while k <= N / 4 {
                if off == n {
                    break;
                }
                if n - off < 4 {
                    well_formed = false;
                    break;
                }
                let l = u16::from_be_bytes([b[off + 2], b[off + 3]]) as usize;
                if l % 2 != 0 || l > n - off - 4 {
                    well_formed = false;
                    break;
                }
                off += 4 + l;
                k += 1;
            }
            match r {
                Ok(set) => {
                    assert!(set.bytes.len() <= n);
                    assert!(set.bytes == &input[..set.bytes.len()]);
                    assert!(set.bytes.len() % 2 == 0);
                    assert!(set.wire_size() == set.bytes.len());
                    let cnt = walk_and_check(&set, N / 4);
                    let mut out: [u8; N] = kani::any();
                    let w = set.serialize(&mut out);
                    assert!(w.is_ok() && w.unwrap() == set.bytes.len());
                    assert!(out[..set.bytes.len()] == *set.bytes);
                    // accepted => well formed and fully consumed
                    assert!(well_formed);
                    assert!(set.bytes.len() == n);
                    kani::cover!(cnt >= 2, "two TLVs parsed");
                    kani::cover!(n == N, "full-length input parsed");
                    kani::cover!(n == 0, "empty set parsed");
                }
                Err(_) => {
                    // STATEMENT: a well-formed set (which the serialiser can produce) must parse.
                    let well_formed_set_rejected = well_formed;
                    assert!(!well_formed_set_rejected);
                }
            }
            kani::cover!(true, "reachable");
        }
    };
}

// bound: 12 bytes = the suffix bound used for whole messages; complete for that length
tlvset_parse_harness!(c41_b_tlvset_parse_12, 12, 16);
tlvset_parse_harness!(c41_tb_tlvset_parse_32, 32, 36);

/// Same as above but WITHOUT the completeness clause (no claim about rejected inputs): isolates
/// "never panics, accepted sets iterate safely and re-serialise to the input" from the known defect.
macro_rules! tlvset_safety_harness {
    ($name:ident, $n:expr, $unwind:expr) => {
        #[kani::proof]
        #[kani::unwind($unwind)]
        fn $name() {
            const N: usize = $n;
            let b: [u8; N] = kani::any();
            let n: usize = kani::any();
            kani::assume(n <= N);
            let input = &b[..n];
            if let Ok(set) = TlvSet::deserialize(input) {
                assert!(set.bytes.len() == n);
                assert!(set.bytes.as_ptr() == input.as_ptr());
                assert!(set.bytes.len() % 2 == 0);
                let cnt = walk_and_check(&set, N / 4);
                assert!(cnt <= N / 4);
                let mut out: [u8; N] = kani::any();
                let w = set.serialize(&mut out);
                assert!(w.is_ok() && w.unwrap() == n);
                let i: usize = kani::any();
                if i < n {
                    assert!(out[i] == input[i]);
                }
                kani::cover!(cnt >= 2, "two TLVs parsed");
                kani::cover!(n == N, "full-length input parsed");
            }
            kani::cover!(true, "reachable");
        }
    };
}
tlvset_safety_harness!(c41_b_tlvset_safety_24, 24, 9);
tlvset_safety_harness!(c41_tb_tlvset_safety_64, 64, 19);

/// The serialiser side: a set built with the public TlvSetBuilder from up to two TLVs with
/// even-length values (<= 4 bytes each; IEEE 1588 requires even lengthField) must parse back to
/// an equal set, and iterating the BUILT set must yield exactly the TLVs that were added.
/// (DESIGN.md suspected defect: `while buffer.len() > 4` / `len() <= 4`.)
#[kani::proof]
#[kani::unwind(20)]
fn c41_b_tlvset_builder_roundtrip() {
    let v1: [u8; 4] = kani::any();
    let v2: [u8; 4] = kani::any();
    let n1: usize = kani::any();
    let n2: usize = kani::any();
    kani::assume(n1 <= 4 && n1 % 2 == 0);
    kani::assume(n2 <= 4 && n2 % 2 == 0);
    let t1 = TlvType::from_primitive(kani::any());
    let t2 = TlvType::from_primitive(kani::any());
    let two: bool = kani::any();
    let mut storage = [0u8; 16];
    let mut builder = TlvSetBuilder::new(&mut storage);
    let a = Tlv { tlv_type: t1, value: (&v1[..n1]).into() };
    let b = Tlv { tlv_type: t2, value: (&v2[..n2]).into() };
    assert!(builder.add(&a).is_ok());
    if two {
        assert!(builder.add(&b).is_ok());
    }
    let set = builder.build();
    kani::cover!(two && n2 == 0, "built set ending in an empty-valued TLV");
    kani::cover!(!two && n1 == 4, "single TLV");
    assert!(set.bytes.len() == 4 + n1 + if two { 4 + n2 } else { 0 });
    // parse what the serialiser produced
    let mut wire = [0u8; 16];
    let w = set.serialize(&mut wire).unwrap();
    let parsed = TlvSet::deserialize(&wire[..w]);
    let built_set_parses = parsed.is_ok();
    assert!(built_set_parses);
    assert!(parsed.unwrap() == set);
}

/// Iterating a set built by TlvSetBuilder yields exactly the added TLVs (no panic, none dropped).
#[kani::proof]
#[kani::unwind(20)]
fn c41_b_tlvset_builder_iterate() {
    let v1: [u8; 4] = kani::any();
    let v2: [u8; 4] = kani::any();
    let n1: usize = kani::any();
    let n2: usize = kani::any();
    kani::assume(n1 <= 4 && n1 % 2 == 0);
    kani::assume(n2 <= 4 && n2 % 2 == 0);
    let t1 = TlvType::from_primitive(kani::any());
    let t2 = TlvType::from_primitive(kani::any());
    let mut storage = [0u8; 16];
    let mut builder = TlvSetBuilder::new(&mut storage);
    let a = Tlv { tlv_type: t1, value: (&v1[..n1]).into() };
    let b = Tlv { tlv_type: t2, value: (&v2[..n2]).into() };
    assert!(builder.add(&a).is_ok());
    assert!(builder.add(&b).is_ok());
    let set = builder.build();
    kani::cover!(n2 == 0, "built set ending in an empty-valued TLV");
    kani::cover!(n2 == 4 && n1 == 0, "built set with empty TLV in front");
    let mut it = TlvSetIterator { buffer: set.bytes };
    let x = it.next();
    assert!(x == Some(a));
    let y = it.next();
    let iterator_yields_last_tlv = y == Some(b);
    assert!(iterator_yields_last_tlv);
    assert!(it.next().is_none());
}

/// The same two obligations restricted to sets whose LAST TLV has a non-empty value: these must
/// hold (shows the failures above are exactly the trailing-empty-TLV case).
#[kani::proof]
#[kani::unwind(20)]
fn c41_b_tlvset_builder_roundtrip_nonempty_last() {
    let v1: [u8; 4] = kani::any();
    let v2: [u8; 4] = kani::any();
    let n1: usize = kani::any();
    let n2: usize = kani::any();
    kani::assume(n1 <= 4 && n1 % 2 == 0);
    kani::assume(n2 <= 4 && n2 % 2 == 0 && n2 > 0);
    let t1 = TlvType::from_primitive(kani::any());
    let t2 = TlvType::from_primitive(kani::any());
    let mut storage = [0u8; 16];
    let mut builder = TlvSetBuilder::new(&mut storage);
    let a = Tlv { tlv_type: t1, value: (&v1[..n1]).into() };
    let b = Tlv { tlv_type: t2, value: (&v2[..n2]).into() };
    assert!(builder.add(&a).is_ok());
    assert!(builder.add(&b).is_ok());
    let set = builder.build();
    let parsed = TlvSet::deserialize(set.bytes);
    assert!(parsed.is_ok());
    assert!(parsed.unwrap() == set);
    let mut it = TlvSetIterator { buffer: set.bytes };
    assert!(it.next() == Some(a));
    assert!(it.next() == Some(b));
    assert!(it.next().is_none());
    // builder refuses what does not fit, without panicking
    let mut small = [0u8; 6];
    let mut bld = TlvSetBuilder::new(&mut small);
    let r = bld.add(&Tlv { tlv_type: t2, value: (&v2[..n2]).into() });
    assert!(r.is_ok() == (4 + n2 <= 6));
    kani::cover!(n1 == 0, "empty TLV in front is fine");
    kani::cover!(r.is_err(), "builder overflow reported as Err");
}

/// canary: claims that every 8-byte string is a valid TLV set (false: odd length, overrun).
#[kani::proof]
#[kani::unwind(8)]
fn c41_canary_tlvset_accepts_everything() {
    let b: [u8; 8] = kani::any();
    assert!(TlvSet::deserialize(&b).is_ok());
}

#[cfg(all(kani, test))]
mod replay {
    use super::*;
    include!(concat!(env!("VERIF_REPLAY_DIR"), "/statime_wire__common__tlv.rs"));
}
