#!/bin/bash
# usage: confirm_mut.sh <ID> <k> <crate>  -- confirm a seeded change in its scratch worktree /tmp/mut-<ID>:
#  (1) demo passes on the unmodified tree, (2) with the change the existing tests still pass and
#  only the demo fails.  Prints CONFIRMED or NOT-CONFIRMED.
ID=$1; K=$2; CRATE=$3; EXTRA=""; [ "$CRATE" = "statime-csptp" ] && EXTRA="-p ntp-proto"
W=/tmp/mut-$ID; O=$W/out/m$K
cd $W || exit 9
git checkout -q --detach $(git -C /repo rev-parse HEAD) 2>/dev/null; git checkout -- . 
export CARGO_TARGET_DIR=$W/target
demos=$(grep -E "^\+\s*(async )?fn [a-z0-9_]+\(" $O/demo.diff | sed -E 's/.*fn ([a-z0-9_]+)\(.*/\1/' | sort -u | tr '\n' ' ')
git apply $O/demo.diff || { echo "NOT-CONFIRMED demo does not apply"; exit 1; }
cargo test --offline -p $CRATE $EXTRA --lib 2>&1 > $O/run_orig.log
orig=$(grep -E "^test [^ ]+( - should panic)? \.\.\. FAILED" $O/run_orig.log | sed -E 's/^test ([^ ]+) .*/\1/' | awk -F:: '{print $NF}' | sort -u | tr '\n' ' ')
git apply $O/patch.diff || { echo "NOT-CONFIRMED patch does not apply on top of demo"; git checkout -- .; exit 1; }
cargo test --offline -p $CRATE $EXTRA --lib 2>&1 > $O/run_mut.log
failed=$(grep -E "^test [^ ]+( - should panic)? \.\.\. FAILED" $O/run_mut.log | sed -E 's/^test ([^ ]+) .*/\1/' | awk -F:: '{print $NF}' | sort -u | tr '\n' ' ')
git checkout -- . ; git clean -fdq -e out -e target -e BRIEF.txt
# tests failing on the unmodified tree too (sandbox-dependent: network, sockets) are not counted
# tests the sandbox baseline (/root/.vp/BASELINE.json) lists as flaky / always failing are ignored too
flaky=" test_deny_stops_poll creates_a_source recreates_a_source test_control_socket_prometheus test_control_socket_source key_exchange_connection_limiter key_exchange_roundtrip_with_port_server test_poll_sends_state_update_and_packet test_timeroundtrip test_block_during_read test_observation test_server_serves allow_srv_direct_name_resolution test_ipv4 test_ipv6 "
new=""
for f in $failed; do echo " $orig $flaky " | grep -q " $f " || new="$new $f"; done
ok=1
[ -n "$new" ] || ok=0
for f in $new; do echo " $demos " | grep -q " $f " || ok=0; done
for d in $demos; do echo " $orig " | grep -q " $d " && ok=0; done
echo "demos: $demos | failing on the unmodified tree (+demo): $orig | additionally failing with the change:$new"
if [ $ok = 1 ]; then echo "CONFIRMED $ID m$K"; else echo "NOT-CONFIRMED $ID m$K"; fi
