#!/bin/bash
# usage: sweep_thorough.sh <unit>...      (VERIF_HARNESS_TIMEOUT, VERIF_JOBS from the environment)
# Runs every thorough-only harness (tp/tb/tcanary) of the given units on the UNCHANGED tree (a scratch
# worktree of /repo at HEAD, from a snapshot of /verif so that /verif can be edited meanwhile) and
# appends "<harness> <seconds>" to /tmp/sweep/validated.txt for each one that reached its expected
# verdict (discharged, or canary refuted). Refuted / vacuous ones go to /tmp/sweep/problems.txt.
S=/tmp/verif-snap2; W=/tmp/sweeprepo; O=/tmp/sweep
mkdir -p $O $O/evidence
if [ -z "$SWEEP_NOSETUP" ]; then
if [ ! -d $S ]; then mkdir -p $S; rsync -a --exclude build --exclude .git /verif/ $S/; fi
if [ ! -d $W ]; then git -C /repo worktree prune; git -C /repo worktree add -q --detach $W HEAD; fi
( cd $W && git checkout -q --detach $(git -C /repo rev-parse HEAD) && git checkout -- . && git clean -fdq )
grep -rl '"/verif/kani/' $W --include=*.rs | xargs sed -i "s#\"/verif/kani/#\"$S/kani/#"
fi
for U in "$@"; do
  echo "=== $U $(date +%T)" >> $O/log.${SWEEP_TAG:-0}
  ( cd $S && VERIF_SWEEP=1 VERIF_SKIP_EXTRA=1 VERIF_KINDS=tp,tb,tcanary VERIF_NO_REPLAY=1 VERIF_REPO=$W VERIF_EVIDENCE_DIR=$O/evidence \
      VERIF_HARNESS_TIMEOUT=${VERIF_HARNESS_TIMEOUT:-900} VERIF_JOBS=${VERIF_JOBS:-6} ./check $U --tier thorough > $O/$U.log 2>&1; echo "rc=$?" >> $O/log.${SWEEP_TAG:-0} )
  python3 - $U >> $O/log.${SWEEP_TAG:-0} <<'PY'
import json,sys
u=sys.argv[1]
try: ev=json.load(open('/tmp/sweep/evidence/%s.json'%u))
except Exception as e: print('no evidence',e); sys.exit()
import re
log=open('/tmp/sweep/%s.log'%u).read()
for m in re.finditer(r"^  (\S+)[ \t]+(tp|tb|tcanary)[ \t]+(\S+)[ \t]*(.*)$", log, re.M):
    v,k,n,why=m.groups()
    print(' ',v,k,n,why[:160])
PY
done
echo SWEEPDONE >> $O/log.${SWEEP_TAG:-0}
