#!/usr/bin/env python3
"""Regenerate /verif/MANIFEST.json from units/*.json + the per-property texts below."""
import json, os, subprocess

V = os.path.dirname(os.path.dirname(os.path.abspath(__file__)))

NA = {
 "C06": "floating-point, nonlinear (matrix inverse, sqrt) invariant over unbounded histories: no contract within reach of Kani (bounded, bit-blasted floats) or Verus (no float theory) is inductive; DESIGN.md §6",
 "C28": "deciding logic is inline in async fns over tokio_rustls streams and TLS key export; there is no synchronous function to put a contract on, Verus rejects async, Kani cannot execute rustls",
 "C29": "same async connection handler as C28 (pool tokens and keep-alive are decided inline in async code over TLS streams)",
 "C30": "every NTS-KE parser is an async fn over AsyncRead; string records need from_utf8, which CBMC does not finish; out of reach of both verifiers",
 "C35": "pool bookkeeping lives in async spawner tasks interleaved with DNS and channel sends in the ntpd crate; a schedule property, not a per-call contract",
 "C36": "timing/schedule property of a tokio task loop; contracts cannot express pacing",
 "C25": "not claimed: tamper-evidence is a property of AES-SIV (assumed, A3); the contract around it (the cipher receives exactly nonce / ciphertext / everything-before-the-field as associated data; failure yields no fields) is written (c25_* in kani/ntp_proto/packet/extension_fields.rs, unit parked as units/C25.json.wip) but its quick harness does not finish within 25 min; the slice-formation half is discharged under C23 (c23_b_encrypted_field_from_message_bytes_total)",
 "C38": "async framing plus serde_json; only its numeric clause is a contract and that one is discharged under C32",
}

# property -> (category, level text, level note, technique)
TEXT = {}
def T(pid, cat, text, note, tech):
    TEXT[pid] = (cat, text, note, tech)

KANI_FULL = "contract-based deductive verification: Kani/CBMC contract harnesses on the real functions (compiled in place), full input domain"
T("C32", "proof",
  "Every operator and conversion of the NTP and PTP time types carries a postcondition taken from the statement (wrapping difference, saturating arithmetic, no panic, 1 ppb + 1 unit round trip, wire-format round trips); each is discharged by a loop-free Kani harness over the full bit domain of its inputs, which is a complete proof for all inputs.",
  "Trusted: Kani's rustc front end and std model, CBMC bit-precise integer and IEEE-754 semantics, SAT/SMT solvers (cadical, z3, cvc5). Division contracts require divisor != 0; from_seconds requires a finite argument.",
  KANI_FULL + ", loop-free")
T("C01", "proof",
  "check_offset_steer / steer_offset / StepThreshold::is_within carry postconditions written from the statement (a step reaches the clock only inside every applicable threshold, equals the requested change, accumulated steps account for it and stay within the accumulated threshold; otherwise exit is reached before any step); discharged by Kani for every finite change, every non-negative threshold configuration and both startup states. The sum-over-history clause is an induction over this one-call contract (argued, anchored syntactically).",
  "Trusted: Kani/CBMC; HashMap->VecMap source transform (the map is not involved); stubs for tracing and std::process::exit (assumed not to return). Assumes thresholds >= 0 (C39) and finite change (C06 n/a).",
  "contract-based deductive verification: Kani/CBMC function-contract harnesses on the real steering functions, callee from_seconds abstracted by its contract (uninterpreted function)")
T("C02", "proof",
  "steer_frequency, change_desired_frequency and the slew arm of steer_offset: for every finite kernel-reported offset (in or out of range), requested change and finite non-negative maximum, the frequency handed to the clock lies in [-max,+max]; every slew uses an extra frequency <= the configured slew maximum; bit-precise IEEE-754, all inputs.",
  "Trusted: Kani/CBMC float bit-blasting; VecMap transform. Assumes finite estimates (C06 n/a) and the stated configuration ranges for the slew arm.",
  KANI_FULL + " (bit-precise f64)")
T("C03", "other",
  "select(): bounded Kani harness (2 candidates, 3 in thorough tier) with fully symbolic candidates against the statement's majority/overlap predicate; update_clock(): the candidate list is exactly the usable registered sources with a snapshot, and an empty selection leaves clock and state untouched. Bounded in the number of sources, hence not a proof.",
  "Bounded stand-in: number of candidates/sources. Assumes non-NaN estimates; sqrt treated as an uninterpreted non-negative value.",
  "contract-based deductive verification (Kani/CBMC), bounded in the number of sources; callees replaced by contract stand-ins")
T("C04", "proof",
  "vote_leap's real body is extracted mechanically and verified by Verus with a loop invariant for selections of any length against the statement (strict majority ignoring Unknown, None otherwise, uniqueness lemma); the application of the vote in update_clock (status_update exactly when Some, previous indicator kept on None) is a Kani contract harness (bounded to 1 registered source).",
  "Trusted: Verus/Z3, Kani/CBMC, the extractor (declared rewrite of the for-loop header to name the ghost iterator). SourceSnapshot abstracted to the field read (checked mechanically). combine -> vote_leap(selection) is a syntactic anchor.",
  "contract-based deductive verification: Verus (requires/ensures/invariant on the extracted real body) + Kani contract harness for the caller")
T("C05", "proof",
  "The real two-way and one-way wrapper methods are checked against the on-wire formulas stated over era-extended true times (i128 oracle) for all 2^256 timestamp quadruples; the packet-field -> T1..T4 mapping is a second contract in source.rs.",
  "Trusted: Kani/CBMC; tokio channel replaced by a FIFO shim (no message is sent in these obligations).",
  KANI_FULL + ", loop-free")
T("C37", "other",
  "Sequential contracts on remove_source / source_update / source_message / candidate filter of the real controller (removed or unknown ids are ignored, usability flag follows the last report, only usable registered sources reach selection). The interleaving quantifier is reduced to these by two concurrency facts that are assumed (single mutex, per-source FIFO), so this is not a proof of the statement as quantified.",
  "Assumes handler atomicity and channel order (not checkable with Kani/Verus here); VecMap transform; bounded to 1+1 sources.",
  "contract-based deductive verification (Kani/CBMC) of the per-call contracts; interleaving step argued")
T("C40", "proof",
  "deserialize_sample is extracted verbatim and verified over every receive result and all 2^320 buffers: Ok => exact size, magic, zero pulse, finite offset; Err => one of them fails; never panics; the consumer expression cannot panic for finite offsets.",
  "Trusted: Kani/CBMC, the extractor (drops attributes/visibility only). The async receive loop's use of the function is a syntactic anchor.",
  "contract-based deductive verification: Kani/CBMC on mechanically extracted real functions, full domain")
T("C10", "proof",
  "PollInterval::{inc,dec,force_inc,as_duration,as_system_duration} exhaustively over i8; the filter's update_desired_poll keeps min <= desired <= max and |score| < hysteresis for every (p, weight, period) including NaN; get_desired_poll; the source's current_poll_interval / timer expression (source.rs harnesses).",
  "Assumes min <= max, min <= initial <= max and hysteresis >= 1 (configuration is not validated by the code: stated precondition).",
  KANI_FULL)


def main():
    units = sorted(f[:-5] for f in os.listdir(os.path.join(V, "units")) if f.endswith(".json"))
    checks = []
    for pid in units:
        u = json.load(open(os.path.join(V, "units", pid + ".json")))
        cat, text, note, tech = TEXT.get(pid, (u.get("level", "other"), u.get("explanation", "")[:600],
                                               "; ".join(u.get("assumptions", []))[:600],
                                               u.get("technique", "contract-based deductive verification (Kani/CBMC contract harnesses on the real functions)")))
        if u.get("level") != "proof" and cat == "proof":
            cat = "other"
        # the category is what the check's own evidence reports (a bounded stand-in or an undecided
        # obligation in the unit makes the run report `other`, never `proof`)
        evp = os.path.join(V, "evidence", pid + ".json")
        if os.path.exists(evp):
            try:
                cat = json.load(open(evp))["level"]
            except Exception:
                pass
        checks.append({
            "property_id": pid,
            "quick_cmd": "./check %s --tier quick" % pid,
            "thorough_cmd": "./check %s --tier thorough" % pid,
            "evidence_file": "/verif/evidence/%s.json" % pid,
            "replay_cmd_template": "./check %s --replay {path}" % pid,
            "engine": "verus-extract+kani" if u.get("verus") else ("kani-extract" if u.get("kani_extract") and not u.get("kani") else "kani-inplace"),
            "level_claimed": {"category": cat, "text": text, "design_ref": "DESIGN.md §5 " + pid},
            "level_note": note or "see evidence assumptions",
            "technique": tech,
        })
    claimed = set(units)
    try:
        commits = subprocess.run(["git", "-C", "/repo", "log", "--format=%h %s"], stdout=subprocess.PIPE, text=True).stdout.splitlines()
        hooks = [c.split()[0] for c in commits if "verification hook" in c]
    except Exception:
        hooks = []
    m = {
        "version": 1,
        "setup_cmd": "true",
        "hooks": {
            "guard": "cfg(kani)",
            "enable": "`cargo kani` (run by ./check inside /repo's crates, or inside a fresh transformed copy build/xrepo) sets --cfg kani; the hook modules `#[cfg(kani)] #[path=\"/verif/kani/<crate>/<file>.rs\"] mod verif;` and the [target.'cfg(kani)'.dependencies] tables are compiled only then",
            "baseline_off_cmd": "cd /repo && cargo test --workspace --no-fail-fast --offline",
            "source_commits": hooks,
            "add_only": True,
        },
        "engines": [
            {"name": "kani-inplace", "path": "/verif/check", "serves_properties": [c["property_id"] for c in checks if c["engine"] == "kani-inplace"],
             "kind_free_text": "Kani 0.68 / CBMC 6.11 contract harnesses compiled inside /repo's crates (cfg(kani) child modules of the defining files; for HashMap/tokio-channel code inside a fresh copy with the declared transforms.json substitution); solvers cadical, z3, cvc5"},
            {"name": "verus-extract+kani", "path": "/verif/check", "serves_properties": [c["property_id"] for c in checks if c["engine"] == "verus-extract+kani"],
             "kind_free_text": "Verus 0.2026.09.13 on function bodies extracted mechanically from /repo on every run (lib/extract.py), contracts and loop invariants spliced from verus/*.vspec; plus Kani harnesses for callers"},
            {"name": "kani-extract", "path": "/verif/check", "serves_properties": [c["property_id"] for c in checks if c["engine"] == "kani-extract"],
             "kind_free_text": "Kani on items extracted mechanically from crates Kani cannot compile (ntpd)"},
        ],
        "checks": checks,
        "not_applicable": [{"property_id": k, "reason": v} for k, v in sorted(NA.items()) if k not in claimed],
        "notes": "exit 2 of ./check means undecided (lost anchor, time-out, unsupported construct, vacuity guard), never an alarm. See DESIGN.md.",
    }
    # properties neither claimed nor n/a yet: listed as not applicable *for now* with the reason
    props = [json.loads(l)["id"] for l in open(os.path.join(V, "properties.jsonl"))]
    for p in props:
        if p not in claimed and p not in NA:
            m["not_applicable"].append({"property_id": p, "reason": "not claimed yet: its contract harnesses are still being built (see DESIGN.md §5 for the plan); no check is registered"})
    json.dump(m, open(os.path.join(V, "MANIFEST.json"), "w"), indent=1)
    print("manifest: %d checks, %d not applicable" % (len(checks), len(m["not_applicable"])))


if __name__ == "__main__":
    main()
