#!/usr/bin/env python3
"""collect_sweep.py: build /verif/thorough-validated.txt from the sweep logs (/tmp/sweep/C*.log written by
tools/sweep_thorough.sh): every thorough-only harness that reached its expected verdict on the unchanged tree
(discharged, canary refuted, or a listed known finding), with the CBMC time the driver recorded."""
import glob, json, os, re
ok, other = {}, {}
for f in sorted(glob.glob("/tmp/sweep/C*.log")):
    unit = os.path.basename(f)[:-4]
    log = open(f).read()
    dur = {}
    try:
        ev = json.load(open("/tmp/sweep/evidence/%s.json" % unit))
        for s in ev["coverage"]["samples"]:
            dur[s["obligation"]] = s.get("solver_s") or 0
    except Exception:
        pass
    for m in re.finditer(r"^  (\S+)[ \t]+(tp|tb|tcanary)[ \t]+(\S+)[ \t]*(.*)$", log, re.M):
        v, k, n, why = m.groups()
        if v in ("discharged", "canary-ok", "known-finding"):
            ok[n] = max(ok.get(n, 0), dur.get(n, 0))
        else:
            other[n] = (v, why[:100])
for n in ok:
    other.pop(n, None)
with open("/verif/thorough-validated.txt", "w") as f:
    f.write("# thorough-only harnesses that reached their verdict on the unchanged tree in the sweep of 2026-09-22\n")
    f.write("# (tools/sweep_thorough.sh: 15 min per harness, 2-4 harnesses at a time per worker, 62 GB machine under load)\n")
    f.write("# <harness> <solver seconds in the sweep>\n")
    for n in sorted(ok):
        f.write("%s %.0f\n" % (n, ok[n]))
print(len(ok), "validated;", len(other), "without verdict")
for n in sorted(other):
    print("  no verdict:", n, other[n][0])
