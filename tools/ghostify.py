#!/usr/bin/env python3
"""Wrap every ghost `static` of the harness files in Ghost<..> with a unique non-zero tag
(Kani 0.68 aliases a static with every constant that has the same initial bytes)."""
import re, sys, glob, hashlib
files = sys.argv[1:]
for p in files:
    s = open(p).read()
    out = []
    i = 0
    n = 0
    pat = re.compile(r"^((?:pub(?:\([a-z]+\))? )?)static (\w+): ", re.M)
    while True:
        m = pat.search(s, i)
        if not m:
            out.append(s[i:]); break
        out.append(s[i:m.start()])
        # parse type up to ' = ' at depth 0, then expr up to ';' at depth 0
        j = m.end(); depth = 0
        while True:
            c = s[j]
            if c in "([<": depth += 1
            elif c in ")]>": depth -= 1
            elif s.startswith(" = ", j) and depth == 0: break
            j += 1
        ty = s[m.end():j]
        k = j + 3; depth = 0
        while True:
            c = s[k]
            if c in "([{": depth += 1
            elif c in ")]}": depth -= 1
            elif c == ";" and depth == 0: break
            k += 1
        expr = s[j + 3:k]
        if ty.startswith("Ghost<") or ty.startswith("crate::verif_common::Ghost<"):
            out.append(s[m.start():k + 1])
        else:
            tag = int(hashlib.sha1((p + m.group(2)).encode()).hexdigest()[:14], 16) | (0x67 << 56)
            out.append("%sstatic %s: GHOST<%s> = GHOST::new(0x%016x, %s);" % (m.group(1), m.group(2), ty, tag, expr))
            n += 1
        i = k + 1
    s2 = "".join(out)
    ghost = "crate::verif_common::Ghost" if "/ntp_proto/" in p else "Ghost"
    s2 = s2.replace("GHOST<", ghost + "<").replace("GHOST::new", ghost + "::new")
    open(p, "w").write(s2)
    print(p, n, "statics wrapped")
