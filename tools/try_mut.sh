#!/bin/bash
# usage: try_mut.sh <property-id> <patch.diff> [tag]
# Apply a seeded change to a scratch worktree of /repo (never to /repo itself) and run the check
# against it FROM A SNAPSHOT of /verif (/tmp/verif-snap, refreshed with `try_mut.sh --snapshot`),
# so that editing /verif meanwhile does not disturb the run. Evidence goes to /tmp/mut-evidence.
S=${MUTS:-/tmp/verif-snap}
if [ "$1" = "--snapshot" ]; then
  rm -rf $S; mkdir -p $S; rsync -a --exclude build --exclude .git /verif/ $S/; echo "snapshot of /verif at $S"; exit 0
fi
ID=$1; P=$2; TAG=$3
[ -d $S ] || { echo "no snapshot: run try_mut.sh --snapshot"; exit 9; }
W=${MUTW:-/tmp/mutrepo}
if [ ! -d $W ]; then git -C /repo worktree prune; git -C /repo worktree add -q --detach $W HEAD; fi
cd $W || exit 9
git checkout -q --detach $(git -C /repo rev-parse HEAD) && git checkout -- . && git clean -fdq
git apply "$P" || { echo "patch does not apply"; exit 9; }
# point the hooks of the scratch tree at the snapshot's harness files
grep -rl '"/verif/kani/' $W --include=*.rs | xargs sed -i "s#\"/verif/kani/#\"$S/kani/#"
mkdir -p /tmp/mut-evidence
cd $S && VERIF_NO_REPLAY=1 VERIF_REPO=$W VERIF_EVIDENCE_DIR=/tmp/mut-evidence ./check $ID > /tmp/try_mut_$ID.log 2>&1; rc=$?
[ -n "$TAG" ] && cp /tmp/try_mut_$ID.log /tmp/try_mut_${ID}_$TAG.log
git -C $W checkout -- .
echo "check $ID rc=$rc"; grep -E "^VIOLATION|^UNDECIDED|refuted|KNOWN" /tmp/try_mut_$ID.log | cut -c1-400
