#!/bin/bash
# usage: try_mut.sh <property-id> <patch.diff>
# apply a seeded change to a scratch worktree of /repo (never to /repo itself while other checks
# run), run the check against it (VERIF_REPO), report, and reset the worktree.
ID=$1; P=$2
W=/tmp/mutrepo
if [ ! -d $W ]; then git -C /repo worktree prune; git -C /repo worktree add -q --detach $W HEAD; fi
cd $W || exit 9
git checkout -q --detach $(git -C /repo rev-parse HEAD) && git checkout -- . && git clean -fdq
git apply "$P" || { echo "patch does not apply"; exit 9; }
mkdir -p /tmp/mut-evidence
cd /verif && VERIF_REPO=$W VERIF_EVIDENCE_DIR=/tmp/mut-evidence ./check $ID > /tmp/try_mut_$ID.log 2>&1; rc=$?; [ -n "$3" ] && cp /tmp/try_mut_$ID.log /tmp/try_mut_${ID}_$3.log
git -C $W checkout -- .
echo "check $ID rc=$rc"; grep -E "^VIOLATION|^UNDECIDED|refuted|KNOWN" /tmp/try_mut_$ID.log | cut -c1-400
