#!/usr/bin/env python3
"""mkmutbrief.py <ID> [hint...]: create /tmp/mut-<ID> worktree + BRIEF.txt for a mutation-seeding agent."""
import json, subprocess, sys, os
pid = sys.argv[1]
hint = " ".join(sys.argv[2:])
p = [json.loads(l) for l in open('/verif/properties.jsonl') if json.loads(l)['id'] == pid][0]
D = '/tmp/mut-' + pid
subprocess.run(['/verif/tools/mkmut.sh', pid], check=True, stdout=subprocess.DEVNULL)
files = ", ".join(p['anchors']['files'])
brief = f"""You are testing how well an (undisclosed) verification setup detects regressions in the Rust repository ntpd-rs (an NTP/NTS daemon). You get ONE semantic property of the code base and a scratch git worktree of the repository at WORKTREE={D}. Work only inside {D}. Do not read or use anything under /verif or /repo (the sources contain `#[cfg(kani)] #[path = "/verif/..."] mod verif;` hook lines: ignore them, leave them in place, and do not open those paths).

PROPERTY ({pid}, "{p['title']}"): {p['statement']} (Quantified over: {p['quantifier']['text']}.) Relevant code: {files}. {hint}

Task: produce up to TWO different small source changes ("mutations") to the repository, each of which
  1. makes the property FALSE for the real code (a genuine behavioural regression of exactly this property),
  2. still compiles, and the EXISTING test suite still passes unchanged (run at least `cargo test --offline -p <crate you touched>`; set CARGO_TARGET_DIR={D}/target),
  3. needs something specific to manifest - an unusual input, a boundary value, a particular configuration, a multi-step sequence, or two cooperating sites that each look fine alone - NOT something ordinary use or the existing tests would expose at once. Realistic "plausible bug" style (off-by-one, wrong comparison operator, missing check, swapped operands, wrong constant, dropped saturation or clamp, ...), touching the functions that implement the property. Do not add dead code, cfg tricks, or changes guarded on magic values. Prefer two mutations at different sites.
  4. comes with a demonstration: a new unit test (a patch adding a #[test] next to the code, or a small program) that FAILS with the mutation and PASSES on the unmodified worktree. Verify both directions yourself.

Deliverables, written to {D}/out/ (create it): for mutation k in {{1,2}}: `mk/patch.diff` (git diff of the source change only, applicable with `git apply` at the repository root), `mk/demo.diff` (git diff adding only the demonstration test; must apply on both the original and the mutated tree), `mk/meta.json` with keys: property, files_touched, what_changes, why_property_breaks, what_it_needs_to_manifest, commands_run (the exact test commands and their outcome with and without the mutation). Restore the worktree to its original state at the end (`git checkout -- .`, keep out/). Final answer: a 10-line summary of the two mutations.
"""
open(D + '/BRIEF.txt', 'w').write(brief)
print(D + '/BRIEF.txt')
