#!/usr/bin/env python3
"""save_seeded.py <ID> <k> <crate> : copy a confirmed seeded change into /verif/seeded/<ID>-m<k>/ with meta.json
(agent's description + my confirmation from out/m<k>/run_*.log + detection from /tmp/try_mut_<ID>_m<k>.log)."""
import json, os, re, shutil, sys
pid, k, crate = sys.argv[1], sys.argv[2], sys.argv[3]
src = "/tmp/mut-%s/out/m%s" % (pid, k)
dst = "/verif/seeded/%s-m%s" % (pid, k)
os.makedirs(dst, exist_ok=True)
for f in ("patch.diff", "demo.diff"):
    shutil.copy(os.path.join(src, f), dst)
meta = json.load(open(os.path.join(src, "meta.json")))
def failed(log):
    return sorted(set(m.group(1).split("::")[-1] for m in re.finditer(r"^test (\S+)(?: - should panic)? \.\.\. FAILED", open(log).read(), re.M)))
conf = {}
if os.path.exists(src + "/run_orig.log"):
    conf = {"worktree": "/tmp/mut-%s (scratch git worktree of /repo, removed afterwards)" % pid,
            "cmd": "git apply demo.diff; cargo test --offline -p %s --lib   (then) git apply patch.diff; cargo test --offline -p %s --lib" % (crate, crate),
            "failed_tests_unmodified_tree_plus_demo": failed(src + "/run_orig.log"),
            "failed_tests_with_change": failed(src + "/run_mut.log")}
det = {}
dl = "/tmp/try_mut_%s_m%s.log" % (pid, k)
if os.path.exists(dl):
    t = open(dl).read()
    det = {"cmd": "tools/try_mut.sh %s seeded/%s-m%s/patch.diff  (applies the change to a scratch worktree, runs ./check %s against it)" % (pid, pid, k, pid),
           "exit": 1 if "VIOLATION" in t else (2 if "UNDECIDED" in t else 0),
           "refuted_obligations": sorted(set(re.findall(r"refuted obligation (\w+)", t))),
           "violation_lines": re.findall(r"^VIOLATION.*$", t, re.M)[:4]}
earlier = None
mp = os.path.join(dst, "meta.json")
if os.path.exists(mp):
    try:
        old = json.load(open(mp))
        earlier = old.get("earlier_detection")
        od = old.get("detection", {})
        if od and det and od.get("exit") != det.get("exit") and od.get("exit") in (0, 2):
            earlier = {"exit": od.get("exit"), "note": "before the checks were strengthened (see DESIGN.md section 9)"}
    except Exception:
        pass
out = {"property": pid, "breaks": meta.get("why_property_breaks"), "what_changes": meta.get("what_changes"),
       "needs_to_manifest": meta.get("what_it_needs_to_manifest"), "files_touched": meta.get("files_touched"),
       "author": "independent sub-agent given only the property text and a scratch worktree",
       "agent_commands_run": meta.get("commands_run"), "my_confirmation": conf, "detection": det}
if earlier:
    out["earlier_detection"] = earlier
json.dump(out, open(os.path.join(dst, "meta.json"), "w"), indent=1)
print(dst, det.get("exit"), det.get("refuted_obligations"))
