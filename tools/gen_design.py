#!/usr/bin/env python3
"""Fill the generated blocks of DESIGN.md from units/*.json, evidence/*.json, known-findings.txt,
notes/*.md and seeded/*/meta.json."""
import glob, json, os, re
V = os.path.dirname(os.path.dirname(os.path.abspath(__file__)))
props = {json.loads(l)["id"]: json.loads(l) for l in open(os.path.join(V, "properties.jsonl"))}
man = json.load(open(os.path.join(V, "MANIFEST.json")))
na = {x["property_id"]: x["reason"] for x in man.get("not_applicable", [])}

def per_property():
    out = ["## 5. Per-property claims (generated from units/*.json and the last evidence)\n"]
    for pid in sorted(props):
        p = props[pid]
        up = os.path.join(V, "units", pid + ".json")
        if not os.path.exists(up):
            out.append("### %s %s — NOT CLAIMED\n%s\n" % (pid, p["title"], na.get(pid, "")))
            continue
        u = json.load(open(up))
        ev = {}
        ep = os.path.join(V, "evidence", pid + ".json")
        if os.path.exists(ep):
            ev = json.load(open(ep))
        cov = ev.get("coverage", {})
        engines = []
        for part in u.get("kani", []):
            engines.append("Kani in %s%s%s" % (part["crate_dir"], " (transformed copy)" if part.get("transform") else " (in place)", ", clock model" if part.get("c_ffi") else ""))
        for x in u.get("kani_extract", []):
            engines.append("Kani on extracted unit `%s`" % x)
        for x in u.get("verus", []):
            engines.append("Verus on extracted unit `%s`" % x)
        out.append("### %s %s — level `%s`" % (pid, p["title"], ev.get("level", u.get("level"))))
        out.append("*Engines:* " + "; ".join(engines) + ".  ")
        if cov:
            out.append("*Last run:* %s obligation units (%s CBMC/SMT checks, %s discharged), complete: %d, bounded: %d, canaries refuted: %d, solver %.0f s, wall %.0f s.  " % (
                cov.get("obligation_units"), cov.get("obligations"), cov.get("discharged"), len(cov.get("complete_units", [])),
                len(cov.get("bounded_units", [])), sum(1 for c in cov.get("canaries", []) if c["verdict"] == "canary-ok"),
                cov.get("solver_time_s", 0), ev.get("wall_s", 0)))
        out.append("*Functions under contract:*")
        for f in u.get("functions_under_contract", []):
            out.append("- " + f)
        out.append("\n" + u.get("explanation", "").strip() + "\n")
        if u.get("bounds"):
            out.append("*Bounds:* " + u["bounds"] + "\n")
        if u.get("assumptions"):
            out.append("*Assumed / unchecked:*")
            for a in u["assumptions"]:
                out.append("- " + a)
        if u.get("anchors"):
            out.append("- %d syntactic anchor(s) on call sites (exit 2 if lost)" % len(u["anchors"]))
        out.append("")
    return "\n".join(out)

def findings():
    out = ["## 8. Findings, repairs and false alarms\n"]
    kf = open(os.path.join(V, "known-findings.txt")).read()
    out.append("### Genuine defects repaired (`fix:` commits in /repo; each was a refuted obligation with a native replay or concrete input)\n")
    for l in kf.splitlines():
        if l.startswith("fixed:"):
            out.append("- " + l[len("fixed: "):])
    out.append("\n### Known findings recorded, not repaired (`known-findings.txt`; printed as KNOWN-FINDING, exit 0)\n")
    n = 0
    for l in kf.splitlines():
        if l.startswith("finding:"):
            out.append("- " + l[len("finding: "):]); n += 1
    if not n:
        out.append("- none")
    for f in sorted(glob.glob(os.path.join(V, "notes", "*.md"))):
        if os.path.basename(f).startswith("9_"):
            continue
        out.append("\n" + open(f).read().strip() + "\n")
    out.append("\n## 9. Seeded changes (independent sub-agents, property text + scratch worktree only) and what catches them\n")
    out.append("| seeded change | what it does | needs | caught by (refuted obligations) | exit |\n|---|---|---|---|---|")
    for d in sorted(glob.glob(os.path.join(V, "seeded", "*"))):
        mp = os.path.join(d, "meta.json")
        if not os.path.exists(mp):
            continue
        m = json.load(open(mp))
        det = m.get("detection", {})
        def cell(x):
            return re.sub(r"\s+", " ", str(x or "")).replace("|", "/")[:260]
        out.append("| %s | %s | %s | %s | %s |" % (os.path.basename(d), cell(m.get("what_changes")), cell(m.get("needs_to_manifest")),
                                                   cell(", ".join(det.get("refuted_obligations", [])) or det.get("note", "")),
                                                   str(det.get("exit", "?")) + (" (was %s before strengthening)" % m["earlier_detection"]["exit"] if m.get("earlier_detection") else "")))
    for f in sorted(glob.glob(os.path.join(V, "notes", "9_*.md"))):
        out.append("\n" + open(f).read().strip() + "\n")
    return "\n".join(out)

def main():
    p = os.path.join(V, "DESIGN.md")
    s = open(p).read()
    def fill(tag, text):
        nonlocal s
        a = "<!-- BEGIN GENERATED: %s -->" % tag
        b = "<!-- END GENERATED: %s -->" % tag
        i, j = s.index(a), s.index(b)
        s = s[:i + len(a)] + "\n" + text + "\n" + s[j:]
    fill("per-property", per_property())
    fill("findings", findings())
    open(p, "w").write(s)
    print("DESIGN.md regenerated")

if __name__ == "__main__":
    main()
