#!/bin/bash
# usage: mkmut.sh <ID>  -- scratch worktree of /repo (current HEAD) for a mutation-seeding agent
set -e
D=/tmp/mut-$1
rm -rf $D; git -C /repo worktree prune
git -C /repo worktree add -q --detach $D HEAD
echo $D
