#!/bin/bash
# usage: mkagent.sh <name>   -- scratch copy of /verif and worktree of /repo for a builder agent
set -e
N=$1
D=/tmp/ag-$N
rm -rf $D; mkdir -p $D
git -C /repo worktree prune
git -C /repo worktree add -q --detach $D/repo HEAD
rsync -a --exclude build --exclude .git /verif/ $D/verif/
grep -rl '/verif/kani/' $D/repo --include=*.rs | xargs sed -i "s#\"/verif/kani/#\"$D/verif/kani/#"
echo "agent dir $D ready"
