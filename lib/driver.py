"""Check driver for the contract-based verification of ntpd-rs (see DESIGN.md §2.5)."""
import json, os, re, subprocess, sys, time, glob, shutil, hashlib

VERIF = os.path.dirname(os.path.dirname(os.path.abspath(__file__)))
REPO = os.environ.get("VERIF_REPO", "/repo")
BUILD = os.path.join(VERIF, "build")
KANI_DIR = os.path.join(VERIF, "kani")
UNITS = os.path.join(VERIF, "units")
EVID = os.environ.get("VERIF_EVIDENCE_DIR", os.path.join(VERIF, "evidence"))
REPLAYS = os.path.join(VERIF, "replays")
KNOWN = os.path.join(VERIF, "known-findings.txt")

# --no-assertion-reach-checks: Kani's per-assertion reachability side checks multiply CBMC's trace
# output (10-30x slower harnesses); reachability is guarded by explicit kani::cover! instead.
KANI_ZFLAGS = ["-Z", "function-contracts", "-Z", "stubbing", "-Z", "unstable-options"]
KANI_FLAGS = KANI_ZFLAGS + ["--no-assertion-reach-checks"]
# harness kinds, encoded in the harness name:  c32_p_x  c32_b_x  c32_tb_x  c32_tp_x  c32_canary_x
KIND_RE = re.compile(r"^(c\d{2,3})_(p|b|tp|tb|canary|tcanary)_(\w+)$")
QUICK_KINDS = ("p", "b", "canary")
ALL_KINDS = ("p", "b", "tp", "tb", "canary", "tcanary")
COMPLETE_KINDS = ("p", "tp")
T_KINDS = ("tp", "tb", "tcanary")
# Thorough tier = quick obligations + the thorough-only harnesses that were observed to reach a verdict
# (discharged / canary refuted) on the unchanged tree on the reference machine. The list is committed
# (thorough-validated.txt: "<harness> <seconds>"); a thorough-only harness that never produced a
# verdict within the sweep budget is NOT part of any registered command (it has decided nothing) and
# is reported in the evidence under thorough_not_registered. VERIF_SWEEP=1 runs them all (tools/sweep_thorough.sh).
THOROUGH_LIST = os.path.join(VERIF, "thorough-validated.txt")
SWEEP = bool(os.environ.get("VERIF_SWEEP"))
if os.environ.get("VERIF_KINDS"):
    ALL_KINDS = tuple(os.environ["VERIF_KINDS"].split(","))


def thorough_validated():
    ok = {}
    if os.path.exists(THOROUGH_LIST):
        for l in open(THOROUGH_LIST):
            l = l.split("#")[0].split()
            if l:
                ok[l[0]] = float(l[1]) if len(l) > 1 else 0.0
    return ok


def no_verdict(res):
    """a harness that ended without any failed check and without success: time-out, out of memory, crash"""
    return res is None or (res["status"] != "Success" and not res["failed"])
UNDECIDED_CATEGORIES = ("unwind", "unsupported_construct")
# CBMC's float NaN-production checks are not Rust failures (producing a NaN is defined behaviour);
# they are reported in the evidence but never decide an obligation.
IGNORED_CATEGORIES = ("NaN",)


def log(*a):
    print(*a, flush=True)


def sh(cmd, cwd=None, env=None, timeout=None, logfile=None):
    e = dict(os.environ)
    e.update({"CARGO_NET_OFFLINE": "true", "CARGO_TERM_COLOR": "never"})
    if env:
        e.update(env)
    t0 = time.time()
    import signal
    pre = None
    if os.environ.get("VERIF_MEM_GB"):
        # address-space cap per process (thorough tier): a CBMC run that would exhaust the machine
        # aborts instead and is reported as not explored
        import resource
        lim = int(float(os.environ["VERIF_MEM_GB"]) * (1 << 30))
        pre = lambda: resource.setrlimit(resource.RLIMIT_AS, (lim, lim))
    proc = subprocess.Popen(cmd, cwd=cwd, env=e, stdin=subprocess.DEVNULL, stdout=subprocess.PIPE, stderr=subprocess.STDOUT,
                            text=True, errors="replace", start_new_session=True, preexec_fn=pre)
    try:
        out, _ = proc.communicate(timeout=timeout)
        rc = proc.returncode
    except subprocess.TimeoutExpired:
        # kill only our own process group (cargo-kani, kani-driver, cbmc, solvers)
        try:
            os.killpg(proc.pid, signal.SIGKILL)
        except Exception:
            pass
        out, _ = proc.communicate()
        out = (out or "") + "\n[driver] TIMEOUT after %ss\n" % timeout
        rc = 124
    if logfile:
        with open(logfile, "w") as f:
            f.write("$ " + " ".join(cmd) + "\n" + out)
    return rc, out, time.time() - t0


def reap_orphans():
    """SMT back ends (z3/cvc5) of a timed-out CBMC survive as orphans (ppid 1) and burn cores."""
    try:
        out = subprocess.run(["ps", "-eo", "pid,ppid,args"], stdout=subprocess.PIPE, text=True).stdout
        for line in out.splitlines():
            parts = line.split(None, 2)
            if len(parts) == 3 and parts[1] == "1" and "smt2_dec_problem" in parts[2]:
                subprocess.run(["kill", "-9", parts[0]], stderr=subprocess.DEVNULL)
    except Exception:
        pass


# ---------------------------------------------------------------- harness inventory

def scan_harnesses(crate_key, prefix):
    """Harness functions committed under /verif/kani/<crate_key>/ whose name starts with prefix.
    Returns {fn_name: (kind, file, has_cover)}"""
    res = {}
    ident = re.compile(r"(?<![\w$])(c\d{2,3}_(?:p|b|tp|tb|canary|tcanary)_\w+)\b")
    for f in sorted(glob.glob(os.path.join(KANI_DIR, crate_key, "**", "*.rs"), recursive=True)):
        for line in open(f):
            if line.lstrip().startswith("//"):
                continue
            code = line.split("//")[0]
            # a harness name appears either as `fn NAME(` or as an argument of a harness-generating macro
            for m in ident.finditer(code):
                name = m.group(1)
                before = code[:m.start()]
                if not (re.search(r"fn\s+$", before) or re.search(r"\w+!\s*\([^)]*$", before)):
                    continue
                if re.search(r"(kani::)?(cover|assert|assume)!\s*\([^)]*$", before):
                    continue
                km = KIND_RE.match(name)
                if km and name.startswith(prefix):
                    res[name] = (km.group(2), f)
    return res


def list_known():
    fins = []
    if os.path.exists(KNOWN):
        for line in open(KNOWN):
            line = line.strip()
            if not line.startswith("finding:"):
                continue
            m = re.match(r'finding:\s+property=(\S+)\s+harness=(\S+)\s+check="([^"]*)"\s*::\s*(.*)$', line)
            if m:
                fins.append(dict(prop=m.group(1), harness=m.group(2), check=m.group(3), what=m.group(4)))
    return fins


# ---------------------------------------------------------------- transformed copy of the repository

XREPO = os.path.join(BUILD, "xrepo" if REPO == "/repo" else "xrepo-" + hashlib.sha1(REPO.encode()).hexdigest()[:8])
_xrepo_state = {}


def prepare_xrepo():
    """Fresh copy of /repo's working tree with the declared source transform applied.
    Returns (path, applied_rules, problems)."""
    if "done" in _xrepo_state:
        return _xrepo_state["done"]
    os.makedirs(XREPO, exist_ok=True)
    # Two checks started at the same time must not rewrite / compile the same copy concurrently:
    # an exclusive lock is taken here and held until this process exits (checks that need the
    # transformed copy run one after the other; the others are not affected).
    import fcntl
    lock = open(XREPO + ".lock", "w")
    t_wait = time.time()
    fcntl.flock(lock, fcntl.LOCK_EX)
    _xrepo_state["lock"] = lock
    if time.time() - t_wait > 5:
        log("waited %.0fs for another check using the transformed copy" % (time.time() - t_wait))
    subprocess.run(["rsync", "-a", "--delete", "--exclude", "/target", "--exclude", "/.git", REPO + "/", XREPO + "/"],
                   check=True)
    spec = json.load(open(os.path.join(VERIF, "transforms.json")))
    problems, applied = [], []
    by_file = {}
    for r in spec["rules"]:
        by_file.setdefault(r["file"], []).append(r)
    for f, rules in by_file.items():
        path = os.path.join(XREPO, f)
        try:
            src = open(path).read()
        except OSError:
            problems.append("transform: file missing: %s" % f)
            continue
        for r in rules:
            n = src.count(r["find"])
            if r.get("all") and n >= 1:
                pass
            elif n != 1:
                problems.append("transform anchor lost in %s (%d matches): %r" % (f, n, r["find"][:60]))
                continue
            src = src.replace(r["find"], r["replace"])
            applied.append("%s: %r -> %r" % (f, r["find"].strip()[:70], r["replace"].strip()[:90]))
        # keep mtime semantics simple: only write when changed
        if src != open(path).read():
            open(path, "w").write(src)
    _xrepo_state["done"] = (XREPO, applied, problems)
    return _xrepo_state["done"]


# ---------------------------------------------------------------- kani

def _suffix():
    # never share cargo target directories between /repo and a scratch worktree (VERIF_REPO):
    # cargo's unit hashes are path-independent, so artifacts of one tree are taken as fresh for the other
    return "" if REPO == "/repo" else "-" + hashlib.sha1(REPO.encode()).hexdigest()[:8]


def target_dir(part, playback=False):
    base = ("playback" if playback else "kani") + ("-x" if part.get("transform") else "")
    return os.path.join(BUILD, base + _suffix())


def repo_root(part):
    if part.get("transform"):
        return prepare_xrepo()[0]
    return REPO


def parse_kani_json(jpath, out):
    try:
        data = json.load(open(jpath))
    except Exception as ex:
        out["undecided"].append("unreadable kani json: %s" % ex)
        return
    out["tools"] = data.get("tools", {})
    stats = {c["harness_id"]: (c.get("cbmc_stats") or {}) for c in data.get("cbmc", []) if "harness_id" in c}
    errd = {c["harness_id"]: c for c in data.get("error_details", [])}
    for r in data.get("verification_results", {}).get("results", []):
        hid = r["harness_id"]
        name = hid.split("::")[-1]
        checks = r.get("checks", [])
        failed = [c for c in checks if c.get("status") == "Failure"]
        res = {
            "id": hid, "status": r.get("status"), "duration_s": r.get("duration_ms", 0) / 1000.0,
            "n_checks": len(checks),
            "n_ok": sum(1 for c in checks if c.get("status") == "Success"),
            "n_unreachable": sum(1 for c in checks if c.get("status") == "Unreachable"),
            "n_undetermined": sum(1 for c in checks if c.get("status") == "Undetermined"),
            "harness_asserts": sum(1 for c in checks if c.get("category") == "assertion" and
                                   str(c.get("location", {}).get("file", "")).startswith(KANI_DIR)),
            "covers": [c for c in checks if c.get("category") == "cover"],
            "failed": [{"description": c.get("description"), "category": c.get("category"),
                        "function": c.get("function"),
                        "location": "%s:%s" % (c.get("location", {}).get("file"), c.get("location", {}).get("line"))}
                       for c in failed],
            "solver_s": stats.get(hid, {}).get("runtime_decision_procedure_s"),
            "error": errd.get(hid, {}),
        }
        out["results"][name] = res


def run_kani(pid, part, tier, jobs):
    """Run all harnesses of one crate part. Returns dict with per-harness results."""
    crate_dir = part["crate_dir"]
    crate_key = part.get("crate_key", crate_dir.replace("-", "_"))
    prefixes = part.get("prefixes") or [pid.lower() + "_"]
    kinds = ALL_KINDS if tier == "thorough" else QUICK_KINDS
    expected = {}
    for pre in prefixes:
        for n, (k, f) in scan_harnesses(crate_key, pre).items():
            if k in kinds:
                expected[n] = (k, f)
    # harnesses of another property's prefix that also decide this one (exact names)
    extra = part.get("extra_harnesses", [])
    if os.environ.get("VERIF_SKIP_EXTRA"):
        extra = []  # sweeps: harnesses of another property's prefix are swept with their own unit
    if extra:
        allh = {}
        for f in sorted(glob.glob(os.path.join(KANI_DIR, crate_key, "**", "*.rs"), recursive=True)):
            src_txt = open(f).read()
            for n in extra:
                if re.search(r"\b%s\b" % re.escape(n), src_txt):
                    allh[n] = f
        for n in extra:
            km = KIND_RE.match(n)
            if km and n in allh and km.group(2) in kinds:
                expected[n] = (km.group(2), allh[n])
    not_registered = []
    if tier == "thorough" and not SWEEP:
        okl = thorough_validated()
        for n in sorted(expected):
            if expected[n][0] in T_KINDS and n not in okl:
                not_registered.append(n)
                del expected[n]
    out = {"expected": expected, "results": {}, "undecided": [], "crate": crate_dir, "wall_s": 0.0,
           "cmd": "", "tools": {}, "transform": [], "not_registered": not_registered}
    root = repo_root(part)
    if part.get("transform"):
        _, applied, problems = prepare_xrepo()
        out["transform"] = applied
        for pr in problems:
            out["undecided"].append(pr)
        if problems:
            return out
    if not expected:
        out["undecided"].append("no harness found under %s/%s for %s" % (KANI_DIR, crate_key, prefixes))
        return out
    os.makedirs(os.path.join(BUILD, "out"), exist_ok=True)
    tag = "%s-%s-%d" % (pid, crate_key, os.getpid())
    jpath = os.path.join(BUILD, "out", tag + ".json")
    lpath = os.path.join(BUILD, "out", tag + ".log")
    if os.path.exists(jpath):
        os.remove(jpath)
    cmd = ["cargo", "kani", "--target-dir", target_dir(part)] + KANI_FLAGS
    if part.get("c_ffi"):
        cmd += ["-Z", "c-ffi", "--c-lib", os.path.join(KANI_DIR, "clock.c")]
    for f in part.get("features", []) + (["verif-xrepo"] if part.get("transform") else []):
        cmd += ["--features", f]
    if part.get("no_default_features"):
        cmd += ["--no-default-features"]
    filt = []
    for pre in prefixes:
        for k in kinds:
            if k in T_KINDS and not SWEEP:
                continue
            if any(kk == k and nn.startswith(pre) for nn, (kk, _f) in expected.items()):
                filt += ["--harness", "%s%s_" % (pre, k)]
    for n in sorted(expected):
        if (n in extra or (expected[n][0] in T_KINDS and not SWEEP)) and ["--harness", n] != filt[-2:]:
            filt += ["--harness", n]
    per_harness_to = part.get("harness_timeout_thorough" if tier == "thorough" else "harness_timeout", 300 if tier == "quick" else 3600)
    if tier == "thorough" and not SWEEP:
        okl = thorough_validated()
        per_harness_to = int(max([per_harness_to, 900] + [3 * okl.get(n, 0) for n in expected]))
    if os.environ.get("VERIF_HARNESS_TIMEOUT"):
        per_harness_to = int(os.environ["VERIF_HARNESS_TIMEOUT"])
    cmd += filt + ["-j", str(jobs), "--output-format", "terse", "--export-json", jpath,
                   "--harness-timeout", "%ds" % per_harness_to]
    cmd += part.get("extra_args", [])
    out["cmd"] = "cd %s && CARGO_NET_OFFLINE=true %s" % (os.path.join(root, crate_dir), " ".join(cmd))
    total_to = part.get("timeout_thorough" if tier == "thorough" else "timeout", 1500 if tier == "quick" else 14400)
    if tier == "thorough":
        total_to = max(total_to, 1800 + (len(expected) // max(jobs, 1) + 1) * per_harness_to * 1.2)
    rc, text, dt = sh(cmd, cwd=os.path.join(root, crate_dir), timeout=total_to, logfile=lpath)
    for _attempt in range(2):
        # transient cargo failure seen under load ("failed to run `rustc` to learn about
        # target-specific information"): retry, it is not a verdict
        if os.path.exists(jpath) or "learn about target-specific information" not in text:
            break
        time.sleep(20)
        rc, text, dt2 = sh(cmd, cwd=os.path.join(root, crate_dir), timeout=total_to, logfile=lpath)
        dt += dt2
    out["wall_s"] = dt
    out["log"] = lpath
    reap_orphans()
    if not os.path.exists(jpath):
        # compile error / ICE / timeout before any result
        tail = "\n".join(text.splitlines()[-40:])
        errs = [l for l in text.splitlines() if l.startswith("error")]
        out["undecided"].append("kani produced no result file (rc=%s): %s" % (rc, "; ".join(errs[:5]) or tail[-600:]))
        return out
    parse_kani_json(jpath, out)
    # harnesses that timed out do not always show up in results
    return out


def run_kani_extract(pid, unit, tier, jobs):
    """K-extract: items copied mechanically from /repo into one generated file, verified with `kani file.rs`."""
    import extract
    outdir = os.path.join(BUILD, "kextract")
    os.makedirs(outdir, exist_ok=True)
    spec = os.path.join(VERIF, "kextract", unit + ".kspec")
    text, _c, report = extract.build(spec, REPO)
    f = os.path.join(outdir, unit + ".rs")
    open(f, "w").write(text)
    kinds = ALL_KINDS if tier == "thorough" else QUICK_KINDS
    expected = {}
    for m in re.finditer(r"fn\s+(c\d{2,3}_(?:p|b|tp|tb|canary)_\w+)\s*\(", text):
        km = KIND_RE.match(m.group(1))
        if km and km.group(2) in kinds:
            expected[m.group(1)] = (km.group(2), spec)
    out = {"expected": expected, "results": {}, "undecided": [], "crate": "extract:" + unit, "wall_s": 0.0,
           "cmd": "", "tools": {}, "transform": ["extracted %s %s from %s (sha %s)" % (i.get("kind", "fn"), i["name"], i["file"], i.get("sha256", i.get("body_sha256"))) for i in report["items"] + report["functions"]]}
    os.makedirs(os.path.join(BUILD, "out"), exist_ok=True)
    jpath = os.path.join(BUILD, "out", "%s-x-%s-%d.json" % (pid, unit, os.getpid()))
    if os.path.exists(jpath):
        os.remove(jpath)
    cmd = ["kani", f] + KANI_FLAGS + ["-j", str(jobs), "--output-format", "terse", "--export-json", jpath,
                                      "--harness-timeout", "300s"]
    for n in expected:
        cmd += ["--harness", n]
    out["cmd"] = "cd %s && %s" % (outdir, " ".join(cmd))
    rc, textout, dt = sh(cmd, cwd=outdir, timeout=1800, logfile=jpath.replace(".json", ".log"))
    out["wall_s"] = dt
    if not os.path.exists(jpath):
        errs = [l for l in textout.splitlines() if l.startswith("error")]
        out["undecided"].append("kani produced no result file (rc=%s): %s" % (rc, "; ".join(errs[:5]) or textout[-600:]))
        return out
    parse_kani_json(jpath, out)
    return out


def classify(name, kind, res):
    """-> ('discharged'|'refuted'|'undecided'|'canary-ok'|'canary-passed', reason)"""
    if res is None:
        return "undecided", "harness did not run / produced no result (time-out or lost anchor)"
    st = res["status"]
    failed = [f for f in res["failed"] if f["category"] not in IGNORED_CATEGORIES]
    if st == "Failure" and res["failed"] and not failed:
        st = "Success"  # only ignored (NaN-production) checks were flagged
    uncovered = [c for c in res["covers"] if c.get("status") not in ("Satisfied",)]
    if kind in ("canary", "tcanary"):
        real = [f for f in failed if f["category"] not in UNDECIDED_CATEGORIES]
        if st == "Failure" and real:
            return "canary-ok", ""
        return "canary-passed", "canary (a deliberately false claim) was not refuted: harness is vacuous"
    if st == "Success":
        if res["n_undetermined"]:
            return "undecided", "undetermined checks"
        if uncovered:
            return "undecided", "vacuity: cover not satisfiable: %s" % uncovered[0].get("description")
        if res["n_checks"] == 0:
            return "undecided", "vacuity: zero obligations"
        return "discharged", ""
    real = [f for f in failed if f["category"] not in UNDECIDED_CATEGORIES]
    if real:
        return "refuted", "; ".join("%s @ %s" % (f["description"], f["location"]) for f in real[:4])
    if failed:
        return "undecided", "only unwinding/unsupported-construct checks failed: " + "; ".join(
            "%s @ %s" % (f["description"], f["location"]) for f in failed[:3])
    et = res.get("error", {})
    return "undecided", "harness failed without failed checks (%s)" % (et.get("error_type") or et.get("exit_status") or st)


# ---------------------------------------------------------------- replay

def module_file_key(path):
    rel = os.path.relpath(path, KANI_DIR)
    return rel.replace(os.sep, "__")


def make_replay_dir(active=None):
    d = os.path.join(BUILD, "replay-inc-%d" % os.getpid())
    shutil.rmtree(d, ignore_errors=True)
    os.makedirs(d)
    for f in glob.glob(os.path.join(KANI_DIR, "**", "*.rs"), recursive=True):
        open(os.path.join(d, module_file_key(f)), "w").write("")
    if active:
        for key, text in active.items():
            open(os.path.join(d, key), "w").write(text)
    return d


def native_playback(part, harness_file, test_text, test_name):
    d = make_replay_dir({module_file_key(harness_file): test_text})
    crate_key = part.get("crate_key", part["crate_dir"].replace("-", "_"))
    cmd = ["cargo", "kani", "playback", "-Z", "concrete-playback"] + KANI_ZFLAGS
    for f in part.get("features", []) + (["verif-xrepo"] if part.get("transform") else []):
        cmd += ["--features", f]
    cmd += ["--", test_name, "--exact"] if False else ["--", test_name]
    rc, text, dt = sh(cmd, cwd=os.path.join(repo_root(part), part["crate_dir"]),
                      env={"VERIF_REPLAY_DIR": d, "CARGO_TARGET_DIR": target_dir(part, playback=True)},
                      timeout=1800)
    shutil.rmtree(d, ignore_errors=True)
    m = re.search(r"test result: (\w+)\. (\d+) passed; (\d+) failed", text)
    if not m:
        return "not-run", text[-3000:]
    if int(m.group(3)) > 0:
        # keep the panic message
        pm = re.findall(r"panicked at [^\n]*\n[^\n]*", text)
        return "reproduced", ("\n".join(pm[:3]) or text[-1500:])
    if int(m.group(2)) > 0:
        return "passed-natively", text[-1500:]
    return "not-run", text[-3000:]


def build_replay_extract(pid, part, name, hid, hfile, res, reason):
    """Counterexample + native replay for a harness of a generated (extracted) single-file unit."""
    os.makedirs(REPLAYS, exist_ok=True)
    rpath = os.path.join(REPLAYS, "%s-%s.rs" % (pid, name))
    unit = part["extract_unit"]
    outdir = os.path.join(BUILD, "kextract")
    f = os.path.join(outdir, unit + ".rs")
    cmd = ["kani", f] + KANI_FLAGS + ["--harness", name, "-Z", "concrete-playback", "--concrete-playback=print",
                                      "--output-format", "terse", "--harness-timeout", "600s"]
    rc, text, dt = sh(cmd, cwd=outdir, timeout=1200)
    tests = [t for t in re.findall(r"```\n(.*?)```", text, re.S) if "concrete_playback_run" in t]
    hdr = ["// replay for property %s" % pid,
           "// refuted obligation (Kani harness on mechanically extracted functions, unit %s): %s" % (unit, name),
           "// failed checks: %s" % reason.replace("\n", " "),
           "//meta " + json.dumps({"property": pid, "extract_unit": unit, "harness": name})]
    if not tests:
        open(rpath, "w").write("\n".join(hdr) + "\n/* no concrete input; verifier output:\n" + text[-4000:].replace("*/", "* /") + "\n*/\n")
        return rpath, False, "no concrete input from verifier"
    status, detail = extract_playback(unit, tests[0])
    hdr.append("// native replay (extracted text compiled natively): %s" % status)
    open(rpath, "w").write("\n".join(hdr) + "\n" + tests[0] + "\n/* native run output:\n" + detail.replace("*/", "* /") + "\n*/\n")
    return rpath, status == "reproduced", status


def extract_playback(unit, test_text):
    import extract
    outdir = os.path.join(BUILD, "kextract")
    os.makedirs(outdir, exist_ok=True)
    text, _c, _r = extract.build(os.path.join(VERIF, "kextract", unit + ".kspec"), REPO)
    f = os.path.join(outdir, unit + "_playback.rs")
    open(f, "w").write(text + "\n" + test_text + "\n")
    tn = re.search(r"fn (kani_concrete_playback_\w+)", test_text).group(1)
    rc, out, dt = sh(["kani", "playback", "-Z", "concrete-playback", f, "--", tn], cwd=outdir, timeout=900)
    m = re.search(r"test result: (\w+)\. (\d+) passed; (\d+) failed", out)
    if not m:
        return "not-run", out[-2000:]
    if int(m.group(3)) > 0:
        pm = re.findall(r"panicked at [^\n]*\n[^\n]*", out)
        return "reproduced", ("\n".join(pm[:3]) or out[-1500:])
    return ("passed-natively" if int(m.group(2)) > 0 else "not-run"), out[-1500:]


def build_replay(pid, part, name, hid, hfile, res, reason):
    """Obtain a concrete counterexample for a refuted harness and replay it natively."""
    if "extract_unit" in part:
        return build_replay_extract(pid, part, name, hid, hfile, res, reason)
    os.makedirs(REPLAYS, exist_ok=True)
    rpath = os.path.join(REPLAYS, "%s-%s.rs" % (pid, name))
    crate_key = part.get("crate_key", part["crate_dir"].replace("-", "_"))
    cmd = ["cargo", "kani", "--target-dir", target_dir(part)] + KANI_FLAGS
    if part.get("c_ffi"):
        cmd += ["-Z", "c-ffi", "--c-lib", os.path.join(KANI_DIR, "clock.c")]
    for f in part.get("features", []) + (["verif-xrepo"] if part.get("transform") else []):
        cmd += ["--features", f]
    cmd += ["--harness", hid, "--exact", "-Z", "concrete-playback", "--concrete-playback=print",
            "--output-format", "terse", "--harness-timeout", "900s"]
    rc, text, dt = sh(cmd, cwd=os.path.join(repo_root(part), part["crate_dir"]), timeout=1800)
    tests = re.findall(r"```\n(.*?)```", text, re.S)
    tests = [t for t in tests if "concrete_playback_run" in t]
    hdr = ["// replay for property %s" % pid,
           "// refuted obligation (Kani harness): %s  [%s]" % (hid, hfile),
           "// failed checks: %s" % reason.replace("\n", " "),
           "// re-run natively against the real code:  /verif/check %s --replay %s" % (pid, rpath),
           "//meta " + json.dumps({"property": pid, "crate_dir": part["crate_dir"], "harness": hid,
                                   "harness_file": hfile, "features": part.get("features", []),
                                   "transform": bool(part.get("transform")), "c_ffi": bool(part.get("c_ffi"))})]
    if not tests:
        body = "\n".join(hdr) + "\n// the verifier produced no concrete input; verifier output follows\n/*\n" + \
               "\n".join(text.splitlines()[-80:]).replace("*/", "* /") + "\n*/\n"
        open(rpath, "w").write(body)
        return rpath, False, "no concrete input from verifier"
    test_text = tests[0]
    tn = re.search(r"fn (kani_concrete_playback_\w+)", test_text).group(1)
    status, detail = native_playback(part, hfile, test_text, tn)
    hdr.append("// native replay: %s" % status)
    body = "\n".join(hdr) + "\n" + test_text + "\n/* native run output:\n" + detail.replace("*/", "* /") + "\n*/\n"
    open(rpath, "w").write(body)
    return rpath, status == "reproduced", status


def replay_cmd(path):
    text = open(path).read()
    m = re.search(r"^//meta (.*)$", text, re.M)
    if not m:
        log("replay file carries no counterexample: it names the failed obligation and the verifier output")
        log(text[:3000])
        return 1
    meta = json.loads(m.group(1))
    if "extract_unit" in meta:
        t = re.search(r"(#\[test\].*?\n}\n)", text, re.S)
        if not t:
            log("no concrete test in replay file (no-failing-input-found); obligation: %s" % meta["harness"])
            return 1
        status, detail = extract_playback(meta["extract_unit"], t.group(1))
        log("native replay of %s: %s\n%s" % (meta["harness"], status, detail))
        return 1 if status == "reproduced" else 0
    t = re.search(r"(#\[test\].*?\n}\n)", text, re.S)
    if not t:
        log("no concrete test in replay file (no-failing-input-found); obligation: %s" % meta["harness"])
        return 1
    tn = re.search(r"fn (kani_concrete_playback_\w+)", t.group(1)).group(1)
    status, detail = native_playback(meta, meta["harness_file"], t.group(1), tn)
    log("native replay of %s: %s\n%s" % (meta["harness"], status, detail))
    return 1 if status == "reproduced" else 0


# ---------------------------------------------------------------- verus

def run_verus(pid, unit, tier):
    import extract
    return extract.run_unit(unit, REPO, os.path.join(BUILD, "verus"))


# ---------------------------------------------------------------- anchors

def check_anchors(spec):
    probs = []
    for a in spec.get("anchors", []):
        p = os.path.join(REPO, a["file"])
        if not os.path.exists(p):
            probs.append("anchor file missing: %s" % a["file"])
            continue
        src = open(p).read()
        if "must_contain" in a and a["must_contain"] not in src:
            probs.append("anchor lost in %s: %r" % (a["file"], a["must_contain"]))
        if "must_match" in a and not re.search(a["must_match"], src, re.S):
            probs.append("anchor lost in %s: /%s/" % (a["file"], a["must_match"]))
        if "must_not_match" in a and re.search(a["must_not_match"], src, re.S):
            probs.append("anchor violated in %s: /%s/" % (a["file"], a["must_not_match"]))
    return probs


# ---------------------------------------------------------------- main

def main(argv):
    if not argv:
        print(__doc__)
        return 2
    pid = argv[0].upper()
    tier = os.environ.get("VERIF_TIER", "quick")
    replay = None
    i = 1
    while i < len(argv):
        if argv[i] == "--tier":
            tier = argv[i + 1]; i += 2
        elif argv[i] == "--replay":
            replay = argv[i + 1]; i += 2
        else:
            i += 1
    if tier not in ("quick", "thorough"):
        tier = "quick"
    if replay:
        return replay_cmd(replay)
    seed = int(os.environ.get("VERIF_SEED", "0") or 0)
    spec_path = os.path.join(UNITS, pid + ".json")
    if not os.path.exists(spec_path):
        log("no unit for %s" % pid)
        return 2
    spec = json.load(open(spec_path))
    jobs = int(os.environ.get("VERIF_JOBS", spec.get("jobs", 12) if tier == "quick" else spec.get("jobs_thorough", 4)))
    if tier == "thorough":
        os.environ.setdefault("VERIF_MEM_GB", "40")
    t0 = time.time()
    known = [k for k in list_known() if k["prop"] == pid]

    obligations = []   # dicts: name backend kind verdict reason n_checks solver_s
    undecided = []
    not_explored, not_registered = [], []
    violations = []
    known_hits = []
    tools = {}
    cmds = []
    samples = []
    transforms = []

    for prob in check_anchors(spec):
        undecided.append(prob)

    for part in spec.get("kani", []):
        r = run_kani(pid, part, tier, jobs)
        not_registered.extend(r.get("not_registered", []))
        cmds.append(r["cmd"])
        transforms.extend(x for x in r.get("transform", []) if x not in transforms)
        tools.update({k: v for k, v in r.get("tools", {}).items() if k in ("kani", "cbmc", "rustc")})
        for u in r["undecided"]:
            undecided.append("[kani %s] %s" % (part["crate_dir"], u))
        for name, (kind, hfile) in sorted(r["expected"].items()):
            res = r["results"].get(name)
            verdict, reason = classify(name, kind, res)
            if tier == "thorough" and kind in T_KINDS and no_verdict(res):
                # thorough-only harness without a verdict (time-out / memory cap / solver crash): nothing was
                # explored by it in this run; it neither supports nor contradicts the property
                verdict, reason = "not-explored", "no verdict within the thorough budget (%s)" % reason
                not_explored.append(name)
            ob = {"name": name, "backend": "kani/cbmc", "kind": kind, "verdict": verdict, "reason": reason,
                  "n_checks": (res["n_checks"] - sum(1 for f in res["failed"] if f["category"] in IGNORED_CATEGORIES)) if res else 0,
                  "ignored_nan_checks": sum(1 for f in res["failed"] if f["category"] in IGNORED_CATEGORIES) if res else 0, "solver_s": (res or {}).get("solver_s"),
                  "duration_s": (res or {}).get("duration_s"), "file": os.path.relpath(hfile, VERIF),
                  "harness_asserts": (res or {}).get("harness_asserts", 0)}
            obligations.append(ob)
            if verdict == "refuted":
                fails = [f for f in res["failed"] if f["category"] not in UNDECIDED_CATEGORIES + IGNORED_CATEGORIES]
                kn = [k for k in known if k["harness"] == name]
                if kn and all(any(k["check"] in (f["description"] or "") for k in kn) for f in fails):
                    ob["verdict"] = "known-finding"
                    known_hits.append((name, kn[0]["what"]))
                else:
                    violations.append((part, name, res["id"], hfile, res, reason))
            elif verdict in ("undecided", "canary-passed"):
                undecided.append("[%s] %s" % (name, reason))

    for unit in spec.get("kani_extract", []):
        try:
            r = run_kani_extract(pid, unit, tier, jobs)
        except Exception as ex:
            undecided.append("[kani-extract %s] %s" % (unit, ex))
            continue
        cmds.append(r["cmd"])
        transforms.extend(r.get("transform", []))
        tools.update({k: v for k, v in r.get("tools", {}).items() if k in ("kani", "cbmc", "rustc")})
        for u in r["undecided"]:
            undecided.append("[kani-extract %s] %s" % (unit, u))
        for name, (kind, hfile) in sorted(r["expected"].items()):
            res = r["results"].get(name)
            verdict, reason = classify(name, kind, res)
            ob = {"name": name, "backend": "kani/cbmc (extracted)", "kind": kind, "verdict": verdict, "reason": reason,
                  "n_checks": res["n_checks"] if res else 0, "solver_s": (res or {}).get("solver_s"),
                  "duration_s": (res or {}).get("duration_s"), "file": os.path.relpath(hfile, VERIF),
                  "harness_asserts": (res or {}).get("harness_asserts", 0)}
            obligations.append(ob)
            if verdict == "refuted":
                kn = [k for k in known if k["harness"] == name]
                fails = [f for f in res["failed"] if f["category"] not in UNDECIDED_CATEGORIES + IGNORED_CATEGORIES]
                if kn and all(any(k["check"] in (f["description"] or "") for k in kn) for f in fails):
                    ob["verdict"] = "known-finding"
                    known_hits.append((name, kn[0]["what"]))
                else:
                    violations.append(({"extract_unit": unit}, name, res["id"], hfile, res, reason))
            elif verdict in ("undecided", "canary-passed"):
                undecided.append("[%s] %s" % (name, reason))

    for unit in spec.get("verus", []):
        try:
            vr = run_verus(pid, unit, tier)
        except Exception as ex:  # lost anchor etc.
            undecided.append("[verus %s] %s" % (unit, ex))
            continue
        cmds.append(vr["cmd"])
        tools["verus"] = vr.get("version", "")
        for u in vr.get("undecided", []):
            undecided.append("[verus %s] %s" % (unit, u))
        for ob in vr["obligations"]:
            obligations.append(ob)
            if ob["verdict"] == "refuted":
                kn = [k for k in known if k["harness"] == ob["name"]]
                if kn:
                    ob["verdict"] = "known-finding"
                    known_hits.append((ob["name"], kn[0]["what"]))
                else:
                    violations.append((None, ob["name"], ob["name"], vr["file"], vr, ob["reason"]))
            elif ob["verdict"] in ("undecided", "canary-passed"):
                undecided.append("[verus %s/%s] %s" % (unit, ob["name"], ob["reason"]))

    # ---- report
    n_ob = sum(o["n_checks"] for o in obligations if o["kind"] not in ("canary", "tcanary"))
    n_dis = sum(o["n_checks"] for o in obligations if o["kind"] not in ("canary", "tcanary") and o["verdict"] == "discharged")
    complete = [o for o in obligations if o["kind"] in COMPLETE_KINDS + ("verus",)]
    bounded = [o for o in obligations if o["kind"] in ("b", "tb")]
    canaries = [o for o in obligations if o["kind"] in ("canary", "tcanary")]
    all_ok = not violations and not undecided and not known_hits
    level = spec.get("level", "other")
    if level == "proof" and (bounded or not all_ok):
        level = "other"
    expl = spec.get("explanation", "")
    expl += " | this run: %d complete (unbounded/full-domain) obligations-units, %d bounded stand-ins (%s), %d canaries refuted as required." % (
        len(complete), len(bounded), spec.get("bounds", "see harness names"), sum(1 for c in canaries if c["verdict"] == "canary-ok"))
    if tier == "thorough":
        expl += " Thorough tier: %d thorough-only harnesses gave no verdict within the budget (not explored: %s); %d thorough-only harnesses are not registered because they never reached a verdict on the reference machine (%s)." % (
            len(not_explored), ", ".join(not_explored) or "-", len(not_registered), ", ".join(not_registered) or "-")
    if undecided:
        expl += " UNDECIDED: " + "; ".join(undecided)[:1500]
    for o in obligations[:60]:
        samples.append({"obligation": o["name"], "backend": o["backend"], "kind": o["kind"], "verdict": o["verdict"],
                        "cbmc_or_smt_checks": o["n_checks"], "solver_s": o["solver_s"], "file": o["file"]})
    rc = 0
    lines = []
    for name, what in known_hits:
        lines.append("KNOWN-FINDING: property=%s %s (obligation %s)" % (pid, what, name))
    replays = []
    for (part, name, hid, hfile, res, reason) in violations[:3]:
        if part is not None and os.environ.get("VERIF_NO_REPLAY"):
            # detection-only runs (tools/try_mut.sh): skip counterexample extraction and native replay
            os.makedirs(REPLAYS, exist_ok=True)
            rpath = os.path.join(REPLAYS, "%s-%s.rs" % (pid, name))
            open(rpath, "w").write("// replay skipped (VERIF_NO_REPLAY); refuted obligation %s: %s\n" % (name, reason))
            confirmed, status = False, "replay skipped"
        elif part is not None:
            rpath, confirmed, status = build_replay(pid, part, name, hid, hfile, res, reason)
        else:
            os.makedirs(REPLAYS, exist_ok=True)
            rpath = os.path.join(REPLAYS, "%s-%s.txt" % (pid, re.sub(r"\W+", "_", name)))
            open(rpath, "w").write("property %s\nrefuted obligation (Verus): %s\nfile: %s\n\nverifier output:\n%s\n" % (
                pid, name, hfile, reason))
            confirmed, status = False, "verus gives no counterexample"
        replays.append(rpath)
        lines.append("refuted obligation %s: %s [%s]" % (name, reason[:400], status))
        lines.append("VIOLATION property=%s replay=%s%s" % (pid, rpath, "" if confirmed else " no-failing-input-found"))
        rc = 1
    if rc == 0 and undecided:
        rc = 2
    wall = time.time() - t0
    ev = {
        "property_id": pid, "tier": tier, "seed": seed, "level": level,
        "coverage": {
            "obligations": n_ob, "discharged": n_dis,
            "checker_cmd": " ; ".join(cmds),
            "trusted_base": spec.get("trusted_base", []) + ["%s %s" % (k, v) for k, v in sorted(tools.items())],
            "explanation": expl.strip(),
            "functions_under_contract": spec.get("functions_under_contract", []),
            "obligation_units": len([o for o in obligations if o["kind"] not in ("canary", "tcanary")]),
            "obligation_units_discharged": len([o for o in obligations if o["verdict"] == "discharged"]),
            "complete_units": [o["name"] for o in complete],
            "bounded_units": [o["name"] for o in bounded],
            "bounds": spec.get("bounds", ""),
            "canaries": [{"name": c["name"], "verdict": c["verdict"]} for c in canaries],
            "solver_time_s": round(sum((o["solver_s"] or 0) for o in obligations), 3),
            "backends": sorted(set(o["backend"] for o in obligations)),
            "undecided": undecided,
            "thorough_not_explored": not_explored,
            "thorough_not_registered": not_registered,
            "source_transform_applied": transforms,
            "known_findings_hit": [n for n, _ in known_hits],
            "samples": samples,
            "exhaustive": False,
        },
        "assumptions": spec.get("assumptions", []),
        "wall_s": round(wall, 2),
        "violations": len(violations),
    }
    os.makedirs(EVID, exist_ok=True)
    with open(os.path.join(EVID, pid + ".json"), "w") as f:
        json.dump(ev, f, indent=1)
    log("property %s tier=%s: %d obligation units (%d CBMC/SMT checks), %d discharged checks, %d canaries, %.1fs" % (
        pid, tier, ev["coverage"]["obligation_units"], n_ob, n_dis, len(canaries), wall))
    for o in obligations:
        log("  %-14s %-9s %-55s %s" % (o["verdict"], o["kind"], o["name"], ("(%s)" % o["reason"][:200]) if o["reason"] else ""))
    for u in undecided:
        log("UNDECIDED: " + u)
    for l in lines:
        log(l)
    if rc == 0:
        log("OK property=%s" % pid)
    return rc
