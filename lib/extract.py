"""Mechanical extraction of real functions/items from /repo into single-file Verus units.

A unit is a template /verif/verus/<unit>.vspec: Verus text written by hand (spec functions, lemmas,
signatures with requires/ensures) in which every executable BODY and every extracted ITEM is a
marker that is filled from /repo's current working tree on every run:

  //@item file=<path> kind=<enum|struct|const|fn> name=<Name> [derive=<A,B>]
        -> the item's text, attributes and doc comments stripped, visibility stripped
  //@fn file=<path> name=<fn> [impl=<Type>] sig="<expected signature, whitespace-normalised>"
        (the hand-written Verus signature + requires/ensures follow in the template)
  //@loop <n> rewrite "<old header text>" => "<new header text>"      (optional, declared change)
  //@loop <n> invariant                                                 (lines until //@end)
  //@loop <n> begin / //@loop <n> after                                 (proof blocks, until //@end)
  //@fields allowed=<a,b,c>      field names the body may read on abstracted struct types
  //@body                        <- replaced by the extracted body with the insertions above
  //@fnfull file=<path> name=<fn> [impl=<Type>]   whole function (signature + body) verbatim, visibility stripped
  //@canary "<old>" => "<new>"   a second file with this substitution must FAIL verification

What extraction changes (complete list): attributes/doc comments/visibility of items are dropped;
`-> T` is written `-> (r: T)` in the hand-written signature (checked against the repo signature);
declared loop-header rewrites; inserted invariant/decreases clauses and proof blocks (ghost code
only). Executable statements of bodies are copied token for token.
"""
import hashlib, json, os, re, subprocess, time


class Lost(Exception):
    pass


def _skip_ws_comments(s, i):
    n = len(s)
    while i < n:
        if s[i].isspace():
            i += 1
        elif s.startswith("//", i):
            j = s.find("\n", i)
            i = n if j < 0 else j + 1
        elif s.startswith("/*", i):
            depth, i = 1, i + 2
            while i < n and depth:
                if s.startswith("/*", i):
                    depth += 1; i += 2
                elif s.startswith("*/", i):
                    depth -= 1; i += 2
                else:
                    i += 1
        else:
            break
    return i


def _skip_token(s, i):
    """advance over one lexical element starting at i (string, char, comment, or single char)"""
    n = len(s)
    c = s[i]
    if s.startswith("//", i) or s.startswith("/*", i) or c.isspace():
        return _skip_ws_comments(s, i)
    if c == '"':
        i += 1
        while i < n and s[i] != '"':
            i += 2 if s[i] == "\\" else 1
        return i + 1
    m = re.match(r'b?r(#*)"', s[i:])
    if m and (i == 0 or not (s[i - 1].isalnum() or s[i - 1] == "_")):
        hashes = m.group(1)
        end = s.find('"' + hashes, i + len(m.group(0)))
        return end + 1 + len(hashes)
    if c == "'":
        # char literal or lifetime
        m = re.match(r"'(\\.[^']*|[^\\'])'", s[i:])
        if m:
            return i + len(m.group(0))
        m = re.match(r"'[A-Za-z_]\w*", s[i:])
        if m:
            return i + len(m.group(0))
    return i + 1


def match_brace(s, i, open_c="{", close_c="}"):
    """s[i] == open_c; return index just past the matching close."""
    assert s[i] == open_c
    depth = 0
    n = len(s)
    while i < n:
        c = s[i]
        if c == open_c and not s.startswith("//", i):
            depth += 1
            i += 1
        elif c == close_c:
            depth -= 1
            i += 1
            if depth == 0:
                return i
        else:
            i = _skip_token(s, i)
    raise Lost("unbalanced braces")


def strip_cfg_test(src):
    """remove `#[cfg(test)] mod tests { ... }` so test helpers never shadow real items"""
    out = src
    for m in list(re.finditer(r"#\[cfg\(test\)\]\s*mod\s+\w+\s*\{", src))[::-1]:
        start = m.start()
        end = match_brace(src, m.end() - 1)
        out = out[:start] + out[end:]
    return out


def find_impl_block(src, ty):
    res = []
    for m in re.finditer(r"\bimpl\b[^;{]*?\b%s\b[^;{]*\{" % re.escape(ty), src):
        head = m.group(0)
        if " for " in head and not re.search(r"for\s+%s\b" % re.escape(ty), head):
            continue
        end = match_brace(src, m.end() - 1)
        res.append((m.end(), end - 1))
    return res


def find_fn(src, name, impl=None):
    """-> (signature_text, body_text incl. braces). Lost if not found or ambiguous."""
    src = strip_cfg_test(src)
    regions = [(0, len(src))]
    if impl:
        regions = find_impl_block(src, impl)
        if not regions:
            raise Lost("impl block for %s not found" % impl)
    hits = []
    for (a, b) in regions:
        for m in re.finditer(r"\bfn\s+%s\b" % re.escape(name), src[a:b]):
            start = a + m.start()
            # skip occurrences inside comments: check the line prefix
            ls = src.rfind("\n", 0, start) + 1
            if src[ls:start].lstrip().startswith("//"):
                continue
            # find the body's opening brace: first `{` at paren/bracket depth 0 after the signature
            i = start
            depth = 0
            while i < b:
                c = src[i]
                if c in "([":
                    depth += 1; i += 1
                elif c in ")]":
                    depth -= 1; i += 1
                elif c == "{" and depth == 0:
                    break
                elif c == ";" and depth == 0:
                    i = None
                    break
                else:
                    i = _skip_token(src, i)
            if i is None or i >= b:
                continue
            end = match_brace(src, i)
            hits.append((src[start:i].strip(), src[i:end]))
    if not impl:
        # free function: keep only top-level (non-indented or module-level) definitions if several
        pass
    if len(hits) != 1:
        raise Lost("function %s%s: %d definitions found" % ((impl + "::") if impl else "", name, len(hits)))
    return hits[0]


def norm(s):
    return re.sub(r"\s+", " ", s).strip()


def norm_tokens(s):
    s = re.sub(r"\s+", " ", s).strip()
    return re.sub(r"\s*([(){}\[\]<>,:;&*=+\-|!])\s*", r"\1", s)


def find_item(src, kind, name):
    src = strip_cfg_test(src)
    kw = {"enum": "enum", "struct": "struct", "const": "const", "fn": "fn", "type": "type", "trait": "trait"}[kind]
    hits = []
    for m in re.finditer(r"(?:pub(?:\([^)]*\))?\s+)?%s\s+%s\b" % (kw, re.escape(name)), src):
        ls = src.rfind("\n", 0, m.start()) + 1
        if src[ls:m.start()].lstrip().startswith("//"):
            continue
        i = m.end()
        while i < len(src) and src[i] not in "{;(":
            i += 1
        if src[i] == ";":
            end = i + 1
        elif src[i] == "(":
            end = match_brace(src, i, "(", ")")
            j = src.find(";", end)
            end = j + 1
        else:
            end = match_brace(src, i)
        text = src[m.start():end]
        hits.append(text)
    if len(hits) != 1:
        raise Lost("item %s %s: %d definitions found" % (kind, name, len(hits)))
    text = hits[0]
    text = re.sub(r"^\s*pub(?:\([^)]*\))?\s+", "", text)
    # strip attributes, doc comments and field visibility inside the item
    text = re.sub(r"#\[[^\]]*\]\s*", "", text)
    text = re.sub(r"^\s*///.*\n", "", text, flags=re.M)
    text = re.sub(r"^\s*//.*\n", "", text, flags=re.M)
    text = re.sub(r"\bpub(?:\([^)]*\))?\s+", "", text)
    return text


def loop_headers(body):
    """positions of loops in a body in source order: list of (kw_start, brace_index, end_index)"""
    res = []
    i = 0
    n = len(body)
    while i < n:
        if body.startswith("//", i) or body.startswith("/*", i) or body[i] in "\"'":
            i = _skip_token(body, i)
            continue
        m = re.match(r"(for|while|loop)\b", body[i:])
        if m and (i == 0 or not (body[i - 1].isalnum() or body[i - 1] == "_")):
            j = i + len(m.group(0))
            depth = 0
            while j < n:
                c = body[j]
                if c in "([":
                    depth += 1; j += 1
                elif c in ")]":
                    depth -= 1; j += 1
                elif c == "{" and depth == 0:
                    break
                else:
                    j = _skip_token(body, j)
            end = match_brace(body, j)
            res.append((i, j, end))
            i = j + 1
            continue
        i += 1
    return res


def fields_read(body):
    return set(m.group(1) for m in re.finditer(r"\.\s*([a-z_]\w*)\b(?!\s*\()", body))


def build(unit_path, repo):
    """-> (verus_text, canary_texts, report)"""
    tpl = open(unit_path).read().split("\n")
    out = []
    report = {"items": [], "functions": [], "rewrites": [], "insertions": 0, "canaries": []}
    canaries = []
    cur = None  # current fn context
    i = 0
    while i < len(tpl):
        line = tpl[i]
        s = line.strip()
        if s.startswith("//@item "):
            kv = dict(re.findall(r'(\w+)=("[^"]*"|\S+)', s))
            src = open(os.path.join(repo, kv["file"])).read()
            text = find_item(src, kv["kind"], kv["name"])
            if "derive" in kv:
                out.append("#[derive(%s)]" % kv["derive"].replace(",", ", "))
            out.append(text)
            report["items"].append({"file": kv["file"], "kind": kv["kind"], "name": kv["name"],
                                    "sha256": hashlib.sha256(text.encode()).hexdigest()[:16]})
        elif s.startswith("//@fnfull "):
            kv = dict((k, v.strip('"')) for k, v in re.findall(r'(\w+)=("[^"]*"|\S+)', s))
            src = open(os.path.join(repo, kv["file"])).read()
            sig, body = find_fn(src, kv["name"], kv.get("impl"))
            sig = re.sub(r"^(pub(\([^)]*\))?\s+)", "", sig)
            out.append(sig + " " + body)
            report["functions"].append({"file": kv["file"], "name": kv["name"], "loops": len(loop_headers(body)),
                                        "body_sha256": hashlib.sha256(body.encode()).hexdigest()[:16]})
        elif s.startswith("//@fn "):
            kv = dict((k, v.strip('"')) for k, v in re.findall(r'(\w+)=("[^"]*"|\S+)', s))
            src = open(os.path.join(repo, kv["file"])).read()
            sig, body = find_fn(src, kv["name"], kv.get("impl"))
            sig_n = re.sub(r"^(pub(\([^)]*\))?\s+)?(const\s+)?", "", norm(sig))
            if norm_tokens(sig_n) != norm_tokens(kv["sig"]):
                raise Lost("signature of %s changed: repo has `%s`, unit expects `%s`" % (kv["name"], sig_n, kv["sig"]))
            cur = {"kv": kv, "body": body, "loops": {}, "fields": None}
        elif s.startswith("//@fields "):
            cur["fields"] = set(s.split("allowed=")[1].split(","))
        elif s.startswith("//@loop "):
            m = re.match(r'//@loop (\d+) (rewrite|invariant|begin|after)(.*)$', s)
            n, what, rest = int(m.group(1)), m.group(2), m.group(3)
            lp = cur["loops"].setdefault(n, {})
            if what == "rewrite":
                mm = re.match(r'\s*"(.*)"\s*=>\s*"(.*)"\s*$', rest)
                lp["rewrite"] = (mm.group(1), mm.group(2))
            else:
                block = []
                i += 1
                while tpl[i].strip() != "//@end":
                    block.append(tpl[i])
                    i += 1
                lp[what] = "\n".join(block)
        elif s == "//@body":
            body = cur["body"]
            if cur["fields"] is not None:
                extra = fields_read(body) - cur["fields"]
                if extra:
                    raise Lost("%s reads fields outside the abstracted type: %s" % (cur["kv"]["name"], sorted(extra)))
            loops = loop_headers(body)
            for n in cur["loops"]:
                if n >= len(loops):
                    raise Lost("%s: loop %d not found (body has %d loops)" % (cur["kv"]["name"], n, len(loops)))
            # apply insertions from the last loop to the first so offsets stay valid
            for n in sorted(cur["loops"], reverse=True):
                kw, br, end = loops[n]
                lp = cur["loops"][n]
                header = body[kw:br]
                new_header = header
                if "rewrite" in lp:
                    old, new = lp["rewrite"]
                    if norm(old) not in norm(header):
                        raise Lost("%s loop %d header changed: `%s`" % (cur["kv"]["name"], n, norm(header)))
                    new_header = norm(header).replace(norm(old), new) + " "
                    report["rewrites"].append("%s loop %d: `%s` => `%s`" % (cur["kv"]["name"], n, old, new))
                inv = ("\n" + lp["invariant"] + "\n") if "invariant" in lp else ""
                begin = ("\n" + lp["begin"] + "\n") if "begin" in lp else ""
                after = ("\n" + lp["after"] + "\n") if "after" in lp else ""
                report["insertions"] += sum(1 for k in ("invariant", "begin", "after") if k in lp)
                body = body[:kw] + new_header + inv + "{" + begin + body[br + 1:end] + after + body[end:]
            out.append(body)
            report["functions"].append({"file": cur["kv"]["file"], "name": (cur["kv"].get("impl", "") + "::" if cur["kv"].get("impl") else "") + cur["kv"]["name"],
                                        "body_sha256": hashlib.sha256(cur["body"].encode()).hexdigest()[:16],
                                        "loops": len(loops)})
            cur = None
        elif s.startswith("//@canary "):
            mm = re.match(r'//@canary\s+"(.*)"\s*=>\s*"(.*)"\s*$', s)
            canaries.append((mm.group(1), mm.group(2)))
        else:
            out.append(line)
        i += 1
    text = "\n".join(out) + "\n"
    ctexts = []
    for old, new in canaries:
        if text.count(old) < 1:
            raise Lost("canary anchor not found: %s" % old)
        ctexts.append(text.replace(old, new, 1))
        report["canaries"].append("%s => %s" % (old, new))
    return text, ctexts, report


def verus_run(path, timeout=600):
    t0 = time.time()
    try:
        p = subprocess.run(["verus", path, "--output-json", "--time", "--multiple-errors", "20"],
                           stdout=subprocess.PIPE, stderr=subprocess.PIPE, text=True, timeout=timeout)
    except subprocess.TimeoutExpired:
        return None, "timeout", time.time() - t0
    try:
        j = json.loads(p.stdout[p.stdout.index("{"):])
    except Exception:
        j = None
    return j, p.stderr, time.time() - t0


def run_unit(unit, repo, outdir):
    verif = os.path.dirname(os.path.dirname(os.path.abspath(__file__)))
    unit_path = os.path.join(verif, "verus", unit + ".vspec")
    os.makedirs(outdir, exist_ok=True)
    text, ctexts, report = build(unit_path, repo)   # raises Lost
    f = os.path.join(outdir, unit + ".rs")
    open(f, "w").write(text)
    res = {"cmd": "verus %s --output-json --time" % f, "file": f, "obligations": [], "undecided": [],
           "extraction": report, "version": ""}
    j, err, dt = verus_run(f)
    rel = os.path.relpath(unit_path, verif)
    if j is None:
        res["undecided"].append("verus gave no result: %s" % (err[-400:] if err else ""))
        return res
    res["version"] = j.get("verus", {}).get("version", "")
    vr = j.get("verification-results", {})
    smt = j.get("times-ms", {}).get("smt", {}).get("total", 0) / 1000.0
    verified, errors = vr.get("verified", 0), vr.get("errors", 0)
    if vr.get("encountered-error") and errors == 0:
        # rustc / VIR level error: unsupported construct or the extracted text no longer type-checks
        first = [l for l in err.splitlines() if l.startswith("error")]
        res["undecided"].append("verus front-end error (not a verification failure): %s" % "; ".join(first[:3]))
        return res
    # map errors to functions
    failed_msgs = re.findall(r"^error: ([^\n]*)\n\s+--> [^\n]*:(\d+):", err, re.M)
    lines = text.split("\n")
    def fn_at(line_no):
        for k in range(min(line_no, len(lines)) - 1, -1, -1):
            m = re.match(r"\s*(?:pub\s+)?(?:proof\s+|spec\s+|exec\s+|open\s+spec\s+|closed\s+spec\s+)*fn\s+(\w+)", lines[k])
            if m:
                return m.group(1)
        return "?"
    bad = {}
    for msg, ln in failed_msgs:
        if msg.startswith("aborting"):
            continue
        bad.setdefault(fn_at(int(ln)), []).append("%s (line %s)" % (msg, ln))
    fns = re.findall(r"^\s*(?:pub\s+)?(?:proof\s+|exec\s+)?fn\s+(\w+)", text, re.M)
    fns = [x for x in fns if x != "main"]
    per = max(1, verified + errors)
    for fn in fns:
        if fn in bad:
            res["obligations"].append({"name": "%s::%s" % (unit, fn), "backend": "verus/z3", "kind": "verus",
                                       "verdict": "refuted", "reason": "; ".join(bad[fn])[:600] + "\n" + err[-1500:],
                                       "n_checks": 1, "solver_s": smt, "file": rel, "duration_s": dt})
        else:
            res["obligations"].append({"name": "%s::%s" % (unit, fn), "backend": "verus/z3", "kind": "verus",
                                       "verdict": "discharged", "reason": "", "n_checks": 1, "solver_s": 0,
                                       "file": rel, "duration_s": dt})
    if errors and not bad:
        res["undecided"].append("verus reported %d errors that could not be attributed" % errors)
    if errors == 0 and verified == 0:
        res["undecided"].append("vacuity: verus verified zero functions")
    # canaries: each variant must fail
    for k, ct in enumerate(ctexts):
        cf = os.path.join(outdir, "%s_canary%d.rs" % (unit, k))
        open(cf, "w").write(ct)
        cj, cerr, cdt = verus_run(cf)
        cvr = (cj or {}).get("verification-results", {})
        ok = cj is not None and cvr.get("errors", 0) > 0 and not (cvr.get("encountered-error") and cvr.get("errors", 0) == 0)
        res["obligations"].append({"name": "%s::canary%d" % (unit, k), "backend": "verus/z3", "kind": "canary",
                                   "verdict": "canary-ok" if ok else "canary-passed",
                                   "reason": "" if ok else "canary variant verified: contract is vacuous or not checked",
                                   "n_checks": 1, "solver_s": 0, "file": rel, "duration_s": cdt})
    return res
